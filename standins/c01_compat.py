"""Bounded stand-in for C01 "Conversion succeeds exactly between units of identical dimensionality".

The relation under test is  a ~ b  :<=>  Dim(a) == Dim(b)  where Dim is computed by the independent reference
`standins.ref.Ref.dim` over the registry's *definition table* (for the generated registries: by an own recursion
over the generator's data, i.e. also independent of the definition parser).  No context is active anywhere.

Parts
 P  pairs      every ordered pair (a, b) of the multiplicative canonical units of the default registry
               (non_int_type=Fraction), observed through ten routes: Quantity.to / m_as / ito (a failed ito must leave
               the quantity unchanged), UnitRegistry.convert, Quantity.is_compatible_with (Unit and Quantity operand),
               Unit.is_compatible_with, UnitRegistry.is_compatible_with (objects and strings), Quantity.check(dimension
               container of b), the @ureg.check("<dimension string of b>") decorator.  Success <=> a ~ b; failure must
               be DimensionalityError.  Configurations float / Decimal / auto_reduce_dimensions / case_sensitive=False:
               same on a stride (quick) or on all pairs (thorough).
 D  dimensions every unit x every declared dimension name (base and derived): Quantity.check("[name]") <=> Dim equal.
 L  listings   get_dimensionality(u) == Dim(u) for every key of the unit table (names, aliases, symbols; container
               and string route) and for prefixed / plural spellings; get_compatible_units(u) (default_system = None)
               == {canonical v : v ~ u} for every canonical unit (incl. non-multiplicative and delta_ units, as pint lists
               them); with the default system the listing must be a subset of that class; the empty unit.
 S  spellings  ordered pairs of alias / symbol / prefixed / plural spellings (half of them drawn from the same class).
 C  compounds  seeded compound units (1-3 factors, exponents -3..3 and +-1/2): Dim(A*B) = Dim A + Dim B,
               Dim(A/B), Dim(A**n) on the real Unit operators; A against an equivalent re-spelling (same-class
               substitution / expansion of a definition), against a near miss (one exponent moved) and against an
               unrelated compound, through the routes of P.
 G  generated  small registries built from definition lines (2 base units a=[A], b=[B], one derived dimension
               [C]=[A]^p[B]^q, optionally a root unit c=[C], derived units with references to <= 2 earlier units with
               exponents in -2..2): all ordered pairs of units through the routes, listings, dimensions, products.
"""
from __future__ import annotations

import itertools
import json
import multiprocessing as mp
import random
import time
from decimal import Decimal
from fractions import Fraction

NAME = "c01_compat"
NWORKERS = 16

CONFIGS = {
    "fraction": {"non_int_type": Fraction},
    "float": {},
    "decimal": {"non_int_type": Decimal},
    "autoreduce": {"non_int_type": Fraction, "auto_reduce_dimensions": True},
    "casei": {"non_int_type": Fraction, "case_sensitive": False},
}
ROUTES = ("to", "m_as", "ito", "convert", "q.compat(u)", "q.compat(q)", "u.compat(u)", "ureg.compat(obj)",
          "ureg.compat(str)", "q.check", "@check")
LITE = ("to", "convert", "q.compat(u)", "u.compat(u)", "ureg.compat(obj)", "q.check", "@check")


def _cpu_total():
    import resource

    a = resource.getrusage(resource.RUSAGE_SELF)
    b = resource.getrusage(resource.RUSAGE_CHILDREN)
    return a.ru_utime + a.ru_stime + b.ru_utime + b.ru_stime


def _exc_text(e):
    try:
        return str(e)
    except Exception:  # noqa: BLE001  (str() of a pint error raises in a Fraction registry: known finding of C09)
        return "<str() of the exception failed>"


# =============================================================================== violation collector
class Collector:
    def __init__(self):
        self.entries = {}

    def add(self, case, what, example):
        e = self.entries.get(case)
        if e is None:
            e = self.entries[case] = {"case": case, "what": what, "instances": 0, "examples": []}
        e["instances"] += 1
        if len(e["examples"]) < 2:
            e["examples"].append(example)

    def merge(self, other_entries):
        for case, o in other_entries.items():
            e = self.entries.get(case)
            if e is None:
                self.entries[case] = {"case": case, "what": o["what"], "instances": o["instances"],
                                      "examples": list(o["examples"][:2])}
            else:
                e["instances"] += o["instances"]
                for ex in o["examples"]:
                    if len(e["examples"]) < 2:
                        e["examples"].append(ex)


# =============================================================================== small helpers
def dimkey(d):
    return tuple(sorted((k, Fraction(v)) for k, v in dict(d).items() if v != 0))


def dim_add(d1, d2, s=1):
    out = dict(d1)
    for k, v in d2:
        out[k] = out.get(k, Fraction(0)) + s * v
    return tuple(sorted((k, v) for k, v in out.items() if v != 0))


def dim_scale(d, n):
    return tuple(sorted((k, v * n) for k, v in d if v * n != 0))


def dim_text(d):
    return "*".join("%s^%s" % kv for kv in d) or "1"


def uc_id(uc):
    return "*".join(k if v == 1 else "%s^%s" % (k, v) for k, v in sorted(dict(uc).items())) or "1"


def uc_json(uc):
    return {k: [Fraction(v).numerator, Fraction(v).denominator] for k, v in dict(uc).items()}


def uc_from_json(d):
    return {k: Fraction(a, b) for k, (a, b) in d.items()}


# =============================================================================== environment (one per process+config)
class Obj:
    __slots__ = ("ucd", "uc", "q", "u", "dim", "dimc", "deco", "text")


class Env:
    def __init__(self, cfg, ureg=None):
        import pint
        from standins.ref import Ref

        self.cfg = cfg
        self.nit = CONFIGS[cfg].get("non_int_type", float)
        self.ureg = ureg if ureg is not None else pint.UnitRegistry(**CONFIGS[cfg])
        self.ref = Ref(self.ureg)  # snapshot of the declared table before any lookup
        self.DimErr = pint.DimensionalityError
        self.names = sorted({d.name for d in self.ref.units.values()})
        # declared in the definition text (parsed definitions carry their source text) + the delta_ twins; the table
        # also holds prefixed units that were materialised while loading (kilogram, centimeter, ...)
        self.declared = {d.name for d in self.ref.units.values() if hasattr(d, "raw") or d.name.startswith("delta_")}
        self.ambiguous_keys, self.tainted = ({}, set()) if cfg != "casei" else self._casei_taint()
        self.mult = [n for n in self.names if n not in self.tainted
                     and self.ref.units[n].converter.is_multiplicative and not self.ref.units[n].converter.is_logarithmic]
        self.dims = {n: dimkey(self.ref.dim({n: 1})) for n in self.names}
        self.classes = {}
        for n in self.mult:
            self.classes.setdefault(self.dims[n], []).append(n)
        self.objs = {}
        self.float_range_skips = 0
        self._baddim = None

    def baddim(self):
        """canonical units whose real get_dimensionality differs from the reference (root cause of every pair
        violation that involves them); computed once"""
        if self._baddim is None:
            bad = set()
            for n in self.names:
                try:
                    got = dimkey(self.ureg.get_dimensionality(self.container({n: 1})))
                except Exception:  # noqa: BLE001
                    got = None
                if got != self.dims[n]:
                    bad.add(n)
            self._baddim = bad
        return self._baddim

    def root_cause(self, *ucds):
        """-> the first unit of the operands whose own dimensionality is already wrong, else None"""
        bad = self.baddim()
        for ucd in ucds:
            for k in sorted(ucd):
                r = self.ref.resolve(k)
                if r is not None and r[1].name in bad:
                    return r[1].name
        return None

    def expected_name(self, key):
        """canonical name the written definitions give to `key` (exact key, else a unique prefix+unit reading)"""
        c = candidates(self.ref, key)
        if len(c) != 1:
            return None
        p, u = next(iter(c))
        return p + u

    def bad_reference(self, n, depth=0):
        """for a unit whose dimensionality is wrong: (unit, key, got, expected) for the first key in its reference
        chain that the registry resolves to another definition than the written one (diagnosis only)"""
        udef = self.ref.units[n]
        if udef.reference is None or depth > 12:
            return None
        keys = sorted(k for k in dict(udef.reference) if not k.startswith("["))
        for k in keys:
            exp = self.expected_name(k)
            try:
                got = self.ureg.get_name(k)
            except Exception as e:  # noqa: BLE001
                got = "<%s>" % type(e).__name__
            if exp is not None and got != exp:
                return n, k, got, exp
        for k in keys:
            r = self.ref.resolve(k)
            if r is not None and r[1].name in self.baddim() and r[1].name != n:
                x = self.bad_reference(r[1].name, depth + 1)
                if x:
                    return x
        return None

    def negative_units(self):
        """units with a negative factor (electron_g_factor): a half-integer power of them is not a real number"""
        if getattr(self, "_neg", None) is None:
            neg = set()
            for n in self.mult:
                try:
                    if self.ref.factor({n: 1}) < 0:
                        neg.add(n)
                except ValueError:
                    pass
            self._neg = neg
        return self._neg

    def listed_names(self):
        """the names pint lists as compatible units: the declared (non-prefixed) units"""
        return set(self.declared)

    def _casei_taint(self):
        """case_sensitive=False: reference keys of the written definitions that have more than one case-insensitive
        reading (e.g. 'kg': kilogram / kilogauss) and the units whose definition chain passes through one.  Which
        reading the registry takes depends on set iteration order (hash seed), so these units are left out of the
        pair checks of this configuration and the ambiguity itself is checked (deterministically) in part L."""
        ref = self.ref
        amb = {}
        for d in ref.units.values():
            if d.reference is None:
                continue
            for k in dict(d.reference):
                if k.startswith("[") or k in ref.units:
                    continue
                if len(candidates(ref, k, casei=True)) > 1:
                    amb.setdefault(k, set()).add(d.name)
        tainted = set()
        for users in amb.values():
            tainted |= users
        changed = True
        while changed:
            changed = False
            for d in ref.units.values():
                if d.name in tainted or d.reference is None:
                    continue
                for k in dict(d.reference):
                    if k.startswith("["):
                        continue
                    r = ref.resolve(k)
                    if r is not None and r[1].name in tainted:
                        tainted.add(d.name)
                        changed = True
                        break
        return amb, tainted

    def num(self, v):
        v = Fraction(v)
        if v.denominator == 1:
            return int(v)
        if self.nit is Fraction:
            return v
        if self.nit is Decimal:
            return Decimal(v.numerator) / Decimal(v.denominator)
        return v.numerator / v.denominator

    def container(self, d):
        return self.ureg.UnitsContainer({k: self.num(v) for k, v in dict(d).items()})

    def dim_string(self, dim):
        if not dim:
            return ""
        return " * ".join("%s ** (%d/%d)" % (k, v.numerator, v.denominator) if v.denominator != 1
                          else "%s ** %d" % (k, v) for k, v in dim)

    def obj(self, ucd, cache=False, dim=None):
        key = tuple(sorted(ucd.items())) if cache else None
        if cache and key in self.objs:
            return self.objs[key]
        o = Obj()
        o.ucd = dict(ucd)
        o.uc = self.container(ucd)
        o.q = self.ureg.Quantity(1, o.uc)
        o.u = self.ureg.Unit(o.uc)
        o.dim = dimkey(self.ref.dim(ucd)) if dim is None else dim
        o.dimc = self.container(dict(o.dim))
        o.deco = None
        o.text = None
        if len(ucd) == 1 and list(ucd.values()) == [1] and next(iter(ucd)).isidentifier():
            o.text = next(iter(ucd))
        if cache:
            self.objs[key] = o
        return o

    def deco(self, o):
        if o.deco is None:
            s = self.dim_string(o.dim)
            o.deco = self.ureg.check(s if s else o.dimc)(_identity)
        return o.deco


def _identity(x):
    return x


_ENVS = {}


def get_env(cfg):
    if cfg not in _ENVS:
        _ENVS[cfg] = Env(cfg)
    return _ENVS[cfg]


# =============================================================================== the relation through every route
def observe(env, A, B, route):
    """-> ('ok', None) | ('dimerr', None) | ('raised', text) | ('bad', text)   [True/False for the predicates]"""
    ureg = env.ureg
    try:
        if route == "to":
            r = A.q.to(B.u)
            if type(r) is not type(A.q) or r.magnitude is None or dict(r._units) != dict(B.uc):
                return "bad", "to() returned %r" % (r,)
            return "ok", None
        if route == "m_as":
            r = A.q.m_as(B.u)
            if r is None or hasattr(r, "_units"):
                return "bad", "m_as() returned %r" % (r,)
            return "ok", None
        if route == "ito":
            q = ureg.Quantity(1, A.uc)
            try:
                r = q.ito(B.u)
            except env.DimErr:
                if q.magnitude != 1 or dict(q._units) != dict(A.uc):
                    return "bad", "a failed ito() left the quantity changed: magnitude %r, units %s" % (
                        q.magnitude, uc_id(q._units))
                return "dimerr", None
            if r is not None or dict(q._units) != dict(B.uc):
                return "bad", "ito() returned %r / units %s" % (r, uc_id(q._units))
            return "ok", None
        if route == "convert":
            r = ureg.convert(1, A.uc, B.uc)
            if r is None:
                return "bad", "convert() returned None"
            return "ok", None
        if route == "q.compat(u)":
            r = A.q.is_compatible_with(B.u)
        elif route == "q.compat(q)":
            r = A.q.is_compatible_with(B.q)
        elif route == "u.compat(u)":
            r = A.u.is_compatible_with(B.u)
        elif route == "ureg.compat(obj)":
            r = ureg.is_compatible_with(A.q, B.u)
        elif route == "ureg.compat(str)":
            r = ureg.is_compatible_with(A.text, B.text)
        elif route == "q.check":
            r = A.q.check(B.dimc)
        elif route == "@check":
            env.deco(B)(A.q)
            return "ok", None
        else:
            raise ValueError(route)
        if r is True:
            return "ok", None
        if r is False:
            return "dimerr", None
        return "bad", "predicate returned %r" % (r,)
    except env.DimErr:
        return "dimerr", None
    except (OverflowError, ZeroDivisionError) as e:
        env.float_range_skips += 1
        return "skip", type(e).__name__
    except Exception as e:  # noqa: BLE001 - any other exception is itself a disagreement with the statement
        if isinstance(e, ValueError) and ("'inf'" in _exc_text(e) or "'nan'" in _exc_text(e)):
            env.float_range_skips += 1  # a float factor of an irrational unit left the double range
            return "skip", "ValueError"
        return "raised", "%s: %s" % (type(e).__name__, _exc_text(e))


def relation_problems(env, A, B, routes):
    """list of (route, what) where the real code disagrees with  A ~ B  <=>  Dim equal"""
    same = A.dim == B.dim
    out = []
    for route in routes:
        if route == "ureg.compat(str)" and (A.text is None or B.text is None):
            continue
        got, info = observe(env, A, B, route)
        if got == "skip":
            continue
        if got in ("raised", "bad"):
            out.append((route, "%s on (%s -> %s): %s [Dim %s vs %s]" % (route, uc_id(A.ucd), uc_id(B.ucd), info,
                                                                       dim_text(A.dim), dim_text(B.dim))))
        elif (got == "ok") != same:
            out.append((route, "%s on (%s -> %s) %s although the reference dimensionalities are %s: %s vs %s"
                        % (route, uc_id(A.ucd), uc_id(B.ucd),
                           "succeeded / returned True" if got == "ok" else "raised DimensionalityError / returned False",
                           "equal" if same else "different", dim_text(A.dim), dim_text(B.dim))))
    return out


def _pair_example(cfg, A, B, route):
    return {"part": "pair", "cfg": cfg, "a": uc_json(A.ucd), "b": uc_json(B.ucd), "route": route}


def add_pair_violation(env, col, prefix, A, B, route, what, example, label=None):
    """a pair violation is filed under the unit whose own dimensionality is wrong when there is one (one case per
    such unit instead of one per pair), else under the pair"""
    file_violation(env, col, "%s:%s:%s:%s" % (prefix, route, env.cfg, label or "(%s,%s)" % (uc_id(A.ucd), uc_id(B.ucd))),
                   what, example, A.ucd, B.ucd)


def file_violation(env, col, case, what, example, *ucds):
    rc = env.root_cause(*ucds)
    if rc is None:
        col.add(case, what, example)
        return
    br = env.bad_reference(rc)
    if br is not None:
        col.add("wrong-reference:%s:%s" % (env.cfg, br[1]),
                "in the %s registry the key %r in the written definition of %s resolves to %r, the written definitions "
                "mean %r; a consequence: get_dimensionality(%r) = %s, reference %s; %s"
                % (env.cfg, br[1], br[0], br[2], br[3], rc, _real_dim_text(env, rc), dim_text(env.dims[rc]), what), example)
    else:
        col.add("wrong-dimensionality:%s:%s" % (env.cfg, rc),
                "get_dimensionality(%r) = %s in the %s registry, reference %s; consequence: %s"
                % (rc, _real_dim_text(env, rc), env.cfg, dim_text(env.dims[rc]), what), example)


def _real_dim_text(env, n):
    try:
        return dim_text(dimkey(env.ureg.get_dimensionality(env.container({n: 1}))))
    except Exception as e:  # noqa: BLE001
        return "raised %s" % type(e).__name__


# =============================================================================== P: pairs of canonical units
def pairs_worker(task):
    _, cfg, rows, stride, offset, routes = task
    env = get_env(cfg)
    col = Collector()
    mult = env.mult
    objs = [env.obj({n: 1}, cache=True) for n in mult]
    evals = nontrivial = 0
    n = len(mult)
    for i in rows:
        if i >= n:  # the case-insensitive configuration leaves some units out
            continue
        A = objs[i]
        for j in range(n):
            if stride > 1 and (i * n + j) % stride != offset:
                continue
            B = objs[j]
            evals += 1
            nontrivial += (i != j and A.dim == B.dim)
            for route, what in relation_problems(env, A, B, routes):
                add_pair_violation(env, col, "pair", A, B, route, what, _pair_example(cfg, A, B, route))
    return {"evals": evals, "nontrivial": nontrivial, "entries": col.entries, "skips": env.float_range_skips,
            "n_mult": n}


# =============================================================================== D: units x declared dimensions
def dimensions_worker(task):
    _, cfg = task
    env = get_env(cfg)
    col = Collector()
    ref = env.ref
    evals = nontrivial = 0
    dnames = sorted(k for k in ref.dimensions if k != "[]")
    ddim = {}
    for dn in dnames:
        acc = {}
        ref.dim_of_dimension(dn, acc, Fraction(1))
        acc.pop("[]", None)
        ddim[dn] = dimkey(acc)
    for n in env.mult:
        A = env.obj({n: 1}, cache=True)
        for dn in dnames:
            evals += 1
            exp = A.dim == ddim[dn]
            nontrivial += exp
            try:
                got = A.q.check(dn)
            except Exception as e:  # noqa: BLE001
                got = "raised %s" % type(e).__name__
            if got is not exp:
                file_violation(env, col, "check-dimension:%s:(%s,%s)" % (cfg, n, dn),
                               "Quantity(1, %r).check(%r) = %r, reference: Dim(unit) = %s, Dim(dimension) = %s"
                               % (n, dn, got, dim_text(A.dim), dim_text(ddim[dn])),
                               {"part": "checkdim", "cfg": cfg, "unit": n, "dimension": dn}, {n: 1})
    return {"evals": evals, "nontrivial": nontrivial, "entries": col.entries, "n_dimensions": len(dnames)}


def checkdim_problem(env, n, dn):
    acc = {}
    env.ref.dim_of_dimension(dn, acc, Fraction(1))
    acc.pop("[]", None)
    exp = dimkey(env.ref.dim({n: 1})) == dimkey(acc)
    try:
        got = env.ureg.Quantity(1, env.container({n: 1})).check(dn)
    except Exception as e:  # noqa: BLE001
        got = "raised %s" % type(e).__name__
    return got is not exp


# =============================================================================== spellings (own resolution)
def candidates(ref, name, casei=False):
    """All (prefix definition name, unit definition name) readings of `name` by the documented rule
    [prefix] unit [s]; an exact key of the unit table wins.  casei: prefix and unit are compared case-insensitively
    (the most liberal reading of "case insensitive lookup"; used to leave out spellings that are ambiguous there)."""
    if name in ref.units:
        return {("", ref.units[name].name)}
    out = set()
    if casei:
        lower = getattr(ref, "_lower_units", None)
        if lower is None:
            lower = ref._lower_units = {}
            for k, d in ref.units.items():
                lower.setdefault(k.lower(), set()).add(d.name)
    for suffix in ("", "s"):
        if suffix and not name.endswith(suffix):
            continue
        stem = name[: len(name) - len(suffix)] if suffix else name
        for p, pdef in ref.prefixes.items():
            if not (stem.lower().startswith(p.lower()) if casei else stem.startswith(p)):
                continue
            u = stem[len(p):]
            if suffix and len(u) == 1:
                continue
            if casei:
                for nm in lower.get(u.lower(), ()):
                    out.add((pdef.name if p else "", nm))
            elif u in ref.units:
                out.add((pdef.name if p else "", ref.units[u].name))
    return out


def spelling_pool(env, rng, n_prefixed):
    """-> list of (spelling, canonical unit name) for multiplicative units: every key of the table, plus seeded
    prefixed / plural spellings with a unique reading."""
    ref = env.ref
    multset = set(env.mult)
    # prefixes are only put in front of keys of declared units (not of the materialised kilogram, centimeter, ...:
    # doubly prefixed spellings are the subject of C08)
    keys = sorted(k for k, d in ref.units.items() if d.name in multset and hasattr(d, "raw"))
    pool = [(k, ref.units[k].name) for k in sorted(k for k, d in ref.units.items() if d.name in multset)]
    nkeys = len(pool)
    pkeys = sorted(p for p in ref.prefixes if p)
    ambiguous = 0
    tries = 0
    while len(pool) < nkeys + n_prefixed and tries < 20 * n_prefixed:
        tries += 1
        k = rng.choice(keys)
        kind = rng.randrange(3)
        s = (rng.choice(pkeys) + k) if kind != 2 else k
        if kind != 0 and len(k) > 1:
            s += "s"
        if s in ref.units:
            continue
        c = candidates(ref, s)
        if len(c) != 1 or (env.cfg == "casei" and len(candidates(ref, s, casei=True)) != 1):
            ambiguous += 1
            continue
        pool.append((s, next(iter(c))[1]))
    return pool, nkeys, ambiguous


# =============================================================================== L: dimensionalities and listings
def listing_worker(task):
    _, cfg, seed, n_prefixed = task
    import pint

    env = Env(cfg)  # own registry: default_system is changed below
    ureg, ref = env.ureg, env.ref
    col = Collector()
    evals = nontrivial = 0
    rng = random.Random(seed + 11)
    # --- get_dimensionality over every key and over prefixed / plural spellings
    allkeys = sorted(k for k, d in ref.units.items() if d.name not in env.tainted)
    for key, users in sorted(env.ambiguous_keys.items()):
        evals += 1
        problem = ambiguous_key_problem(env, key)
        if problem:
            col.add("casei-ambiguous-reference:%s" % key, problem + "; used by the written definitions of %s; %d units "
                    "depend on it" % (sorted(users), len(env.tainted)), {"part": "ambiguous-key", "cfg": cfg, "key": key})
    pool, nkeys, ambiguous = spelling_pool(env, rng, n_prefixed)
    pool_all = [(k, ref.units[k].name) for k in allkeys] + pool[nkeys:]
    for s, canon in pool_all:
        exp = env.dims[canon]
        for via in ("container", "string"):
            if via == "string" and not s.isidentifier():
                continue
            evals += 1
            nontrivial += s != canon
            try:
                got = dimkey(ureg.get_dimensionality(env.container({s: 1}) if via == "container" else s))
            except Exception as e:  # noqa: BLE001
                got = "raised %s: %s" % (type(e).__name__, _exc_text(e))
            if got != exp:
                file_violation(env, col, "dimensionality:%s:%s:%s" % (cfg, via, s),
                               "get_dimensionality(%r) [%s] = %s, reference Dim(%s) = %s"
                               % (s, via, got if isinstance(got, str) else dim_text(got), canon, dim_text(exp)),
                               {"part": "dim", "cfg": cfg, "spelling": s, "canon": canon, "via": via}, {canon: 1})
    # Unit(...).dimensionality / Quantity.dimensionality per object
    for n in env.names:
        if n in env.tainted:
            continue
        evals += 1
        try:
            got1 = dimkey(ureg.Unit(env.container({n: 1})).dimensionality)
            got2 = dimkey(ureg.Quantity(1, env.container({n: 1})).dimensionality)
        except Exception as e:  # noqa: BLE001
            got1 = got2 = "raised %s" % type(e).__name__
        if got1 != env.dims[n] or got2 != env.dims[n]:
            file_violation(env, col, "dimensionality:%s:object:%s" % (cfg, n),
                           "Unit/Quantity .dimensionality = %s / %s, reference %s" % (got1, got2, dim_text(env.dims[n])),
                           {"part": "dim", "cfg": cfg, "spelling": n, "canon": n, "via": "object"}, {n: 1})
    # --- compatible-unit listings
    byclass = {env.dims[n]: set() for n in env.names}
    for n in env.listed_names():
        byclass[env.dims[n]].add(n)
    restricted = {}
    for n in env.names:  # with the default system: a subset of the class (exact membership is C14's subject)
        if n in env.tainted:
            continue
        evals += 1
        problem, got = listing_problem(env, n, byclass[env.dims[n]], subset=True)
        restricted[n] = got
        if problem:
            file_violation(env, col, "compatible-units-default-system:%s:%s" % (cfg, n), problem,
                           {"part": "listing", "cfg": cfg, "unit": n, "subset": True}, {n: 1},
                           *[{x: 1} for x in sorted((got or set()) - byclass[env.dims[n]])])
    default_system = getattr(ureg, "default_system", None)
    if default_system is not None:
        ureg.default_system = None
    for n in env.names:
        if n in env.tainted:
            continue
        evals += 1
        nontrivial += len(byclass[env.dims[n]]) > 1
        problem, got = listing_problem(env, n, byclass[env.dims[n]], subset=False)
        if problem:
            file_violation(env, col, "compatible-units:%s:%s" % (cfg, n), problem,
                           {"part": "listing", "cfg": cfg, "unit": n, "subset": False}, {n: 1},
                           *[{x: 1} for x in sorted((got or set()) ^ byclass[env.dims[n]])])
    # --- the empty unit
    for label, arg in (("empty-container", lambda: ureg.UnitsContainer({})), ("dimensionless-name", lambda: "dimensionless")):
        evals += 1
        problem = empty_unit_problem(env, arg(), byclass.get((), set()))
        if problem:
            col.add("compatible-units-of-the-empty-unit:<%s>" % label, problem + " [%s registry]" % cfg,
                    {"part": "listing-empty", "cfg": cfg, "label": label})
    for label, fn in empty_name_probes(env):
        evals += 1
        problem = _probe(fn)
        if problem:
            col.add("dimensionless-name:%s" % label, problem + " [%s registry]" % cfg,
                    {"part": "empty-name", "cfg": cfg, "label": label})
    sample = {"part": "L", "get_compatible_units('joule') [default_system=None]":
              sorted(next(iter(u._units)) for u in ureg.get_compatible_units(env.container({"joule": 1})))[:8],
              "reference class size": len(byclass[env.dims["joule"]])}
    return {"evals": evals, "nontrivial": nontrivial, "entries": col.entries, "samples": [sample],
            "n_keys": len(allkeys), "n_spellings": len(pool_all), "ambiguous_spellings": ambiguous,
            "n_canonical": len(env.names), "default_system": default_system, "casei_tainted": len(env.tainted)}


def listing_problem(env, n, cls, subset):
    try:
        got_units = env.ureg.get_compatible_units(env.container({n: 1}))
    except Exception as e:  # noqa: BLE001
        return "get_compatible_units(%r) raised %s: %s" % (n, type(e).__name__, _exc_text(e)), None
    got = set()
    for x in got_units:
        d = dict(x._units)
        if len(d) != 1 or list(d.values()) != [1]:
            return "get_compatible_units(%r) returned a compound unit %r" % (n, d), None
        got.add(next(iter(d)))
    got -= env.tainted
    cls = cls - env.tainted
    if subset:
        if not got <= cls:
            return ("get_compatible_units(%r) under the default system lists %s, which are not of the reference "
                    "dimensionality %s" % (n, sorted(got - cls)[:6], dim_text(env.dims[n]))), got
        return None, got
    if got != cls:
        return ("get_compatible_units(%r): listed but not equidimensional %s; equidimensional but not listed %s "
                "(reference class has %d canonical units)" % (n, sorted(got - cls)[:6], sorted(cls - got)[:6], len(cls))), got
    return None, got


def ambiguous_key_problem(env, key):
    """the written (case-sensitive) definitions give `key` one reading; the registry must not offer another"""
    exp = candidates(env.ref, key)
    got = {(p, u) for p, u, _ in env.ureg.parse_unit_name(key)}
    if got != exp:
        return ("in a case_sensitive=False registry the reference key %r of the written definitions has the readings %s "
                "(written definitions: %s); get_name() takes the first of an unordered set, so the dimensionality of "
                "the units defined through it changes with the hash seed" % (key, sorted(got), sorted(exp)))
    return None


def empty_unit_problem(env, arg, cls):
    try:
        got = {next(iter(x._units)) for x in env.ureg.get_compatible_units(arg)}
    except Exception as e:  # noqa: BLE001
        return "get_compatible_units(%r) raised %s(%s)" % (arg, type(e).__name__, _exc_text(e))
    if got != cls:
        return ("get_compatible_units(%r) lists %d units; the %d dimensionless canonical units (radian, count, "
                "percent, ...) are compatible with it (Quantity(1, '').to('radian') succeeds)" % (arg, len(got), len(cls)))
    return None


def empty_name_probes(env):
    ureg = env.ureg
    rad = env.container({"radian": 1})
    met = env.container({"meter": 1})
    return [
        ("get_dimensionality", lambda: dimkey(ureg.get_dimensionality("dimensionless")) == ()),
        ("check(radian)", lambda: ureg.Quantity(1, rad).check("dimensionless") is True),
        ("check(meter)", lambda: ureg.Quantity(1, met).check("dimensionless") is False),
        ("to", lambda: ureg.Quantity(1, rad).to("dimensionless").magnitude == 1),
        ("is_compatible_with", lambda: ureg.Quantity(1, rad).is_compatible_with("dimensionless") is True
         and ureg.Quantity(1, met).is_compatible_with("dimensionless") is False),
        ("ureg.is_compatible_with", lambda: ureg.is_compatible_with("radian", "dimensionless") is True),
    ]


def _probe(fn):
    try:
        return None if fn() else "the probe on the name 'dimensionless' gave the wrong answer"
    except Exception as e:  # noqa: BLE001
        return "the probe on the name 'dimensionless' raised %s(%s)" % (type(e).__name__, _exc_text(e))


# =============================================================================== S: spelled pairs
def spelled_worker(task):
    _, cfg, seed, n_pairs, n_prefixed, part, nparts = task
    env = get_env(cfg)
    col = Collector()
    rng = random.Random(seed + 23)
    pool, _, _ = spelling_pool(env, rng, n_prefixed)
    byclass = {}
    for s, canon in pool:
        byclass.setdefault(env.dims[canon], []).append((s, canon))
    evals = nontrivial = 0
    sample = None
    for idx in range(n_pairs):
        sa, ca = rng.choice(pool)
        if rng.random() < 0.5:
            sb, cb = rng.choice(byclass[env.dims[ca]])
        else:
            sb, cb = rng.choice(pool)
        if idx % nparts != part:
            continue
        A = env.obj({sa: 1}, dim=env.dims[ca])
        B = env.obj({sb: 1}, dim=env.dims[cb])
        evals += 1
        nontrivial += (A.dim == B.dim and sa != sb)
        if sample is None:
            sample = {"part": "S", "a": sa, "b": sb, "expected convertible": A.dim == B.dim}
        for route, what in relation_problems(env, A, B, ROUTES):
            add_pair_violation(env, col, "spelled-pair", A, B, route, what,
                               {"part": "pair", "cfg": cfg, "a": uc_json({sa: 1}), "b": uc_json({sb: 1}),
                                "route": route, "canon": [ca, cb]})
    return {"evals": evals, "nontrivial": nontrivial, "entries": col.entries, "samples": [sample] if sample else [],
            "skips": env.float_range_skips}


# =============================================================================== C: compound units
EXPS = (-3, -2, -2, -1, -1, -1, 1, 1, 1, 2, 2, 3, Fraction(1, 2), Fraction(-1, 2))
POWERS = (-3, -2, -1, 2, 3, Fraction(1, 2), Fraction(-1, 2), Fraction(3, 2))


def random_compound(env, rng):
    k = rng.choice((1, 2, 2, 3))
    out = {nm: Fraction(rng.choice(EXPS)) for nm in rng.sample(env.mult, k)}
    for nm in out:
        if nm in env.negative_units() and out[nm].denominator != 1:
            out[nm] = Fraction(rng.choice((-2, -1, 1, 2)))
    return out


def respell(env, ucd, rng):
    """an equivalent compound: each factor replaced by a unit of its class or by its written definition"""
    out = {}
    for nm, e in ucd.items():
        mode = rng.randrange(3)
        udef = env.ref.units[nm]
        if mode == 0 and not udef.is_base and udef.reference is not None and len(udef.reference) > 0:
            for k, v in dict(udef.reference).items():
                r = env.ref.resolve(k)
                kk = r[1].name if r is not None and k in env.ref.units else k
                out[kk] = out.get(kk, Fraction(0)) + e * Fraction(v)
        elif mode == 1:
            other = rng.choice(env.classes[env.dims[nm]])
            out[other] = out.get(other, Fraction(0)) + e
        else:
            out[nm] = out.get(nm, Fraction(0)) + e
    return {k: v for k, v in out.items() if v != 0}


def near_miss(env, ucd, rng):
    out = dict(ucd)
    if out and rng.random() < 0.6:
        k = rng.choice(sorted(out))
        out[k] = out[k] + rng.choice((1, -1, Fraction(1, 2)))
    else:
        k = rng.choice(env.mult)
        out[k] = out.get(k, Fraction(0)) + rng.choice((1, -1))
    return {k: v for k, v in out.items() if v != 0}


def _sanitize(env, ucd):
    """no half-integer power of a unit with a negative factor (not a real number); such units are dimensionless, so
    the reference dimensionality of the compound is unchanged"""
    neg = env.negative_units()
    out = {k: (Fraction(v.numerator + 1, 2) if k in neg and v.denominator != 1 else v) for k, v in ucd.items()}
    return {k: v for k, v in out.items() if v != 0}


def compound_cases(env, seed, n):
    rng = random.Random(seed + 37)
    cases = []
    for _ in range(n):
        A = random_compound(env, rng)
        A2 = _sanitize(env, respell(env, A, rng))
        A3 = _sanitize(env, near_miss(env, A2, rng))
        B = random_compound(env, rng)
        cases.append((A, A2, A3, B, rng.choice(POWERS)))
    return cases


def compound_worker(task):
    _, cfg, seed, n, part, nparts = task
    env = get_env(cfg)
    col = Collector()
    evals = nontrivial = 0
    samples = []
    cases = compound_cases(env, seed, n)
    for idx, (a, a2, a3, b, p) in enumerate(cases):
        if idx % nparts != part:
            continue
        A, A2, A3, B = (env.obj(x) for x in (a, a2, a3, b))
        # dimensionality of the compound itself
        evals += 1
        for o in (A, A2, A3, B):
            try:
                got = dimkey(env.ureg.get_dimensionality(o.uc))
            except Exception as e:  # noqa: BLE001
                got = "raised %s" % type(e).__name__
            if got != o.dim:
                file_violation(env, col, "compound-dimensionality:%s:%s" % (cfg, uc_id(o.ucd)),
                               "get_dimensionality(%s) = %s, reference %s" % (uc_id(o.ucd), got, dim_text(o.dim)),
                               {"part": "cdim", "cfg": cfg, "a": uc_json(o.ucd)}, o.ucd)
        # closure under product, quotient, power on the real operators
        for op, res, exp in (("mul", lambda: A.u * B.u, dim_add(A.dim, B.dim)),
                             ("div", lambda: A.u / B.u, dim_add(A.dim, B.dim, -1)),
                             ("pow", lambda: A.u ** env.num(p), dim_scale(A.dim, Fraction(p))),
                             ("qmul", lambda: A.q * B.q, dim_add(A.dim, B.dim)),
                             ("qdiv", lambda: A.q / B.q, dim_add(A.dim, B.dim, -1)),
                             ("qpow", lambda: A.q ** env.num(p), dim_scale(A.dim, Fraction(p)))):
            evals += 1
            nontrivial += 1
            try:
                got = dimkey(res().dimensionality)
            except (OverflowError, ZeroDivisionError):
                env.float_range_skips += 1  # auto_reduce_dimensions converts: a float factor left the double range
                continue
            except Exception as e:  # noqa: BLE001
                if isinstance(e, ValueError) and ("'inf'" in _exc_text(e) or "'nan'" in _exc_text(e)):
                    env.float_range_skips += 1  # Fraction('inf'): same thing, seen through Fraction(str(factor))
                    continue
                got = "raised %s: %s" % (type(e).__name__, _exc_text(e))
            if got != exp:
                file_violation(env, col, "closure:%s:%s:(%s,%s,%s)" % (op, cfg, uc_id(a), uc_id(b), p),
                               "Dim(%s of %s and %s / power %s) = %s, reference %s"
                               % (op, uc_id(a), uc_id(b), p, got if isinstance(got, str) else dim_text(got),
                                  dim_text(exp)),
                               {"part": "closure", "cfg": cfg, "a": uc_json(a), "b": uc_json(b),
                                "p": [Fraction(p).numerator, Fraction(p).denominator], "op": op}, a, b)
        # the relation between compounds
        for X, Y in ((A, A2), (A2, A), (A, A3), (A3, A2), (A, B), (B, A), (A, A)):
            evals += 1
            nontrivial += (X.dim == Y.dim and X.ucd != Y.ucd)
            for route, what in relation_problems(env, X, Y, ROUTES):
                add_pair_violation(env, col, "compound-pair", X, Y, route, what, _pair_example(cfg, X, Y, route))
        if len(samples) < 1 and a2 != a:
            samples.append({"part": "C", "A": uc_id(a), "equivalent respelling": uc_id(a2), "near miss": uc_id(a3),
                            "Dim(A)": dim_text(A.dim), "Dim(near miss)": dim_text(A3.dim)})
    return {"evals": evals, "nontrivial": nontrivial, "entries": col.entries, "samples": samples,
            "skips": env.float_range_skips}


# =============================================================================== G: generated registries
GEXPS = (-2, -1, 1, 2)
SCALES = ("2", "3/5", "7", "1/11")
C_VARIANTS = ((1, -2), (2, 1), (-1, -1), (-2, 2))
GCFG = ("fraction", "fraction", "fraction", "fraction", "float", "decimal", "autoreduce", "casei")


def ref_choices(k):
    """all references of a derived unit to at most two of the k earlier units, exponents in -2..2 without 0"""
    out = [()]
    for i in range(k):
        for e in GEXPS:
            out.append(((i, e),))
    for i, j in itertools.combinations(range(k), 2):
        for e1 in GEXPS:
            for e2 in GEXPS:
                out.append(((i, e1), (j, e2)))
    return out


def ref_shapes(k):
    out = [()]
    out += [(i,) for i in range(k)]
    out += list(itertools.combinations(range(k), 2))
    return out


def exhaustive_specs(with_c, cvars, n_derived):
    k0 = 3 if with_c else 2
    for cv in cvars:
        for refs in itertools.product(*[ref_choices(k0 + i) for i in range(n_derived)]):
            yield (with_c, cv, refs)


def count_exhaustive(with_c, ncv, n_derived):
    k0 = 3 if with_c else 2
    c = ncv
    for i in range(n_derived):
        c *= len(ref_choices(k0 + i))
    return c


def shape_specs(with_c, n_derived, reps, rng):
    k0 = 3 if with_c else 2
    for shape in itertools.product(*[ref_shapes(k0 + i) for i in range(n_derived)]):
        for _ in range(reps):
            cv = rng.choice(C_VARIANTS)
            refs = tuple(tuple((i, rng.choice(GEXPS)) for i in s) for s in shape)
            yield (with_c, cv, refs)


def spec_names(spec):
    with_c, _, refs = spec
    return ["a", "b"] + (["c"] if with_c else []) + ["d%d" % (i + 1) for i in range(len(refs))]


def _term(name, e):
    return name if abs(e) == 1 else "%s ** %d" % (name, abs(e))


def spec_lines(spec, reverse=False):
    with_c, (p, q), refs = spec
    names = spec_names(spec)

    def expr(scale, pairs):
        num = [_term(n, e) for n, e in pairs if e > 0]
        den = [_term(n, e) for n, e in pairs if e < 0]
        s = " * ".join(([scale] if scale else []) + num) or "1"
        for d in den:
            s += " / " + d
        return s

    lines = ["a = [A]", "b = [B]", "[C] = " + expr("", [("[A]", p), ("[B]", q)])]
    if with_c:
        lines.append("c = [C]")
    k0 = len(names) - len(refs)
    for i, r in enumerate(refs):
        lines.append("%s = %s" % (names[k0 + i], expr(SCALES[i], [(names[j], e) for j, e in r])))
    return lines[::-1] if reverse else lines


def spec_dims(spec):
    """own dimensionalities from the generator's data (not from the parsed table)"""
    with_c, (p, q), refs = spec
    names = spec_names(spec)
    dims = {"a": (("[A]", Fraction(1)),), "b": (("[B]", Fraction(1)),)}
    cdim = dimkey({"[A]": p, "[B]": q})
    if with_c:
        dims["c"] = cdim
    k0 = len(names) - len(refs)
    for i, r in enumerate(refs):
        d = ()
        for j, e in r:
            d = dim_add(d, dim_scale(dims[names[j]], Fraction(e)))
        dims[names[k0 + i]] = d
    return dims, cdim


def spec_id(spec):
    with_c, (p, q), refs = spec
    names = spec_names(spec)
    return "G[C=A^%dB^%d%s|%s]" % (p, q, ",c" if with_c else "",
                                  "|".join("*".join("%s^%d" % (names[j], e) for j, e in r) or "1" for r in refs))


def spec_json(spec, variant):
    return {"part": "gen", "with_c": spec[0], "cvar": list(spec[1]), "refs": [[list(x) for x in r] for r in spec[2]],
            "variant": variant}


def spec_from_json(d):
    return (d["with_c"], tuple(d["cvar"]), tuple(tuple(tuple(x) for x in r) for r in d["refs"])), d["variant"]


def check_generated(spec, variant, col):
    """variant: index selecting configuration and line order -> (evaluations, nontrivial)"""
    import pint

    cfg = GCFG[variant % len(GCFG)]
    reverse = (variant // len(GCFG)) % 2 == 1
    gid = spec_id(spec)
    example = spec_json(spec, variant)
    lines = spec_lines(spec, reverse)
    try:
        ureg = pint.UnitRegistry(lines, **CONFIGS[cfg])
        ureg.get_dimensionality("a")
    except Exception as e:  # noqa: BLE001
        col.add("generated-build:%s" % gid, "UnitRegistry(%r) [%s] raised %s: %s" % (lines, cfg, type(e).__name__,
                                                                                      _exc_text(e)), example)
        return 1, 0
    env = Env.__new__(Env)
    env.cfg, env.nit, env.ureg, env.DimErr = cfg, CONFIGS[cfg].get("non_int_type", float), ureg, pint.DimensionalityError
    env.float_range_skips = 0
    dims, cdim = spec_dims(spec)
    names = spec_names(spec)
    objs = {n: _gen_obj(env, {n: 1}, dims[n]) for n in names}
    evals = nontrivial = 0
    tag = "%s:%s%s" % (gid, cfg, ":rev" if reverse else "")
    for n in names:
        evals += 3
        o = objs[n]
        try:
            got = dimkey(ureg.get_dimensionality(n))
        except Exception as e:  # noqa: BLE001
            got = "raised %s" % type(e).__name__
        if got != o.dim:
            col.add("generated-dimensionality:%s:%s" % (tag, n), "get_dimensionality(%r) = %s, generator says %s; lines %r"
                    % (n, got, dim_text(o.dim), lines), example)
        cls = {m for m in names if dims[m] == o.dim}
        try:
            got = {next(iter(x._units)) for x in ureg.get_compatible_units(n)}
        except Exception as e:  # noqa: BLE001
            got = "raised %s" % type(e).__name__
        if got != cls:
            col.add("generated-compatible-units:%s:%s" % (tag, n), "get_compatible_units(%r) = %s, expected %s; lines %r"
                    % (n, got if isinstance(got, str) else sorted(got), sorted(cls), lines), example)
        try:
            got = o.q.check("[C]")
        except Exception as e:  # noqa: BLE001
            got = "raised %s" % type(e).__name__
        nontrivial += o.dim == cdim
        if got is not (o.dim == cdim):
            col.add("generated-check-dimension:%s:%s" % (tag, n), "Quantity(1, %r).check('[C]') = %r, Dim(unit) = %s, "
                    "[C] = %s; lines %r" % (n, got, dim_text(o.dim), dim_text(cdim), lines), example)
    for x in names:
        for y in names:
            evals += 1
            nontrivial += (x != y and dims[x] == dims[y])
            for route, what in relation_problems(env, objs[x], objs[y], ROUTES if variant % 4 == 0 else LITE):
                col.add("generated-pair:%s:%s:(%s,%s)" % (route, tag, x, y), what + "; lines %r" % (lines,), example)
    # products / squares against single units:  x*y ~ z  <=>  Dim x + Dim y = Dim z
    for x, y in itertools.combinations_with_replacement(names, 2):
        d = dim_add(dims[x], dims[y])
        try:
            pu = objs[x].u * objs[y].u
            pq = objs[x].q / objs[y].q
        except Exception as e:  # noqa: BLE001
            col.add("generated-product:%s:(%s,%s)" % (tag, x, y), "product raised %s" % type(e).__name__, example)
            continue
        dq = dim_add(dims[x], dims[y], -1)
        for z in names:
            evals += 2
            nontrivial += (d == dims[z]) + (dq == dims[z])
            try:
                g1 = pu.is_compatible_with(objs[z].u)
                g2 = True
                try:
                    pq.to(objs[z].u)
                except pint.DimensionalityError:
                    g2 = False
            except Exception as e:  # noqa: BLE001
                g1 = g2 = "raised %s" % type(e).__name__
            if g1 is not (d == dims[z]) or g2 is not (dq == dims[z]):
                col.add("generated-product:%s:(%s,%s,%s)" % (tag, x, y, z),
                        "(%s*%s).is_compatible_with(%s) = %r (reference %r); (%s/%s).to(%s) succeeds = %r (reference %r); "
                        "lines %r" % (x, y, z, g1, d == dims[z], x, y, z, g2, dq == dims[z], lines), example)
    return evals, nontrivial


def _gen_obj(env, ucd, dim):
    o = Obj()
    o.ucd = dict(ucd)
    o.uc = env.ureg.UnitsContainer(dict(ucd))
    o.q = env.ureg.Quantity(1, o.uc)
    o.u = env.ureg.Unit(o.uc)
    o.dim = dim
    o.dimc = env.ureg.UnitsContainer({k: Env.num(env, v) for k, v in dim})
    o.deco = None
    o.text = next(iter(ucd))
    return o


def generated_worker(task):
    _, specs, first_index = task
    col = Collector()
    evals = nontrivial = 0
    for i, spec in enumerate(specs):
        e, nt = check_generated(spec, first_index + i, col)
        evals += e
        nontrivial += nt
    return {"evals": evals, "nontrivial": nontrivial, "entries": col.entries, "registries": len(specs)}


def generated_plan(tier, seed):
    """-> (list of specs, description)"""
    rng = random.Random(seed + 53)
    specs = []
    desc = []

    def add(label, it):
        n0 = len(specs)
        specs.extend(it)
        desc.append("%s: %d" % (label, len(specs) - n0))

    allc = C_VARIANTS
    nc = allc[:2] if tier == "quick" else allc
    add("exhaustive, no c, <=2 derived units, %d variants of [C]" % len(nc),
        itertools.chain(exhaustive_specs(False, nc, 0), exhaustive_specs(False, nc, 1), exhaustive_specs(False, nc, 2)))
    add("exhaustive, with c=[C], <=1 derived unit, 4 variants of [C]",
        itertools.chain(exhaustive_specs(True, allc, 0), exhaustive_specs(True, allc, 1)))
    if tier == "quick":
        off = rng.randrange(3)
        add("with c=[C], 2 derived units, [C]=[A]/[B]^2, every 3rd (seeded offset) of the 6893",
            itertools.islice(exhaustive_specs(True, allc[:1], 2), off, None, 3))
        add("every reference shape, no c, 3 and 4 derived units, 1 seeded exponent assignment each",
            itertools.chain(shape_specs(False, 3, 1, rng), shape_specs(False, 4, 1, rng)))
        add("every reference shape, with c, 3 derived units, 1 seeded exponent assignment each", shape_specs(True, 3, 1, rng))
    else:
        add("exhaustive, with c=[C], 2 derived units, 4 variants of [C]", exhaustive_specs(True, allc, 2))
        add("exhaustive, no c, 3 derived units, [C]=[A]/[B]^2", exhaustive_specs(False, allc[:1], 3))
        add("every reference shape, no c, 4 derived units, 6 seeded exponent assignments each", shape_specs(False, 4, 6, rng))
        add("every reference shape, with c, 3 derived units, 12 seeded exponent assignments each", shape_specs(True, 3, 12, rng))
    return specs, desc


# =============================================================================== driver
def _any_worker(task):
    t = time.process_time()
    kind = task[0]
    res = {"P": pairs_worker, "D": dimensions_worker, "L": listing_worker, "S": spelled_worker, "C": compound_worker,
           "G": generated_worker}[kind](task)
    res["cpu"] = time.process_time() - t
    res["kind"] = kind
    return res


def run(tier: str = "quick", seed: int = 0, **kw) -> dict:
    t0 = time.time()
    cpu0 = _cpu_total()
    workers = int(kw.get("workers", NWORKERS))
    quick = tier == "quick"
    n_mult = len(get_env("fraction").mult)
    rng = random.Random(seed)
    tasks = []
    # G first (many equal chunks), then P rows
    specs, gdesc = generated_plan(tier, seed)
    chunk = 150
    for a in range(0, len(specs), chunk):
        tasks.append(("G", specs[a:a + chunk], a))
    rows = list(range(n_mult))
    rowchunk = 9
    for a in range(0, n_mult, rowchunk):
        tasks.append(("P", "fraction", rows[a:a + rowchunk], 1, 0, ROUTES))
    cfg_stride = 16 if quick else 1
    offsets = {}
    for cfg in ("float", "decimal", "autoreduce", "casei"):
        offsets[cfg] = rng.randrange(cfg_stride)
        for a in range(0, n_mult, rowchunk * (4 if quick else 1)):
            tasks.append(("P", cfg, rows[a:a + rowchunk * (4 if quick else 1)], cfg_stride, offsets[cfg],
                          LITE if quick else ROUTES))
    for cfg in CONFIGS:
        tasks.append(("D", cfg))
        tasks.append(("L", cfg, seed, 1500 if quick else 12000))
    n_spelled = 4000 if quick else 40000
    n_comp = 2500 if quick else 20000
    nparts = 16
    for part in range(nparts):
        tasks.append(("S", "fraction", seed, n_spelled, 1500 if quick else 12000, part, nparts))
        tasks.append(("C", "fraction", seed, n_comp, part, nparts))
    for cfg in ("float", "decimal", "autoreduce", "casei"):
        for part in range(4):
            tasks.append(("C", cfg, seed, n_comp // 5, part, 4))
            tasks.append(("S", cfg, seed, n_spelled // 5, 1500 if quick else 12000, part, 4))
    # long tasks first
    order = {"L": 0, "G": 1, "P": 2, "C": 3, "S": 4, "D": 5}
    tasks.sort(key=lambda tk: order[tk[0]])
    ctx = mp.get_context("fork")
    if workers > 1:
        with ctx.Pool(workers) as pool:
            results = pool.map(_any_worker, tasks, chunksize=1)
    else:
        results = [_any_worker(tk) for tk in tasks]

    col = Collector()
    evals = nontrivial = skips = registries = 0
    by_part = {}
    cpu_by_part = {}
    samples = []
    info = {}
    for res in results:
        evals += res["evals"]
        nontrivial += res["nontrivial"]
        skips += res.get("skips", 0)
        registries += res.get("registries", 0)
        col.merge(res["entries"])
        by_part[res["kind"]] = by_part.get(res["kind"], 0) + res["evals"]
        cpu_by_part[res["kind"]] = round(cpu_by_part.get(res["kind"], 0.0) + res["cpu"], 1)
        for s in res.get("samples", []):
            if len([x for x in samples if x.get("part") == s.get("part")]) < 1:
                samples.append(s)
        for k in ("n_keys", "n_spellings", "ambiguous_spellings", "n_canonical", "n_dimensions", "default_system"):
            if k in res:
                info.setdefault(k, res[k])
        if res.get("casei_tainted"):
            info["casei_tainted"] = res["casei_tainted"]
    env = get_env("fraction")
    same = sum(len(v) * (len(v) - 1) for v in env.classes.values())
    samples.insert(0, {"part": "P", "a": "newton", "b": "dyne", "expected": "every route succeeds / True",
                       "Dim": dim_text(env.dims["newton"])})
    samples.insert(1, {"part": "P", "a": "newton", "b": "joule", "expected": "every route raises DimensionalityError / False",
                       "Dim(b)": dim_text(env.dims["joule"])})
    if specs:
        s = specs[min(len(specs) - 1, 2000)]
        samples.append({"part": "G", "id": spec_id(s), "lines": spec_lines(s),
                        "generator dimensionalities": {k: dim_text(v) for k, v in spec_dims(s)[0].items()}})

    entries = sorted(col.entries.values(), key=lambda e: (e["case"].split(":")[0], len(e["case"]), e["case"]))
    buckets = {}
    for e in entries:
        buckets.setdefault(e["case"].split(":")[0], []).append(e)
    chosen, i = [], 0
    while len(chosen) < 25 and any(i < len(b) for b in buckets.values()):
        for k in sorted(buckets):
            if i < len(buckets[k]) and len(chosen) < 25:
                chosen.append(buckets[k][i])
        i += 1
    chosen.sort(key=lambda e: e["case"])
    bound = (
        "P: all %d x %d ordered pairs of multiplicative canonical units of the default registry (Fraction) through %d "
        "routes, and %s of them in each of the float / Decimal / auto_reduce_dimensions / case_sensitive=False "
        "registries; D: %d units x %s declared dimension names x 5 configurations; L: get_dimensionality for all %s "
        "keys of the unit table + %s prefixed/plural spellings (container and string route), get_compatible_units for "
        "all %s canonical units with default_system=None (exact) and with the default system (subset), 5 "
        "configurations; S: %d seeded spelled pairs (+%d per other configuration); C: %d seeded compound cases (+%d per "
        "other configuration), each 6 closure checks and 7 pairs; G: %d generated registries (%s)"
        % (n_mult, n_mult, len(ROUTES), "every 16th (seeded offset)" if quick else "all", n_mult,
           info.get("n_dimensions"), info.get("n_keys"), (info.get("n_spellings") or 0) - (info.get("n_keys") or 0),
           info.get("n_canonical"), n_spelled, n_spelled // 5, n_comp, n_comp // 5, registries, "; ".join(gdesc)))
    return {
        "name": NAME,
        "tier": tier,
        "seed": seed,
        "bound": bound,
        "evaluations": evals,
        "distinct_nontrivial": nontrivial,
        "rule": "cross products as stated in `bound`; an evaluation is one (a, b) case run through all its routes. "
                "Non-trivial: ordered pairs of *different* units / spellings / compounds with equal reference "
                "dimensionality (the success side of the biconditional), dimension-name checks that must hold, every "
                "closure check, listings of classes with more than one member, spellings different from the canonical "
                "name",
        "exhaustive": True if not quick else False,
        "exhaustive_parts": "P (Fraction registry), D, the canonical part of L and the stated exhaustive families of G "
                            "are complete in both tiers; S, C, the shape families of G and (quick) the other "
                            "configurations of P are samples",
        "violations": chosen if not kw.get("all_violations") else entries,
        "violation_count": len(entries),
        "violating_evaluations": sum(e["instances"] for e in entries),
        "violation_classes": {k: len(b) for k, b in sorted(buckets.items())},
        "same_dimension_ordered_pairs": same,
        "dimension_classes": len(env.classes),
        "evaluations_by_part": by_part,
        "cpu_seconds_by_part": cpu_by_part,
        "float_range_skips": skips,
        "ambiguous_spellings_skipped": info.get("ambiguous_spellings"),
        "default_system": info.get("default_system"),
        "casei_units_left_out": info.get("casei_tainted", 0),
        "samples": samples[:6],
        "seconds": round(time.time() - t0, 1),
        "cpu_seconds": round(_cpu_total() - cpu0, 1),
    }


# =============================================================================== replay
def replay(data: dict) -> bool:
    ok = True
    for ex in data.get("examples", []):
        part = ex.get("part")
        if part == "pair":
            env = Env(ex["cfg"])
            a, b = uc_from_json(ex["a"]), uc_from_json(ex["b"])
            if "canon" in ex:
                A = env.obj(a, dim=env.dims[ex["canon"][0]])
                B = env.obj(b, dim=env.dims[ex["canon"][1]])
            else:
                A, B = env.obj(a), env.obj(b)
            ok = not relation_problems(env, A, B, (ex["route"],)) and ok
        elif part == "checkdim":
            ok = not checkdim_problem(Env(ex["cfg"]), ex["unit"], ex["dimension"]) and ok
        elif part == "dim":
            env = Env(ex["cfg"])
            s = ex["spelling"]
            try:
                if ex["via"] == "object":
                    got = dimkey(env.ureg.Unit(env.container({s: 1})).dimensionality)
                else:
                    got = dimkey(env.ureg.get_dimensionality(env.container({s: 1}) if ex["via"] == "container" else s))
            except Exception:  # noqa: BLE001
                got = None
            ok = (got == env.dims[ex["canon"]]) and ok
        elif part == "ambiguous-key":
            ok = ambiguous_key_problem(Env(ex["cfg"]), ex["key"]) is None and ok
        elif part == "listing":
            env = Env(ex["cfg"])
            if not ex["subset"] and getattr(env.ureg, "default_system", None) is not None:
                env.ureg.default_system = None
            cls = {n for n in env.listed_names() if env.dims[n] == env.dims[ex["unit"]]}
            ok = listing_problem(env, ex["unit"], cls, ex["subset"])[0] is None and ok
        elif part == "listing-empty":
            env = Env(ex["cfg"])
            env.ureg.default_system = None
            cls = {n for n in env.listed_names() if env.dims[n] == ()}
            arg = env.ureg.UnitsContainer({}) if ex["label"] == "empty-container" else "dimensionless"
            ok = empty_unit_problem(env, arg, cls) is None and ok
        elif part == "empty-name":
            env = Env(ex["cfg"])
            ok = _probe(dict(empty_name_probes(env))[ex["label"]]) is None and ok
        elif part == "cdim":
            env = Env(ex["cfg"])
            o = env.obj(uc_from_json(ex["a"]))
            try:
                ok = (dimkey(env.ureg.get_dimensionality(o.uc)) == o.dim) and ok
            except Exception:  # noqa: BLE001
                ok = False
        elif part == "closure":
            env = Env(ex["cfg"])
            A, B = env.obj(uc_from_json(ex["a"])), env.obj(uc_from_json(ex["b"]))
            p = Fraction(*ex["p"])
            op = ex["op"]
            x, y = (A.q, B.q) if op.startswith("q") else (A.u, B.u)
            try:
                if op.endswith("mul"):
                    got, exp = dimkey((x * y).dimensionality), dim_add(A.dim, B.dim)
                elif op.endswith("div"):
                    got, exp = dimkey((x / y).dimensionality), dim_add(A.dim, B.dim, -1)
                else:
                    got, exp = dimkey((x ** env.num(p)).dimensionality), dim_scale(A.dim, p)
            except Exception:  # noqa: BLE001
                got, exp = None, ()
            ok = (got == exp) and ok
        elif part == "gen":
            spec, variant = spec_from_json(ex)
            col = Collector()
            check_generated(spec, variant, col)
            ok = not col.entries and ok
        else:
            raise ValueError("unknown example %r" % (ex,))
    return ok


if __name__ == "__main__":
    import argparse

    ap = argparse.ArgumentParser()
    ap.add_argument("--tier", default="quick")
    ap.add_argument("--seed", type=int, default=0)
    ap.add_argument("--workers", type=int, default=NWORKERS)
    a = ap.parse_args()
    print(json.dumps(run(a.tier, a.seed, workers=a.workers), indent=1, default=str))
