"""Bounded stand-in for C06 "Offset and logarithmic units convert by their defining maps and refuse ambiguity".

Oracle (written here, independent of the code under test)
  * temperature scales as affine maps to kelvin, K = x*scale + offset:  kelvin (1, 0), degR (5/9, 0), degC (1, 273.15),
    degF (5/9, 459.67*5/9), two user-defined offset units degXa (7/3, 12.5) and degXb (3/4, -40) defined through
    `ureg.define` (thorough tier: more, seeded), and the automatically created delta_ units (scale only).  Reaumur is
    checked against the historical scale (80 degRe = 100 degC: K = x*5/4 + 273.15) under its own id class.
  * logarithmic units from their definition  x = logfactor * log_logbase(lin / reference):  dBm/dBW/dBu (10, base 10,
    reference 1 mW / 1 W / 1 uW), dB (10, base 10), Np (1/2, base e), octave (1, base 2), decade (1, base 10).
  * the offset calculus as a function `expected(autoconvert, op, X, Y)` transcribed from docs/user/nonmult.rst and the
    operand-order tables of test_quantity.py::TestOffsetUnitMath, generalised from (100, 10) in degC/degF to any
    magnitudes and any offset unit:
        offset - offset|absolute -> delta of the left unit;  absolute - offset -> the absolute unit (offset converted);
        offset +- delta -> offset;  delta +- offset -> the offset unit (scale-only conversion of the delta);
        delta|absolute mixes are ordinary multiplicative arithmetic (a lone delta on the left takes the other's unit);
        offset + offset|absolute, absolute + offset -> OffsetUnitCalculusError;  a bare number only if zero;
        *, /, ** with an offset operand: OffsetUnitCalculusError in the default mode; with
        autoconvert_offset_to_baseunit the offset operand is first converted to kelvin, except `offset * number`
        (stays in the given unit) and `offset / number` (error in both modes); `** 1` returns the operand, `** 0` is 1;
        unary -, +, abs act on the magnitude;   //, %, divmod with an offset operand are not documented -> must raise.
  * `default_as_delta`: in a unit string with more than one unit or an exponent other than 1, an offset unit is read
    as its delta_ unit unless as_delta is false (argument, or registry default).

Parts: (1) conversions among all temperature units (to, ito, m_as, ureg.convert; round trips; delta by scale only;
offset<->delta, compound and higher-order offset units refused with DimensionalityError) in exact arithmetic, both
registry modes, and in float arithmetic; log-unit conversions and round trips (float, rel. 1e-12);
(2) the calculus table: every ordered pair of operand kinds x {+, -, *, /, +=, -=, *=, /=} x magnitudes x both modes,
scalars exactly in the Fraction registry and 2-element float arrays through the real in-place code
(_iadd_sub/_imul_div/__ipow__); powers, unary forms, // % divmod; operands must not change;
(3) parse_units / Unit / Quantity(value, str) / Quantity(str) for every offset spelling x unit pattern x
as_delta in {default, True, False} x default_as_delta in {True, False}, in a cache-order-sensitive sequence;
(4) log-unit arithmetic sanity: a result may raise, but must never name a unit the registry does not define.
"""
from __future__ import annotations

import copy
import json
import math
import multiprocessing as mp
import operator
import random
import time
import warnings
from fractions import Fraction

NAME = "c06_offset"
NWORKERS = 16
Fr = Fraction
RTOL = 1e-12
ARTOL = 1e-9


def _cpu_total():
    import resource

    a = resource.getrusage(resource.RUSAGE_SELF)
    b = resource.getrusage(resource.RUSAGE_CHILDREN)
    return a.ru_utime + a.ru_stime + b.ru_utime + b.ru_stime


# =============================================================================== the temperature scales (oracle data)
BASE_TEMP = {
    # name: (kind, scale, offset)   K = x*scale + offset;  kinds: A absolute, O offset, D delta
    "kelvin": ("A", Fr(1), Fr(0)),
    "degree_Rankine": ("A", Fr(5, 9), Fr(0)),
    "degree_Celsius": ("O", Fr(1), Fr(27315, 100)),
    "degree_Fahrenheit": ("O", Fr(5, 9), Fr(45967, 100) * Fr(5, 9)),
    "delta_degree_Celsius": ("D", Fr(1), Fr(0)),
    "delta_degree_Fahrenheit": ("D", Fr(5, 9), Fr(0)),
}
GENERATED_QUICK = (("degXa", Fr(7, 3), Fr(25, 2)), ("degXb", Fr(3, 4), Fr(-40)))
SHORT = {"degree_Celsius": "degC", "degree_Fahrenheit": "degF", "degree_Rankine": "degR",
         "delta_degree_Celsius": "delta_degC", "delta_degree_Fahrenheit": "delta_degF",
         "degree_Reaumur": "degRe", "delta_degree_Reaumur": "delta_degRe"}
_GEN = list(GENERATED_QUICK)


def temp_table():
    t = dict(BASE_TEMP)
    for name, s, o in _GEN:
        t[name] = ("O", s, o)
        t["delta_" + name] = ("D", s, Fr(0))
    return t


def to_K(name, x):
    k, s, o = temp_table()[name]
    return x * s + o


def from_K(name, kv):
    k, s, o = temp_table()[name]
    return (kv - o) / s


def sn(name):
    return SHORT.get(name, name)


# =============================================================================== registries
_R = {}


def dec_text(x):
    """exact decimal text of a Fraction with a power-of-ten denominator (definition files take decimals)"""
    x = Fraction(x)
    for k in range(0, 12):
        if (x * 10 ** k).denominator == 1:
            n = int(x * 10 ** k)
            s = "%0*d" % (k + 1, abs(n))
            txt = (s[:-k] + "." + s[-k:]) if k else s
            return ("-" if n < 0 else "") + txt
    raise ValueError(x)


def get_reg(num, auto, asdelta=True):
    key = (num, bool(auto), bool(asdelta))
    if key not in _R:
        import pint

        kw = {"autoconvert_offset_to_baseunit": bool(auto), "default_as_delta": bool(asdelta)}
        if num == "frac":
            kw["non_int_type"] = Fraction
        ureg = pint.UnitRegistry(**kw)
        for name, s, o in _GEN:
            ureg.define("%s = %d/%d * kelvin; offset: %s = %s" % (name, s.numerator, s.denominator, dec_text(o),
                                                                  "d" + name[3:]))
        _R[key] = ureg
    return _R[key]


ALL_REGS = [("frac", False, True), ("frac", True, True), ("frac", False, False), ("frac", True, False),
            ("float", False, True), ("float", True, True)]


def modename(auto):
    return "autoconvert" if auto else "default"


def Qmake(ureg, m, units):
    return ureg.Quantity(m, ureg.UnitsContainer(dict(units)))


# =============================================================================== small helpers
class Collector:
    def __init__(self):
        self.entries = {}

    def add(self, case, what, example):
        e = self.entries.get(case)
        if e is None:
            e = self.entries[case] = {"case": case, "what": what, "instances": 0, "examples": []}
        e["instances"] += 1
        if len(e["examples"]) < 2:
            e["examples"].append(example)

    def merge(self, entries):
        for case, o in entries.items():
            e = self.entries.get(case)
            if e is None:
                self.entries[case] = {"case": case, "what": o["what"], "instances": o["instances"],
                                      "examples": list(o["examples"][:2])}
            else:
                e["instances"] += o["instances"]
                for ex in o["examples"]:
                    if len(e["examples"]) < 2:
                        e["examples"].append(ex)


def show(x):
    if isinstance(x, Fraction):
        return "%d/%d" % (x.numerator, x.denominator) if x.denominator != 1 else str(x.numerator)
    return repr(x)


def enc(x):
    if isinstance(x, Fraction):
        return ["F", x.numerator, x.denominator]
    if isinstance(x, int) and not isinstance(x, bool):
        return ["i", x]
    return ["f", repr(x)]


def dec(e):
    if e[0] == "F":
        return Fraction(e[1], e[2])
    if e[0] == "i":
        return int(e[1])
    return float(e[1])


def is_exact(x):
    return isinstance(x, (int, Fraction)) and not isinstance(x, bool)


def close(x, y, rtol, atol=0.0):
    if is_exact(x) and is_exact(y):
        return x == y
    try:
        cx, cy = complex(x), complex(y)
    except Exception:  # noqa: BLE001
        return False
    if cx != cx or cy != cy:
        return cx != cx and cy != cy
    if cx == cy:
        return True
    return abs(cx - cy) <= rtol * max(abs(cx), abs(cy)) + atol


def udict(units):
    return {k: Fraction(v) for k, v in dict(units).items() if v != 0}


def utext(units):
    return "*".join(sn(k) if v == 1 else "%s^%s" % (sn(k), show(Fraction(v))) for k, v in sorted(dict(units).items())) or "1"


def observe(fn, *args):
    """-> ('ok', units dict, magnitude) | ('err', exception class name) | ('val', python value)"""
    try:
        with warnings.catch_warnings():
            warnings.simplefilter("ignore")
            r = fn(*args)
    except Exception as e:  # noqa: BLE001 - the class of the exception is the observation
        return ("err", type(e).__name__)
    if hasattr(r, "_units") and hasattr(r, "_magnitude"):
        return ("ok", udict(r._units), r._magnitude)
    return ("val", r)


def otext(o):
    if o[0] == "err":
        return "raises " + (o[1] if isinstance(o[1], str) else "/".join(sorted(o[1])))
    if o[0] == "val":
        return repr(o[1])
    m = o[2]
    return "%s [%s]" % (show(m) if is_exact(m) else (m.tolist() if hasattr(m, "tolist") else repr(m)), utext(o[1]))


OFFSET_ERR = frozenset(["OffsetUnitCalculusError"])
DIM_ERR = frozenset(["DimensionalityError"])
EITHER_ERR = frozenset(["OffsetUnitCalculusError", "DimensionalityError"])
ANY_PINT_ERR = frozenset(["OffsetUnitCalculusError", "DimensionalityError", "LogarithmicUnitCalculusError",
                          "UndefinedUnitError"])


def agrees(got, want, rtol, atols=None):
    """got from observe(); want = ('ok', units, magnitude or tuple of magnitudes) | ('err', frozenset)"""
    if want[0] == "err":
        return got[0] == "err" and got[1] in want[1]
    if got[0] != "ok" or got[1] != udict(want[1]):
        return False
    gm, wm = got[2], want[2]
    if isinstance(wm, tuple):
        if not hasattr(gm, "tolist"):
            return False
        gl = gm.tolist()
        if len(gl) != len(wm):
            return False
        atols = atols or (0.0,) * len(wm)
        return all(close(g, w, rtol, t) for g, w, t in zip(gl, wm, atols))
    if hasattr(gm, "tolist") and not is_exact(gm):
        gm = gm.tolist() if getattr(gm, "ndim", 0) else gm.item()
    return close(gm, wm, rtol, (atols or (0.0,))[0])


# =============================================================================== part 1: conversions
def conv_values(tier, seed):
    vals = [Fr(0), Fr(100), Fr(-40), Fr(37), Fr(27315, 100), Fr(1, 3), Fr(-45967, 100), Fr(1000)]
    if tier != "quick":
        rng = random.Random(seed * 31 + 1)
        vals += [Fraction(rng.randint(-5000, 5000), rng.choice((1, 2, 3, 7, 10, 100))) for _ in range(12)]
    return vals


def check_conversion(regkey, src, dst, x, want, col, stats, tag):
    """want: exact Fraction, or 'refuse'"""
    num, auto, _ = regkey
    ureg = get_reg(*regkey)
    su, du = ureg.UnitsContainer({src: 1}), ureg.UnitsContainer({dst: 1})
    xx = x if num == "frac" else float(x)
    ex = {"part": "conv", "reg": list(regkey), "src": src, "dst": dst, "x": enc(x), "tag": tag}
    ident = "%s:%s:%s" % (tag, sn(src), sn(dst))

    def via_to():
        return Qmake(ureg, xx, {src: 1}).to(du)

    def via_ito():
        q = Qmake(ureg, xx, {src: 1})
        q.ito(du)
        return q

    def via_m_as():
        return ureg.Quantity(Qmake(ureg, xx, {src: 1}).m_as(du), du)

    def via_convert():
        return ureg.Quantity(ureg.convert(xx, su, du), du)

    forms = (("to", via_to), ("ito", via_ito), ("m_as", via_m_as), ("convert", via_convert))
    for fname, f in forms:
        got = observe(f)
        stats["evals"] += 1
        if want == "refuse":
            if not (got[0] == "err" and got[1] == "DimensionalityError"):
                col.add(ident, "%s of %s %s to %s (%s mode) -> %s, DimensionalityError expected"
                        % (fname, show(x), sn(src), sn(dst), modename(auto), otext(got)), ex)
            continue
        w = ("ok", {dst: 1}, want if num == "frac" else float(want))
        if not agrees(got, w, RTOL, (1e-9,)):
            col.add(ident, "%s of %s %s to %s (%s registry, %s mode) -> %s, expected %s"
                    % (fname, show(x), sn(src), sn(dst), num, modename(auto), otext(got), show(want)), ex)
    if want != "refuse":
        back = observe(lambda: Qmake(ureg, xx, {src: 1}).to(du).to(su))
        stats["evals"] += 1
        if not agrees(back, ("ok", {src: 1}, xx), RTOL, (1e-9,)):
            col.add("conv-roundtrip:%s:%s" % (sn(src), sn(dst)), "%s %s -> %s -> %s gives %s (%s registry)"
                    % (show(x), sn(src), sn(dst), sn(src), otext(back), num), ex)


def part_conversions(regkey, values, col, stats):
    t = temp_table()
    absolute = [n for n in t if t[n][0] in "AO"]
    mult = [n for n in t if t[n][0] in "AD"]
    for src in absolute:
        for dst in absolute:
            for x in values:
                stats["cases"] += 1
                check_conversion(regkey, src, dst, x, from_K(dst, to_K(src, x)), col, stats, "conv")
    for src in mult:
        for dst in mult:
            if t[src][0] == "A" and t[dst][0] == "A":
                continue  # done above
            for x in values:
                stats["cases"] += 1
                check_conversion(regkey, src, dst, x, x * t[src][1] / t[dst][1], col, stats, "conv-delta")
    offsets = [n for n in t if t[n][0] == "O"]
    deltas = [n for n in t if t[n][0] == "D"]
    for o in offsets:
        for d in deltas:
            for x in values[:3]:
                stats["cases"] += 2
                check_conversion(regkey, o, d, x, "refuse", col, stats, "conv-refuse")
                check_conversion(regkey, d, o, x, "refuse", col, stats, "conv-refuse")


def part_reaumur(regkey, values, col, stats):
    """Reaumur against the historical scale (0 degRe = 0 degC, 80 degRe = 100 degC)"""
    num, auto, _ = regkey
    ureg = get_reg(*regkey)
    if "degree_Reaumur" not in ureg._units:
        return
    for dst in ("degree_Celsius", "kelvin", "degree_Fahrenheit"):
        for x in values[:4] + [Fr(80)]:
            kv = x * Fr(5, 4) + Fr(27315, 100)
            want = from_K(dst, kv)
            for direction in ("from", "to"):
                stats["evals"] += 1
                stats["cases"] += 1
                if direction == "from":
                    got = observe(lambda: Qmake(ureg, x, {"degree_Reaumur": 1}).to(ureg.UnitsContainer({dst: 1})))
                    w = ("ok", {dst: 1}, want)
                    text = "%s degRe to %s" % (show(x), sn(dst))
                else:
                    got = observe(lambda: Qmake(ureg, want, {dst: 1}).to(ureg.UnitsContainer({"degree_Reaumur": 1})))
                    w = ("ok", {"degree_Reaumur": 1}, x)
                    text = "%s %s to degRe" % (show(want), sn(dst))
                if not agrees(got, w, RTOL):
                    col.add("conv-reaumur:%s:%s" % (direction, sn(dst)),
                            "%s -> %s, the Reaumur scale (80 degRe = 100 degC, K = x*5/4 + 273.15) gives %s"
                            % (text, otext(got), show(w[2])),
                            {"part": "reaumur", "reg": list(regkey), "dst": dst, "x": enc(x), "direction": direction})
    # delta_degRe: scale only
    got = observe(lambda: Qmake(ureg, Fr(80), {"delta_degree_Reaumur": 1}).to(ureg.UnitsContainer({"kelvin": 1})))
    stats["evals"] += 1
    if not agrees(got, ("ok", {"kelvin": 1}, Fr(100)), RTOL):
        col.add("conv-reaumur:delta:kelvin", "80 delta_degRe to kelvin -> %s, expected 100" % otext(got),
                {"part": "reaumur", "reg": list(regkey), "dst": "kelvin", "x": enc(Fr(80)), "direction": "delta"})


COMPOUND_REFUSALS = (
    # (source units, destination units): offset units in compounds / higher order never convert by `to`
    ((("degree_Celsius", 2),), (("kelvin", 2),)),
    ((("degree_Celsius", -1),), (("kelvin", -1),)),
    ((("degree_Celsius", 1), ("degree_Fahrenheit", 1)), (("kelvin", 2),)),
    ((("kelvin", 2),), (("degree_Celsius", 2),)),
    ((("degree_Celsius", 1), ("degree_Fahrenheit", -1)), ()),
)
COMPOUND_DEFAULT_ONLY = (
    # refused in the default mode (in autoconvert mode pint goes through kelvin: not fixed by the statement)
    ((("degree_Celsius", 1), ("meter", -1)), (("kelvin", 1), ("meter", -1))),
    ((("kelvin", 1), ("meter", -1)), (("degree_Fahrenheit", 1), ("meter", -1))),
)


def part_compound(regkey, col, stats):
    num, auto, _ = regkey
    ureg = get_reg(*regkey)
    rows = list(COMPOUND_REFUSALS) + ([] if auto else list(COMPOUND_DEFAULT_ONLY))
    for su, du in rows:
        got = observe(lambda: Qmake(ureg, Fr(10), su).to(ureg.UnitsContainer(dict(du))))
        stats["evals"] += 1
        stats["cases"] += 1
        if not (got[0] == "err" and got[1] == "DimensionalityError"):
            col.add("conv-compound:%s:%s:%s" % (modename(auto), utext(su), utext(du)),
                    "10 [%s] to [%s] -> %s, DimensionalityError expected" % (utext(su), utext(du), otext(got)),
                    {"part": "compound", "reg": list(regkey), "src": [list(u) for u in su], "dst": [list(u) for u in du]})


# ------------------------------------------------------------------------------- logarithmic units
LOGS = {
    # name: (logfactor, logbase, reference as (linear unit container, factor of that unit))
    "decibelmilliwatt": (10.0, 10.0, ("milliwatt", 1.0)),
    "decibelwatt": (10.0, 10.0, ("watt", 1.0)),
    "decibelmicrowatt": (10.0, 10.0, ("microwatt", 1.0)),
    "decibel": (10.0, 10.0, None),
    "neper": (0.5, math.e, None),
    "octave": (1.0, 2.0, None),
    "decade": (1.0, 10.0, None),
}
WATTS = {"milliwatt": 1e-3, "watt": 1.0, "microwatt": 1e-6, "kilowatt": 1e3}


def log_to_lin(name, x):
    lf, lb, _ = LOGS[name]
    return lb ** (x / lf)


def lin_to_log(name, v):
    lf, lb, _ = LOGS[name]
    return lf * math.log(v) / math.log(lb)


def part_log(regkey, tier, col, stats):
    num, auto, _ = regkey
    ureg = get_reg(*regkey)
    names = [n for n in LOGS if n in ureg._units]
    xs = [20.0, -3.0, 0.0, 7.5] + ([60.0, -30.0, 1.25, -0.5] if tier != "quick" else [])

    def case(ident, text, got, want, ex):
        stats["evals"] += 1
        stats["cases"] += 1
        if not agrees(got, want, RTOL, (1e-12,)):
            col.add(ident, "%s (%s mode) -> %s, expected %s" % (text, modename(auto), otext(got), otext(want)), ex)

    for nme in names:
        ref = LOGS[nme][2]
        for x in xs:
            ex = {"part": "log", "reg": list(regkey), "name": nme, "x": enc(x)}
            lin = log_to_lin(nme, x)
            if ref is None:
                targets = [({}, lin), ({"percent": 1}, lin * 100.0)]
            else:
                base = lin * WATTS[ref[0]]
                targets = [({w: 1}, base / f) for w, f in WATTS.items()]
            for tu, tv in targets:
                q = Qmake(ureg, x, {nme: 1})
                case("log:%s:%s" % (nme, utext(tu)), "%r %s to [%s]" % (x, nme, utext(tu)),
                     observe(lambda: q.to(ureg.UnitsContainer(tu))), ("ok", tu, tv), ex)
                case("log:%s:%s" % (utext(tu), nme), "%r [%s] to %s" % (tv, utext(tu), nme),
                     observe(lambda: Qmake(ureg, tv, tu).to(ureg.UnitsContainer({nme: 1}))), ("ok", {nme: 1}, x), ex)
                case("log-roundtrip:%s:%s" % (nme, utext(tu)), "%r %s to [%s] and back" % (x, nme, utext(tu)),
                     observe(lambda: q.to(ureg.UnitsContainer(tu)).to(ureg.UnitsContainer({nme: 1}))),
                     ("ok", {nme: 1}, x), ex)
            case("log-base:%s" % nme, "%r %s .to_base_units()" % (x, nme), observe(lambda: Qmake(ureg, x, {nme: 1}).to_base_units()),
                 ("ok", {}, lin) if ref is None else
                 ("ok", {"kilogram": 1, "meter": 2, "second": -3}, lin * WATTS[ref[0]]), ex)
            # log unit to log unit of the same kind
            for other in names:
                if other == nme or (LOGS[other][2] is None) != (ref is None):
                    continue
                if ref is None:
                    want = lin_to_log(other, lin)
                else:
                    want = lin_to_log(other, lin * WATTS[ref[0]] / WATTS[LOGS[other][2][0]])
                case("log:%s:%s" % (nme, other), "%r %s to %s" % (x, nme, other),
                     observe(lambda: Qmake(ureg, x, {nme: 1}).to(ureg.UnitsContainer({other: 1}))),
                     ("ok", {other: 1}, want), ex)
        # across dimensions
        for other in names + ["meter"]:
            if other == nme or (other in LOGS and (LOGS[other][2] is None) == (ref is None)):
                continue
            got = observe(lambda: Qmake(ureg, 3.0, {nme: 1}).to(ureg.UnitsContainer({other: 1})))
            stats["evals"] += 1
            stats["cases"] += 1
            if not (got[0] == "err" and got[1] == "DimensionalityError"):
                col.add("log-dim:%s:%s" % (nme, other), "3.0 %s to %s -> %s, DimensionalityError expected"
                        % (nme, other, otext(got)), {"part": "log", "reg": list(regkey), "name": nme, "x": enc(3.0)})


def part_log_arith(regkey, col, stats):
    """whatever log-unit arithmetic does, a result must not carry a unit name the registry does not define"""
    num, auto, _ = regkey
    ureg = get_reg(*regkey)
    names = [n for n in LOGS if n in ureg._units]

    def defined(units):
        for k in units:
            try:
                ureg.get_name(k)
                if k not in ureg._units and not ureg.get_name(k):
                    return False
            except Exception:  # noqa: BLE001
                return False
        return True

    ops = (("add", operator.add), ("sub", operator.sub), ("mul", operator.mul), ("truediv", operator.truediv))
    for a in names:
        partners = [("same", lambda: Qmake(ureg, 10.0, {a: 1})), ("number", lambda: 2.0),
                    ("hertz", lambda: Qmake(ureg, 10.0, {"hertz": 1}))]
        partners += [(b, (lambda b=b: Qmake(ureg, 10.0, {b: 1}))) for b in names if b != a]
        for pname, mk in partners:
            for opn, f in ops:
                for order in ("xy", "yx"):
                    x, y = Qmake(ureg, 20.0, {a: 1}), mk()
                    got = observe(f, x, y) if order == "xy" else observe(f, y, x)
                    stats["evals"] += 1
                    stats["cases"] += 1
                    if got[0] == "ok" and not defined(got[1]):
                        bad = sorted(k for k in got[1] if not defined([k]))
                        col.add("log-arith:%s:%s" % (opn, "+".join(bad)),
                                "(20.0 %s) %s (%s)%s -> %s: the result names a unit that is not defined"
                                % (a, opn, pname, "" if order == "xy" else " [operands swapped]", otext(got)),
                                {"part": "logarith", "reg": list(regkey), "a": a, "partner": pname, "op": opn,
                                 "order": order})
    for a in names:
        for s in ("%s/hertz" % a, "%s*second" % a, "%s**2" % a):
            got = observe(lambda: ureg.Quantity(1.0, ureg.parse_units(s)))
            stats["evals"] += 1
            stats["cases"] += 1
            if got[0] == "ok" and not defined(got[1]):
                col.add("log-parse:%s" % a, "parse_units(%r) -> [%s]: names a unit that is not defined (default_as_delta "
                        "applied to a logarithmic unit)" % (s, utext(got[1])),
                        {"part": "logparse", "reg": list(regkey), "s": s})


# =============================================================================== part 2: the calculus table
def kind_of(X):
    if X[0] == "n":
        return "N"
    if X[0] == "m":
        return "M"
    return temp_table()[X[1]][0]


def units_of(X):
    return {"meter": Fr(1)} if X[0] == "m" else {X[1]: Fr(1)}


def merge(u1, u2, sign):
    out = dict(u1)
    for k, v in u2.items():
        out[k] = out.get(k, Fr(0)) + sign * v
    return {k: v for k, v in out.items() if v != 0}


def _tdiv(x, y):
    if is_exact(x) and is_exact(y):
        return Fraction(x) / y
    return x / y


def expected(auto, op, X, Y):
    """X, Y = ('q', temperature unit, magnitude) | ('n', number) | ('m', magnitude in meter)
    -> ('ok', units, magnitude) | ('err', acceptable exception names) | None (not fixed)"""
    t = temp_table()
    kx, ky = kind_of(X), kind_of(Y)
    x, y = X[-1], Y[-1]
    if op in ("add", "sub"):
        f = operator.add if op == "add" else operator.sub
        if "N" in (kx, ky):
            if kx == ky:
                return None
            n = x if kx == "N" else y
            q = Y if kx == "N" else X
            if n == 0:
                return ("ok", units_of(q), f(x, y))
            return ("err", DIM_ERR)
        if (kx == "M") != (ky == "M"):
            return ("err", DIM_ERR)
        if kx == "M":
            return ("ok", units_of(X), f(x, y))
        sx, sy = t[X[1]][1], t[Y[1]][1]
        if kx in "AD" and ky in "AD":
            if X[1] == Y[1]:
                return ("ok", units_of(X), f(x, y))
            if kx == "D" and ky != "D":
                return ("ok", units_of(Y), f(x * sx / sy, y))
            return ("ok", units_of(X), f(x, y * sy / sx))
        if kx == "O":
            if ky == "D":
                return ("ok", units_of(X), f(x, y * sy / sx))
            if op == "add":
                return ("err", OFFSET_ERR)
            return ("ok", {"delta_" + X[1]: Fr(1)}, x - from_K(X[1], to_K(Y[1], y)))
        # ky == "O"
        if kx == "A":
            if op == "add":
                return ("err", OFFSET_ERR)
            return ("ok", units_of(X), x - to_K(Y[1], y) / sx)
        return ("ok", units_of(Y), f(x * sx / sy, y))  # delta +- offset -> the offset unit
    if op in ("mul", "truediv"):
        sign = 1 if op == "mul" else -1
        f = operator.mul if op == "mul" else _tdiv
        if kx == "N" and ky == "N":
            return None
        if ky == "N":
            if kx == "O":
                if op == "mul" and auto:
                    return ("ok", units_of(X), x * y)
                return ("err", OFFSET_ERR)
            return ("ok", units_of(X), f(x, y))
        if kx == "N":
            if ky == "O":
                if not auto:
                    return ("err", OFFSET_ERR)
                if op == "mul":
                    return ("ok", units_of(Y), x * y)
                return ("ok", {"kelvin": Fr(-1)}, f(x, to_K(Y[1], y)))
            return ("ok", merge({}, units_of(Y), sign), f(x, y))
        if "O" in (kx, ky) and not auto:
            return ("err", OFFSET_ERR)
        ux, uy = units_of(X), units_of(Y)
        if kx == "O":
            ux, x = {"kelvin": Fr(1)}, to_K(X[1], x)
        if ky == "O":
            uy, y = {"kelvin": Fr(1)}, to_K(Y[1], y)
        return ("ok", merge(ux, uy, sign), f(x, y))
    raise ValueError(op)


def expected_pow(auto, X, e, e_is_temp=False):
    """X ** e for a scalar e (e_is_temp: the exponent is a temperature quantity -> refused)"""
    if e_is_temp:
        return ("err", EITHER_ERR)
    kx = kind_of(X)
    x = X[-1]
    if e == 1:
        return ("ok", units_of(X), x)
    if e == 0:
        return ("ok", {}, 1)
    if kx == "O":
        if not auto:
            return ("err", EITHER_ERR)
        return ("ok", {"kelvin": Fraction(e)}, to_K(X[1], x) ** e)
    return ("ok", {k: v * Fraction(e) for k, v in units_of(X).items()}, x ** e)


FORMS = {
    "add": ("add", operator.add, False), "sub": ("sub", operator.sub, False), "mul": ("mul", operator.mul, False),
    "truediv": ("truediv", operator.truediv, False),
    "iadd": ("add", operator.iadd, True), "isub": ("sub", operator.isub, True), "imul": ("mul", operator.imul, True),
    "itruediv": ("truediv", operator.itruediv, True),
}


def build(ureg, X, num, array_second=None):
    """pint object for an operand spec; array_second: second magnitude -> 2-element float array"""
    def mag(v, v2):
        if array_second is None:
            return v if num == "frac" else float(v)
        import numpy as np

        return np.array([float(v), float(v2)], dtype=float)

    if X[0] == "n":
        if array_second is not None:
            return float(X[1])
        return X[1] if num == "frac" else float(X[1])
    if X[0] == "m":
        return Qmake(ureg, mag(X[1], array_second), {"meter": 1})
    return Qmake(ureg, mag(X[2], array_second), {X[1]: 1})


def snap(o):
    if not hasattr(o, "_units"):
        return None
    m = o._magnitude
    return (m.copy() if hasattr(m, "copy") and hasattr(m, "tolist") else m, type(m), dict(o._units))


def same_snap(o, s):
    if s is None:
        return True
    m = o._magnitude
    if hasattr(m, "tolist") and hasattr(s[0], "tolist"):
        import numpy as np

        ok = np.array_equal(m, s[0])
    else:
        ok = m == s[0] and type(m) is s[1]
    return bool(ok) and dict(o._units) == s[2]


def spec_id(X):
    if X[0] == "n":
        return "number"
    if X[0] == "m":
        return "meter"
    return sn(X[1])


def spec_text(X):
    if X[0] == "n":
        return show(X[1])
    if X[0] == "m":
        return "%s meter" % show(X[1])
    return "%s %s" % (show(X[2]), sn(X[1]))


def with_mag(X, v):
    return (X[0], v) if X[0] in "nm" else (X[0], X[1], v)


def check_cell(regkey, form, X, Y, col, stats, X2=None, Y2=None):
    """one cell of the table; X2/Y2 given -> float arrays [X, X2] and [Y, Y2] (array in-place code)"""
    num, auto, _ = regkey
    ureg = get_reg(*regkey)
    base, fn, inplace = FORMS[form]
    arrays = X2 is not None
    if arrays and X[0] == "n":
        return  # a bare number on the left has no in-place/array form of interest
    want = expected(auto, base, X, Y)
    if want is None:
        return
    atols = None
    if arrays and want[0] == "ok":
        w2 = expected(auto, base, X2, Y2)
        if w2 is None or w2[0] != "ok" or udict(w2[1]) != udict(want[1]):
            raise AssertionError("array cell with two different expectations")
        want = ("ok", want[1], (float(want[2]), float(w2[2])))
        if base in ("add", "sub"):
            atols = tuple(ARTOL * max(abs(float(a[-1])), abs(float(b[-1])), 1.0) for a, b in ((X, Y), (X2, Y2)))
    a = build(ureg, X, num, X2[-1] if arrays else None)
    b = build(ureg, Y, num, Y2[-1] if arrays else None)
    target = copy.copy(a) if inplace and hasattr(a, "_units") else a
    sa, sb = snap(a), snap(b)
    got = observe(fn, target, b)
    stats["evals"] += 1
    kindtag = "calc-array" if arrays else "calc"
    ident = "%s:%s:%s:%s:%s" % (kindtag, modename(auto), form, spec_id(X), spec_id(Y))
    ex = {"part": "cell", "reg": list(regkey), "form": form, "X": [X[0], X[1] if X[0] == "q" else None, enc(X[-1])],
          "Y": [Y[0], Y[1] if Y[0] == "q" else None, enc(Y[-1])],
          "X2": enc(X2[-1]) if arrays else None, "Y2": enc(Y2[-1]) if arrays else None}
    text = "(%s) %s (%s)" % (spec_text(X) + (", " + show(X2[-1]) if arrays else ""), form,
                             spec_text(Y) + (", " + show(Y2[-1]) if arrays else ""))
    if not agrees(got, want, ARTOL if (arrays or num == "float") else RTOL, atols):
        col.add(ident, "%s in the %s mode -> %s, expected %s" % (text, modename(auto), otext(got), otext(want)), ex)
    if not same_snap(b, sb) or (not inplace and not same_snap(a, sa)) or (inplace and target is not a
                                                                          and not same_snap(a, sa)):
        which = "right" if not same_snap(b, sb) else "left"
        o = b if which == "right" else a
        kn = {"O": "offset", "A": "absolute", "D": "delta", "N": "number", "M": "meter"}
        col.add("operand:%s:%s:%s:%s:%s" % ("array" if arrays else "scalar", modename(auto), form, kn[kind_of(X)],
                                            kn[kind_of(Y)]),
                "%s in the %s mode changed its %s operand into %s [%s]"
                % (text, modename(auto), which, o._magnitude.tolist() if hasattr(o._magnitude, "tolist") else o._magnitude,
                   utext(o._units)), ex)


def table_operands():
    t = temp_table()
    specs = [("q", n) for n in t] + [("n",), ("m",)]
    return specs


def calc_magnitudes(tier, seed):
    mags = [(Fr(100), Fr(10)), (Fr(-40), Fr(7, 3)), (Fr(1, 2), Fr(-3))]
    if tier != "quick":
        rng = random.Random(seed * 977 + 5)
        while len(mags) < 9:
            a = Fraction(rng.randint(-300, 300), rng.choice((1, 2, 4, 5)))
            b = Fraction(rng.randint(-300, 300), rng.choice((1, 2, 4, 5)))
            if a != 0 and b != 0:
                mags.append((a, b))
    return mags


def safe_pair(X, Y):
    """no zero divisors in any reading of the operands (a temperature of 0 K, a zero magnitude)"""
    for S in (X, Y):
        if S[-1] == 0:
            return False
        if S[0] == "q" and to_K(S[1], S[-1]) == 0:
            return False
    return True


def part_table(regkey, mags, col, stats, arrays):
    specs = table_operands()
    for sx in specs:
        for sy in specs:
            if sx[0] == "n" and sy[0] == "n":
                continue
            for form in FORMS:
                stats["cases"] += 1
                for i, (mx, my) in enumerate(mags):
                    X, Y = with_mag(sx + (None,), mx), with_mag(sy + (None,), my)
                    if not safe_pair(X, Y):
                        continue
                    if arrays:
                        mx2, my2 = mags[(i + 1) % len(mags)]
                        # a bare number is one scalar for the whole array
                        X2, Y2 = with_mag(X, mx2), (Y if Y[0] == "n" else with_mag(Y, my2))
                        if not safe_pair(X2, Y2):
                            continue
                        check_cell(regkey, form, X, Y, col, stats, X2, Y2)
                    else:
                        check_cell(regkey, form, X, Y, col, stats)
    if arrays:
        return
    # the number zero in sums
    for sx in specs:
        if sx[0] == "n":
            continue
        for form in ("add", "sub", "iadd", "isub"):
            for zero in (0, Fr(0)):
                X = with_mag(sx + (None,), Fr(25))
                stats["cases"] += 2
                check_cell(regkey, form, X, ("n", zero), col, stats)
                if not form.startswith("i"):
                    check_cell(regkey, form, ("n", zero), X, col, stats)


EXPONENTS = (0, 1, 2, -1, 3, Fr(1, 2), Fr(2), Fr(0), Fr(1))


def part_pow_unary(regkey, mags, col, stats, arrays):
    num, auto, _ = regkey
    ureg = get_reg(*regkey)
    specs = [s for s in table_operands() if s[0] != "n"]
    xs = [m[0] for m in mags]
    for sx in specs:
        for i, mx in enumerate(xs):
            X = with_mag(sx + (None,), mx)
            if not safe_pair(X, X):
                continue
            X2 = with_mag(X, xs[(i + 1) % len(xs)])
            if arrays and not safe_pair(X2, X2):
                continue

            def mk():
                return build(ureg, X, num, X2[-1] if arrays else None)

            def run(ident, text, fn, want, want2, ex):
                stats["evals"] += 1
                if arrays and want[0] == "ok":
                    w = ("ok", want[1], (complex(want[2]) if isinstance(want[2], complex) else float(want[2]),
                                         complex(want2[2]) if isinstance(want2[2], complex) else float(want2[2])))
                else:
                    w = want
                a = mk()
                s0 = snap(a)
                got = observe(fn, a)
                if not agrees(got, w, ARTOL if (arrays or num == "float") else RTOL):
                    col.add(ident, "%s in the %s mode -> %s, expected %s" % (text, modename(auto), otext(got), otext(w)), ex)
                elif not ident.split(":")[2].startswith("i") and not same_snap(a, s0):
                    col.add("operand:" + ident, "%s changed its operand" % text, ex)

            tag = "calc-array" if arrays else "calc"
            for e in EXPONENTS:
                if arrays and (isinstance(e, Fraction) and e.denominator != 1):
                    continue
                ee = e if num == "frac" else (float(e) if isinstance(e, Fraction) else e)
                want, want2 = expected_pow(auto, X, e), expected_pow(auto, X2, e)
                if want[0] == "ok" and (isinstance(want[2], complex) or isinstance(want2[2], complex)) and arrays:
                    continue
                etxt = show(e) + ("F" if isinstance(e, Fraction) else "")
                ex = {"part": "pow", "reg": list(regkey), "X": [X[0], X[1] if X[0] == "q" else None, enc(X[-1])],
                      "X2": enc(X2[-1]), "arrays": arrays}
                stats["cases"] += 2
                run("%s:%s:pow(%s):%s" % (tag, modename(auto), etxt, spec_id(X)), "(%s) ** %s" % (spec_text(X), etxt),
                    lambda a, ee=ee: a ** ee, want, want2, ex)
                run("%s:%s:ipow(%s):%s" % (tag, modename(auto), etxt, spec_id(X)), "(%s) **= %s" % (spec_text(X), etxt),
                    lambda a, ee=ee: operator.ipow(a, ee), want, want2, ex)
                if not arrays and not (isinstance(e, Fraction) and e.denominator != 1):
                    # the exponent as a dimensionless quantity
                    eq_ = Qmake(ureg, ee, {})
                    stats["cases"] += 1
                    run("%s:%s:pow(Q%s):%s" % (tag, modename(auto), etxt, spec_id(X)),
                        "(%s) ** Q(%s, dimensionless)" % (spec_text(X), etxt), lambda a, eq_=eq_: a ** eq_, want, want2, ex)
            if not arrays:
                ek = Qmake(ureg, 2 if num == "frac" else 2.0, {"kelvin": 1})
                ex = {"part": "pow", "reg": list(regkey), "X": [X[0], X[1] if X[0] == "q" else None, enc(X[-1])],
                      "X2": enc(X2[-1]), "arrays": arrays}
                stats["cases"] += 2
                run("calc:%s:pow(Q-kelvin):%s" % (modename(auto), spec_id(X)), "(%s) ** Q(2, kelvin)" % spec_text(X),
                    lambda a: a ** ek, ("err", EITHER_ERR), None, ex)
                if X[0] == "q":
                    run("calc:%s:rpow:%s" % (modename(auto), spec_id(X)), "2 ** (%s)" % spec_text(X),
                        lambda a: 2 ** a, ("err", EITHER_ERR), None, ex)
            for uname, uf in (("neg", operator.neg), ("pos", operator.pos), ("abs", abs)):
                ex = {"part": "pow", "reg": list(regkey), "X": [X[0], X[1] if X[0] == "q" else None, enc(X[-1])],
                      "X2": enc(X2[-1]), "arrays": arrays}
                stats["cases"] += 1
                run("%s:%s:%s:%s" % (tag, modename(auto), uname, spec_id(X)), "%s(%s)" % (uname, spec_text(X)), uf,
                    ("ok", units_of(X), uf(X[-1])), ("ok", units_of(X), uf(X2[-1])), ex)


def part_floordiv(regkey, mags, col, stats):
    """//, %, divmod are not among the documented results: with an offset operand they must raise"""
    num, auto, _ = regkey
    ureg = get_reg(*regkey)
    t = temp_table()
    temps = [("q", n) for n in t]
    forms = (("floordiv", operator.floordiv), ("mod", operator.mod), ("divmod", divmod))
    for sx in temps:
        for sy in temps + [("n",)]:
            if "O" not in (t[sx[1]][0], t[sy[1]][0] if sy[0] == "q" else "N"):
                continue
            for mx, my in mags[:2]:
                X, Y = with_mag(sx + (None,), mx), with_mag(sy + (None,), my)
                for fname, f in forms:
                    for order in ("xy", "yx"):
                        a, b = build(ureg, X, num), build(ureg, Y, num)
                        got = observe(f, a, b) if order == "xy" else observe(f, b, a)
                        stats["evals"] += 1
                        stats["cases"] += 1
                        l, r = (X, Y) if order == "xy" else (Y, X)
                        if got[0] != "err":
                            kn = {"O": "offset", "A": "absolute", "D": "delta", "N": "number"}
                            col.add("floordiv-offset:%s:%s:%s" % (fname, kn[kind_of(l)], kn[kind_of(r)]),
                                    "(%s) %s (%s) in the %s mode -> %s; not a documented combination, an error is expected"
                                    % (spec_text(l), fname, spec_text(r), modename(auto),
                                       otext(got) if got[0] != "val" else repr(got[1])),
                                    {"part": "floordiv", "reg": list(regkey), "form": fname, "order": order,
                                     "X": [X[0], X[1], enc(X[-1])], "Y": [Y[0], Y[1] if Y[0] == "q" else None, enc(Y[-1])]})


SCALAR_ROWS = (
    # from TestOffsetUnitMath.multiplications_with_scalar / divisions_with_scalar (units parsed with as_delta=False):
    # (units, operation, expected in default mode, expected in autoconvert mode)
    ((("kelvin", 2),), "q*2", "ok", "ok"), ((("kelvin", 2),), "q/2", "ok", "ok"),
    ((("degree_Celsius", -1),), "q*2", "err", "err"), ((("degree_Celsius", 2),), "q*2", "err", "err"),
    ((("degree_Celsius", -2),), "q*2", "err", "err"), ((("degree_Celsius", Fr(1, 2)),), "q*2", "err", "err"),
    ((("degree_Celsius", 2),), "q/2", "err", "err"), ((("degree_Celsius", -2),), "q/2", "err", "err"),
    ((("degree_Celsius", 2),), "2/q", "err", "err"), ((("degree_Celsius", -2),), "2/q", "err", "err"),
    ((("degree_Celsius", 1), ("meter", -1)), "q*2", "err", "err"),
    ((("degree_Celsius", 1), ("meter", -1)), "q*q", "err", "err"),
    ((("degree_Fahrenheit", 2),), "q*2", "err", "err"), ((("degXa", 2),), "2*q", "err", "err"),
)


def part_scalar_rows(regkey, col, stats):
    num, auto, _ = regkey
    ureg = get_reg(*regkey)
    for units, opn, w_def, w_auto in SCALAR_ROWS:
        want = w_auto if auto else w_def
        q = Qmake(ureg, Fr(10), units)
        two = 2
        f = {"q*2": lambda: q * two, "2*q": lambda: two * q, "q/2": lambda: q / two, "2/q": lambda: two / q,
             "q*q": lambda: q * Qmake(ureg, Fr(3), {"second": 1})}[opn]
        got = observe(f)
        stats["evals"] += 1
        stats["cases"] += 1
        if want == "err":
            bad = not (got[0] == "err" and got[1] == "OffsetUnitCalculusError")
        else:
            wm = {"q*2": Fr(20), "q/2": Fr(5)}[opn]
            bad = not agrees(got, ("ok", dict(units), wm), RTOL)
        if bad:
            col.add("calc-compound:%s:%s:%s" % (modename(auto), opn, utext(units)),
                    "q = 10 [%s]: %s in the %s mode -> %s, expected %s" % (utext(units), opn, modename(auto), otext(got),
                                                                           "OffsetUnitCalculusError" if want == "err"
                                                                           else "plain arithmetic"),
                    {"part": "scalarrow", "reg": list(regkey), "units": [[k, enc(Fraction(v))] for k, v in units], "op": opn})


# =============================================================================== part 3: default_as_delta
SPELLINGS = {
    "degree_Celsius": ("degC", "celsius", "degree_Celsius", "°C"),
    "degree_Fahrenheit": ("degF", "fahrenheit"),
    "degXa": ("degXa", "dXa"),
}
PATTERNS = (
    # name, builder of (string, [(canonical or '@' for the offset unit, exponent)])
    ("alone", "{u}", (("@", 1),)),
    ("pow1", "{u}**1", (("@", 1),)),
    ("square", "{u}**2", (("@", 2),)),
    ("inverse", "1/{u}", (("@", -1),)),
    ("per-meter", "{u}/meter", (("@", 1), ("meter", -1))),
    ("times-meter", "meter*{u}", (("meter", 1), ("@", 1))),
    ("rate", "{u}/second", (("@", 1), ("second", -1))),
    ("with-kelvin", "{u}*kelvin", (("@", 1), ("kelvin", 1))),
    ("with-delta", "{u}/delta_degC", (("@", 1), ("delta_degree_Celsius", -1))),
    ("two-offsets", "{u}*degF", (("@", 1), ("degree_Fahrenheit", 1))),
)


def expected_units(canon, items, as_delta):
    many = len(items) > 1
    out = {}
    offsets = {n for n, v in temp_table().items() if v[0] == "O"}
    for nme, e in items:
        c = canon if nme == "@" else nme
        if as_delta and c in offsets and (many or e != 1):
            c = "delta_" + c
        out[c] = out.get(c, Fr(0)) + e
    return {k: v for k, v in out.items() if v != 0}


def part_parse(regkey, col, stats):
    num, auto, asdelta = regkey
    ureg = get_reg(*regkey)
    for canon, spellings in SPELLINGS.items():
        for sp in spellings:
            for pname, pat, items in PATTERNS:
                if pname == "two-offsets" and canon == "degree_Fahrenheit":
                    continue
                s = pat.format(u=sp)
                ex = {"part": "parse", "reg": list(regkey), "canon": canon, "spelling": sp, "pattern": pname}
                ident = "%s:default_as_delta=%s:%s" % (pname, asdelta, sp)
                # the order of the calls matters if a cache entry leaks between the as_delta readings
                for arg in (False, None, True, None, False):
                    eff = asdelta if arg is None else arg
                    want = expected_units(canon, items, eff)
                    calls = [("parse_units", lambda: ureg.Quantity(1, ureg.parse_units(s, as_delta=arg)))]
                    if arg is None:
                        calls += [("Unit", lambda: ureg.Quantity(1, ureg.Unit(s))),
                                  ("Quantity(10, str)", lambda: ureg.Quantity(10, s)),
                                  ("parse_units_as_container", lambda: ureg.Quantity(1, ureg.parse_units_as_container(s)))]
                    for cname, f in calls:
                        got = observe(f)
                        stats["evals"] += 1
                        stats["cases"] += 1
                        wm = 10 if cname.startswith("Quantity") else 1
                        if not agrees(got, ("ok", want, wm), RTOL):
                            col.add("parse:%s:%s" % (cname.split("(")[0], ident),
                                    "%s of %r with as_delta=%s (registry default_as_delta=%s) -> %s, expected %s [%s]"
                                    % (cname, s, arg, asdelta, otext(got), wm, utext(want)), ex)
                # Quantity("10 <units>"): the expression evaluator; it may refuse, but if it answers, the answer must be
                # the reading above (magnitude unchanged)
                want = expected_units(canon, items, asdelta)
                got = observe(lambda: ureg.Quantity("10 " + s))
                stats["evals"] += 1
                stats["cases"] += 1
                if got[0] == "err" and got[1] in ("OffsetUnitCalculusError", "DimensionalityError"):
                    continue
                if not agrees(got, ("ok", want, 10), RTOL) and not auto:
                    col.add("qstr:%s:%s" % (modename(auto), pname),
                            "Quantity(%r) in the %s mode (default_as_delta=%s) -> %s; expected 10 [%s] (magnitude left "
                            "unchanged) or a refusal" % ("10 " + s, modename(auto), asdelta, otext(got), utext(want)), ex)


# =============================================================================== driver
def _worker(task):
    part, regkey, tier, seed = task
    col = Collector()
    stats = {"evals": 0, "cases": 0}
    values = conv_values(tier, seed)
    mags = calc_magnitudes(tier, seed)
    if part == "conv":
        part_conversions(regkey, values, col, stats)
        part_compound(regkey, col, stats)
        if regkey[0] == "frac":
            part_reaumur(regkey, values, col, stats)
    elif part == "log":
        part_log(regkey, tier, col, stats)
        part_log_arith(regkey, col, stats)
    elif part == "table":
        part_table(regkey, mags, col, stats, arrays=False)
        part_scalar_rows(regkey, col, stats)
    elif part == "table-array":
        part_table(regkey, mags, col, stats, arrays=True)
        part_pow_unary(regkey, mags, col, stats, arrays=True)
    elif part == "pow":
        part_pow_unary(regkey, mags, col, stats, arrays=False)
        part_floordiv(regkey, mags, col, stats)
    elif part == "parse":
        part_parse(regkey, col, stats)
    return part, stats, col.entries


def set_generated(tier, seed):
    global _GEN
    gen = list(GENERATED_QUICK)
    if tier != "quick":
        rng = random.Random(seed * 6007 + 9)
        for i in range(4):
            s = Fraction(rng.randint(1, 12), rng.randint(1, 12))
            o = Fraction(rng.randint(-40000, 40000), 100)
            gen.append(("degY%s" % "abcd"[i], s, o))
    if gen != _GEN:
        _GEN = gen
        _R.clear()


def run(tier: str = "quick", seed: int = 0, **kw) -> dict:
    t0 = time.time()
    cpu0 = _cpu_total()
    workers = int(kw.get("workers", NWORKERS))
    set_generated(tier, seed)
    for key in ALL_REGS:
        get_reg(*key)
    tasks = []
    for key in ALL_REGS:
        num, auto, asdelta = key
        if asdelta:
            tasks.append(("conv", key, tier, seed))
            if num == "frac":
                tasks += [("table", key, tier, seed), ("pow", key, tier, seed)]
            else:
                tasks += [("log", key, tier, seed), ("table-array", key, tier, seed)]
        if num == "frac":
            tasks.append(("parse", key, tier, seed))
    ctx = mp.get_context("fork")
    if workers > 1:
        with ctx.Pool(min(workers, len(tasks)), maxtasksperchild=1) as pool:
            results = pool.map(_worker, tasks, chunksize=1)
    else:
        results = [_worker(tk) for tk in tasks]
    col = Collector()
    evals = cases = 0
    by_part = {}
    for part, st, entries in results:
        evals += st["evals"]
        cases += st["cases"]
        by_part[part] = by_part.get(part, 0) + st["evals"]
        col.merge(entries)
    entries = sorted(col.entries.values(), key=lambda e: e["case"])
    buckets = {}
    for e in entries:
        buckets.setdefault(e["case"].split(":")[0], []).append(e)
    chosen, i = [], 0
    while len(chosen) < 25 and any(i < len(b) for b in buckets.values()):
        for k in sorted(buckets):
            if i < len(buckets[k]) and len(chosen) < 25:
                chosen.append(buckets[k][i])
        i += 1
    chosen.sort(key=lambda e: e["case"])
    for e in chosen:  # the user-defined units of this run, so that replay() can rebuild the registries
        e["gen"] = [[n, sc.numerator, sc.denominator, o.numerator, o.denominator] for n, sc, o in _GEN]
    ud, ua = get_reg("frac", False), get_reg("frac", True)

    def smp(text, f):
        return {"expression": text, "result": otext(observe(f))}

    samples = [
        smp("Q(25, degC) - Q(50, degF)   [default mode]", lambda: ud.Quantity(25, "degC") - ud.Quantity(50, "degF")),
        smp("Q(100, delta_degF) + Q(10, degC)", lambda: ud.Quantity(100, "delta_degF") + ud.Quantity(10, "degC")),
        smp("Q(10, degC) * Q(2, meter)   [default mode]", lambda: ud.Quantity(10, "degC") * ud.Quantity(2, "meter")),
        smp("Q(10, degC) * Q(2, meter)   [autoconvert mode]", lambda: ua.Quantity(10, "degC") * ua.Quantity(2, "meter")),
        smp("Q(3, degXa).to(degF)   [degXa = 7/3 kelvin; offset 12.5]", lambda: ud.Quantity(3, "degXa").to("degF")),
        smp("Q(20.0, dBm).to(mW)", lambda: get_reg("float", True).Quantity(20.0, "dBm").to("mW")),
    ]
    t = temp_table()
    bound = (
        "%d temperature units (kelvin, degR, degC, degF, %d user-defined offset units, their delta_ units): all ordered "
        "pairs x %d values x {to, ito, m_as, convert, round trip} exactly in the Fraction registry and in floats, both "
        "registry modes; offset<->delta, higher-order and compound offset conversions refused; Reaumur against the "
        "historical scale; 7 logarithmic units x %d values x linear targets, log-to-log, round trips, cross-dimension "
        "refusals (float, 1e-12); calculus table: %d x %d operand kinds x 8 forms (+ - * / and in-place) x %d magnitude "
        "pairs x 2 modes, exact scalars and 2-element float arrays (real in-place code); ** and **= with %d exponents, "
        "dimensionless-quantity and kelvin exponents, number ** temperature, neg/pos/abs; // %% divmod with an offset "
        "operand; %d compound-offset scalar rows; parsing: %d offset spellings x %d unit patterns x as_delta in a "
        "5-call sequence (False, default, True, default, False) x {parse_units, Unit, Quantity(10, str), "
        "parse_units_as_container, Quantity(str)} x default_as_delta x mode; log-unit arithmetic (7 units x partners x "
        "+ - * / x both orders) and log-unit compound parsing must not name undefined units"
        % (len(t), len(_GEN), len(conv_values(tier, seed)), 4 if tier == "quick" else 8, len(t) + 2, len(t) + 2,
           len(calc_magnitudes(tier, seed)), len(EXPONENTS), len(SCALAR_ROWS), sum(len(v) for v in SPELLINGS.values()),
           len(PATTERNS)))
    return {
        "name": NAME,
        "tier": tier,
        "seed": seed,
        "bound": bound,
        "evaluations": evals,
        "evaluations_by_part": by_part,
        "distinct_nontrivial": cases,
        "rule": "full products of the stated unit sets, operand kinds, operator forms, magnitudes and registry modes; "
                "every case involves a non-multiplicative unit, a delta unit or a unit string with an offset unit "
                "(thorough tier: extra user-defined offset units, conversion values and magnitudes from "
                "random.Random(seed))",
        "exhaustive": True,
        "violations": chosen,
        "violation_count": len(entries),
        "violation_cases": [e["case"] for e in entries][:1000],
        "violating_evaluations": sum(e["instances"] for e in entries),
        "violation_classes": {k: len(b) for k, b in sorted(buckets.items())},
        "samples": samples,
        "seconds": round(time.time() - t0, 1),
        "cpu_seconds": round(_cpu_total() - cpu0, 1),
    }


# =============================================================================== replay
def replay(data: dict) -> bool:
    global _GEN
    ok = True
    if "gen" in data:
        gen = [(g[0], Fraction(g[1], g[2]), Fraction(g[3], g[4])) for g in data["gen"]]
        if gen != _GEN:
            _GEN = gen
            _R.clear()
    for ex in data.get("examples", []):
        col = Collector()
        stats = {"evals": 0, "cases": 0}
        regkey = tuple(ex["reg"])
        regkey = (regkey[0], bool(regkey[1]), bool(regkey[2]))
        part = ex["part"]
        if part == "conv":
            src, dst, x = ex["src"], ex["dst"], dec(ex["x"])
            t = temp_table()
            if ex["tag"] == "conv-refuse":
                want = "refuse"
            elif ex["tag"] == "conv-delta":
                want = x * t[src][1] / t[dst][1]
            else:
                want = from_K(dst, to_K(src, x))
            check_conversion(regkey, src, dst, x, want, col, stats, ex["tag"])
        elif part == "reaumur":
            part_reaumur(regkey, conv_values("quick", 0), col, stats)
        elif part == "compound":
            part_compound(regkey, col, stats)
        elif part == "log":
            part_log(regkey, "thorough", col, stats)
        elif part in ("logarith", "logparse"):
            part_log_arith(regkey, col, stats)
        elif part == "cell":
            def spec(v):
                return ("q", v[1], dec(v[2])) if v[0] == "q" else (v[0], dec(v[2]))

            X, Y = spec(ex["X"]), spec(ex["Y"])
            if ex.get("X2") is not None:
                check_cell(regkey, ex["form"], X, Y, col, stats, with_mag(X, dec(ex["X2"])), with_mag(Y, dec(ex["Y2"])))
            else:
                check_cell(regkey, ex["form"], X, Y, col, stats)
        elif part == "pow":
            v = ex["X"]
            X = ("q", v[1], dec(v[2])) if v[0] == "q" else (v[0], dec(v[2]))
            part_pow_unary(regkey, [(X[-1], X[-1]), (dec(ex["X2"]), dec(ex["X2"]))], col, stats, arrays=ex["arrays"])
            want_id = data.get("case", "")
            col.entries = {k: e for k, e in col.entries.items() if k == want_id or not want_id}
        elif part == "floordiv":
            part_floordiv(regkey, calc_magnitudes("quick", 0), col, stats)
            want_id = data.get("case", "")
            col.entries = {k: e for k, e in col.entries.items() if k == want_id or not want_id}
        elif part == "scalarrow":
            part_scalar_rows(regkey, col, stats)
        elif part == "parse":
            part_parse(regkey, col, stats)
            want_id = data.get("case", "")
            col.entries = {k: e for k, e in col.entries.items() if k == want_id or not want_id}
        else:
            raise ValueError(part)
        if data.get("case") and part in ("reaumur", "compound", "log", "logarith", "logparse", "scalarrow"):
            col.entries = {k: e for k, e in col.entries.items() if k == data["case"]}
        ok = ok and not col.entries
    return ok


if __name__ == "__main__":
    import argparse

    ap = argparse.ArgumentParser()
    ap.add_argument("--tier", default="quick")
    ap.add_argument("--seed", type=int, default=0)
    ap.add_argument("--workers", type=int, default=NWORKERS)
    a = ap.parse_args()
    print(json.dumps(run(a.tier, a.seed, workers=a.workers), indent=1, default=str))
