"""Bounded stand-in for C11 -- "Context conversions apply the declared rules along a shortest chain".

Three parts (all compare the REAL pint code with references written here from the property statement):

1. `pint.util.find_shortest_path` against a bit-mask BFS oracle, exhaustively over all directed graphs
   on <= 4 (quick) / <= 5 (thorough) nodes x all (start, end) pairs: None exactly when unreachable,
   `[start]` when start == end, otherwise a valid path of minimal length.  Variants: without self loops
   (2^(n(n-1)) graphs), with self loops (2^(n*n), n <= 3 quick / <= 4 thorough), and the
   `defaultdict(set)` shape used by `ContextChain.graph` (only source nodes are keys).
2. The bundled contexts of the default registry (spectroscopy, boltzmann, energy, chemistry, textile,
   Gaussian, ESU): every rule, plus multi-hop chains, on sample quantities versus formulas written by
   hand in coherent SI numbers (unit factors and constants transcribed by hand, nothing read from pint).
3. Generated contexts: worlds of 5 contexts with overlapping monomial rules over 7 dimension nodes
   (spelled differently per context so that end-point normalisation matters), equation-string and
   python-function rules, parameters, redefinitions of a custom unit chain; ALL stacks of <= 3 contexts
   of each world x all 49 ordered node pairs, against a reference stack model (most recent context wins
   per rule, parameters = call kwargs > innermost enclosing active context > declared defaults, all
   shortest chains accepted); plus fixed scenarios for redefinitions of default units and every
   activation form (name / alias / object; enable+disable / with / per-call / decorator).
"""
from __future__ import annotations

import itertools
import json
import math
import multiprocessing as mp
import random
import sys
import time
from collections import defaultdict

NAME = "c11_contexts"
RTOL = 1e-9
MAXV = 25

# ======================================================================================================
# Part 1: find_shortest_path
# ======================================================================================================


def _decode(n, code, loops):
    """-> list of adjacency bit masks, one per node.  Without loops node i has n-1 row bits that skip i."""
    adj = []
    if loops:
        for i in range(n):
            adj.append((code >> (i * n)) & ((1 << n) - 1))
    else:
        w = n - 1
        for i in range(n):
            row = (code >> (i * w)) & ((1 << w) - 1)
            low = row & ((1 << i) - 1)
            high = row >> i
            adj.append(low | (high << (i + 1)))
    return adj


def _oracle_dist(n, adj):
    """All-pairs hop distance by breadth-first search over bit masks (-1 = unreachable, 0 = same node)."""
    out = []
    for s in range(n):
        dist = [-1] * n
        dist[s] = 0
        seen = frontier = 1 << s
        d = 0
        while frontier:
            d += 1
            nxt = 0
            f = frontier
            i = 0
            while f:
                if f & 1:
                    nxt |= adj[i]
                f >>= 1
                i += 1
            nxt &= ~seen
            seen |= nxt
            f = nxt
            i = 0
            while f:
                if f & 1:
                    dist[i] = d
                f >>= 1
                i += 1
            frontier = nxt
        out.append(dist)
    return out


def _check_path(p, s, e, d, adj):
    """None if `p` is what the property demands for distance d, else a description."""
    if d < 0:
        return None if p is None else f"returned {p!r} but {e} is unreachable from {s}"
    if p is None:
        return f"returned None but a path of {d} edges exists"
    if not isinstance(p, list):
        return f"returned non-list {p!r}"
    if d == 0 and p != [s]:
        return f"start == end must give [start], got {p!r}"
    if len(p) != d + 1:
        return f"path {p!r} has {len(p) - 1} edges, minimal is {d}"
    if p[0] != s or p[-1] != e:
        return f"path {p!r} does not go from {s} to {e}"
    for a, b in zip(p, p[1:]):
        if not (adj[a] >> b) & 1:
            return f"path {p!r} uses ({a},{b}) which is not an edge"
    return None


_LABELS = "abcde"


def _build_graph(n, adj, variant):
    if variant == "dd":  # shape used by ContextChain.graph: defaultdict, only sources are keys
        g = defaultdict(set)
        for i in range(n):
            for j in range(n):
                if (adj[i] >> j) & 1:
                    g[i].add(j)
        return g
    return {i: {j for j in range(n) if (adj[i] >> j) & 1} for i in range(n)}


def _paths_chunk(args):
    from pint.util import find_shortest_path as fsp

    n, lo, hi, variant = args
    loops = variant == "loops"
    # shared neighbour sets per (node, mask): find_shortest_path must not mutate its input, and if it
    # did, later graphs of the chunk would disagree with the oracle
    setcache = {}
    evals = nontriv = 0
    viol = []
    first = None
    pairs = [(s, e) for s in range(n) for e in range(n)]
    for code in range(lo, hi):
        adj = _decode(n, code, loops)
        if variant == "dd":
            g = _build_graph(n, adj, "dd")
        else:
            g = {}
            for i in range(n):
                m = adj[i]
                st = setcache.get(m)
                if st is None:
                    st = setcache[m] = {j for j in range(n) if (m >> j) & 1}
                g[i] = st
        dist = _oracle_dist(n, adj)
        for s, e in pairs:
            d = dist[s][e]
            p = fsp(g, s, e)
            evals += 1
            if d >= 2:
                nontriv += 1
            # fast accept, then the detailed check
            if d < 0:
                if p is None:
                    continue
            elif p is not None and len(p) == d + 1:
                ok = p[0] == s and p[-1] == e
                if ok:
                    for k in range(d):
                        if not (adj[p[k]] >> p[k + 1]) & 1:
                            ok = False
                            break
                if ok:
                    continue
            what = _check_path(p, s, e, d, adj) or "inconsistent fast/slow check"
            viol.append(
                {
                    "case": f"path:{variant}:n{n}:g{code}:{s}->{e}",
                    "what": what,
                    "part": "path",
                    "n": n,
                    "code": code,
                    "variant": variant,
                    "start": s,
                    "end": e,
                }
            )
        if first is None and code == lo:
            first = {"n": n, "variant": variant, "adjacency": {i: sorted(g[i]) for i in list(g)},
                     "query": [0, n - 1], "result": fsp(g, 0, n - 1), "oracle_distance": dist[0][n - 1]}
    # input graphs must not have been modified
    for m, st in setcache.items():
        if st != {j for j in range(n) if (m >> j) & 1}:
            viol.append({"case": f"path:{variant}:n{n}:mutated-input", "what": "find_shortest_path modified a neighbour set",
                         "part": "path", "n": n, "code": lo, "variant": variant, "start": 0, "end": 0})
    return evals, nontriv, viol, first


def _path_jobs(tier):
    nmax = 4 if tier == "quick" else 5
    lmax = 3 if tier == "quick" else 4
    jobs = []
    for n in range(1, nmax + 1):
        total = 1 << (n * (n - 1))
        step = 4096
        for lo in range(0, total, step):
            jobs.append((n, lo, min(total, lo + step), "plain"))
    for n in range(1, lmax + 1):
        total = 1 << (n * n)
        for lo in range(0, total, 4096):
            jobs.append((n, lo, min(total, lo + 4096), "loops"))
    for n in range(1, 5):
        total = 1 << (n * (n - 1))
        jobs.append((n, 0, total, "dd"))
    return jobs, nmax, lmax


def _string_node_pass():
    """The same property with hashable non-int nodes (UnitsContainer, as in ContextChain.graph), n = 3 with loops."""
    from pint.util import UnitsContainer, find_shortest_path as fsp

    nodes = [UnitsContainer({"[length]": 1}), UnitsContainer({"[time]": -1}), UnitsContainer({"[length]": 1, "[time]": -1})]
    evals = 0
    viol = []
    for code in range(1 << 9):
        adj = _decode(3, code, True)
        dist = _oracle_dist(3, adj)
        g = {nodes[i]: {nodes[j] for j in range(3) if (adj[i] >> j) & 1} for i in range(3)}
        for s in range(3):
            for e in range(3):
                p = fsp(g, nodes[s], nodes[e])
                evals += 1
                pi = None if p is None else [nodes.index(x) for x in p]
                w = _check_path(pi, s, e, dist[s][e], adj)
                if w:
                    viol.append({"case": f"path:uc:n3:g{code}:{s}->{e}", "what": w, "part": "path", "n": 3,
                                 "code": code, "variant": "uc", "start": s, "end": e})
    return evals, viol


def _path_sample():
    from pint.util import find_shortest_path as fsp

    adj = [0b0110, 0b1000, 0b1010, 0b0001]  # 0->1,2 ; 1->3 ; 2->1,3 ; 3->0
    g = _build_graph(4, adj, "plain")
    return {"graph": {k: sorted(v) for k, v in g.items()}, "query": [1, 2], "find_shortest_path": fsp(g, 1, 2),
            "oracle_distance": _oracle_dist(4, adj)[1][2]}


def _replay_path(data):
    from pint.util import UnitsContainer, find_shortest_path as fsp

    n, code, variant = data["n"], data["code"], data["variant"]
    if "mutated-input" in data["case"]:
        ev, nt, viol, _ = _paths_chunk((n, code, code + 4096, variant))
        return not viol
    adj = _decode(n, code, variant in ("loops", "uc"))
    dist = _oracle_dist(n, adj)
    s, e = data["start"], data["end"]
    if variant == "uc":
        nodes = [UnitsContainer({"[length]": 1}), UnitsContainer({"[time]": -1}), UnitsContainer({"[length]": 1, "[time]": -1})]
        g = {nodes[i]: {nodes[j] for j in range(3) if (adj[i] >> j) & 1} for i in range(3)}
        p = fsp(g, nodes[s], nodes[e])
        p = None if p is None else [nodes.index(x) for x in p]
    else:
        g = _build_graph(n, adj, variant)
        p = fsp(g, s, e)
    return _check_path(p, s, e, dist[s][e], adj) is None


# ======================================================================================================
# Part 2: bundled contexts, hand-written physics
# ======================================================================================================
# Constants transcribed by hand (SI 2019 exact values; R_inf and m_e are the CODATA 2022 measured values,
# from which the fine-structure constant, eps0, mu0 and the Coulomb constant follow).
PI = math.pi
C0 = 299792458.0
HP = 6.62607015e-34
QE = 1.602176634e-19
KB = 1.380649e-23
NA = 6.02214076e23
RINF = 1.0973731568157e7
ME = 9.1093837139e-31
ALPHA = math.sqrt(2 * HP * RINF / (ME * C0))
EPS0 = QE**2 / (2 * ALPHA * HP * C0)
MU0 = 2 * ALPHA * HP / (QE**2 * C0)
KC = 1 / (4 * PI * EPS0)

# value of ONE unit in the coherent SI unit of its dimension (for the Gaussian/ESU units: in
# kg^b m^a s^c with half-integer exponents, i.e. 10**(-2a-3b)); written by hand.
U = {
    # length
    "meter": 1.0, "nanometer": 1e-9, "angstrom": 1e-10, "inch": 0.0254, "kilometer": 1e3, "centimeter": 1e-2,
    # 1/time
    "hertz": 1.0, "terahertz": 1e12, "gigahertz": 1e9, "1/second": 1.0, "1/minute": 1 / 60.0,
    # energy
    "joule": 1.0, "electron_volt": QE, "erg": 1e-7, "kilocalorie": 4184.0, "kilowatt_hour": 3.6e6,
    # 1/length
    "1/centimeter": 100.0, "1/meter": 1.0, "kayser": 100.0, "1/micrometer": 1e6,
    # temperature (multiplicative units only)
    "kelvin": 1.0, "degree_Rankine": 5.0 / 9.0, "millikelvin": 1e-3,
    # energy / substance
    "joule/mole": 1.0, "kilojoule/mole": 1e3, "kilocalorie/mole": 4184.0,
    # mass
    "kilogram": 1.0, "gram": 1e-3, "pound": 0.45359237, "milligram": 1e-6,
    # substance
    "mole": 1.0, "millimole": 1e-3,
    # substance / volume ; mass / volume
    "mole/liter": 1e3, "mole/meter**3": 1.0, "molar": 1e3, "millimole/milliliter": 1e3,
    "gram/liter": 1.0, "kilogram/meter**3": 1.0, "gram/centimeter**3": 1e3,
    # substance / mass ; mass / mass
    "mole/kilogram": 1.0, "millimole/gram": 1.0, "mole/pound": 1 / 0.45359237,
    "dimensionless": 1.0, "percent": 0.01, "gram/kilogram": 1e-3, "ppm": 1e-6,
    # mass / length ; length / mass
    "tex": 1e-6, "denier": 1e-6 / 9.0, "kilogram/meter": 1.0, "gram/meter": 1e-3,
    "number_meter": 1e3, "number_english": 840 * 0.9144 / 0.45359237, "meter/kilogram": 1.0,
    # SI electromagnetic (coherent and prefixed)
    "coulomb": 1.0, "millicoulomb": 1e-3, "ampere": 1.0, "milliampere": 1e-3, "volt": 1.0, "kilovolt": 1e3,
    "volt/meter": 1.0, "volt/centimeter": 100.0, "coulomb/meter**2": 1.0, "coulomb*meter": 1.0, "coulomb*meter**2": 1.0,
    "tesla": 1.0, "millitesla": 1e-3, "weber": 1.0, "ampere/meter": 1.0, "joule/tesla": 1.0, "ampere*meter**2": 1.0,
    "ohm": 1.0, "kiloohm": 1e3, "ohm*meter": 1.0, "farad": 1.0, "picofarad": 1e-12, "henry": 1.0, "millihenry": 1e-3,
    "siemens": 1.0,
    # Gaussian
    "franklin": 10**-4.5, "statcoulomb": 10**-4.5, "statampere": 10**-4.5, "statvolt": 10**-2.5, "statvolt/centimeter": 10**-0.5,
    "franklin/centimeter**2": 10**-0.5, "franklin*centimeter": 10**-6.5, "franklin*centimeter**2": 10**-8.5,
    "gauss": 10**-0.5, "maxwell": 10**-4.5, "oersted": 10**-0.5, "erg/gauss": 10**-6.5,
    "statohm": 1e2, "statohm*centimeter": 1.0, "statfarad": 1e-2, "stathenry": 1e2, "statmho": 1e-2,
    # ESU
    "stattesla": 10**1.5, "statweber": 10**-2.5, "statampere/centimeter": 10**-2.5, "statampere*centimeter**2": 10**-8.5,
    "second": 1.0, "millisecond": 1e-3,
}

# Chemistry parameters: (magnitude, unit, value in coherent SI)
MW = (18.01528, "gram/mole", 18.01528e-3)
VOL = (2.0, "liter", 2e-3)
SOLV = (0.75, "kilogram", 0.75)
CHEMKW = {"mw": MW, "volume": VOL, "solvent_mass": SOLV}


def _rules_table():
    """(label, contexts, kwargs spec, src units, dst units, formula on coherent SI numbers, hops)."""
    T = []

    def add(label, ctxs, kw, srcs, dsts, f, hops=1):
        T.append((label, tuple(ctxs), kw, tuple(srcs), tuple(dsts), f, hops))

    LEN = ["meter", "nanometer", "angstrom", "inch"]
    FRQ = ["hertz", "terahertz", "1/second"]
    ENE = ["joule", "electron_volt", "erg", "kilocalorie"]
    WN = ["1/centimeter", "1/meter", "kayser"]
    TEMP = ["kelvin", "degree_Rankine", "millikelvin"]
    EPS = ["joule/mole", "kilojoule/mole", "kilocalorie/mole"]
    MASS = ["kilogram", "gram", "pound"]
    for n, names in ((1.0, ("spectroscopy",)), (1.0, ("sp",)), (1.5, ("sp",))):
        kw = {} if n == 1.0 else {"n": (n, None, n)}
        tag = f"sp[n={n:g},{names[0]}]"
        add(tag + " length->frequency", names, kw, LEN, FRQ, lambda x, n=n: C0 / n / x)
        add(tag + " frequency->length", names, kw, FRQ, LEN, lambda x, n=n: C0 / n / x)
        add(tag + " frequency->energy", names, kw, FRQ, ENE, lambda x: HP * x)
        add(tag + " energy->frequency", names, kw, ENE, FRQ, lambda x: x / HP)
        add(tag + " wavenumber->length", names, kw, WN, LEN, lambda x: 1 / x)
        add(tag + " length->wavenumber", names, kw, LEN, WN, lambda x: 1 / x)
        # chains
        add(tag + " length->energy (2 rules)", names, kw, LEN, ENE, lambda x, n=n: HP * (C0 / n / x), 2)
        add(tag + " energy->length (2 rules)", names, kw, ENE, LEN, lambda x, n=n: C0 / n / (x / HP), 2)
        add(tag + " wavenumber->frequency (2 rules)", names, kw, WN, FRQ, lambda x, n=n: C0 / n / (1 / x), 2)
        add(tag + " frequency->wavenumber (2 rules)", names, kw, FRQ, WN, lambda x, n=n: 1 / (C0 / n / x), 2)
        add(tag + " wavenumber->energy (3 rules)", names, kw, WN, ENE, lambda x, n=n: HP * (C0 / n / (1 / x)), 3)
        add(tag + " energy->wavenumber (3 rules)", names, kw, ENE, WN, lambda x, n=n: 1 / (C0 / n / (x / HP)), 3)
    add("boltzmann temperature->energy", ("boltzmann",), {}, TEMP, ENE, lambda x: KB * x)
    add("boltzmann energy->temperature", ("boltzmann",), {}, ENE, TEMP, lambda x: x / KB)
    add("boltzmann+sp temperature->frequency (2 rules, 2 contexts)", ("boltzmann", "sp"), {}, TEMP, FRQ, lambda x: KB * x / HP, 2)
    add("sp+boltzmann frequency->temperature (2 rules, 2 contexts)", ("sp", "boltzmann"), {}, FRQ, TEMP, lambda x: HP * x / KB, 2)
    add("boltzmann+sp temperature->length (3 rules)", ("boltzmann", "sp"), {"n": (1.25, None, 1.25)}, TEMP, LEN,
        lambda x: C0 / 1.25 / (KB * x / HP), 3)
    add("boltzmann+sp wavenumber->temperature (4 rules)", ("boltzmann", "sp"), {}, WN, TEMP, lambda x: HP * (C0 / (1 / x)) / KB, 4)
    add("energy energy->energy/substance", ("energy",), {}, ENE, EPS, lambda x: x * NA)
    add("energy energy/substance->energy", ("energy",), {}, EPS, ENE, lambda x: x / NA)
    add("energy energy->mass", ("energy",), {}, ENE, MASS, lambda x: x / C0**2)
    add("energy mass->energy", ("energy",), {}, MASS, ENE, lambda x: x * C0**2)
    add("energy mass->energy/substance (2 rules)", ("energy",), {}, MASS, EPS, lambda x: x * C0**2 * NA, 2)
    add("energy energy/substance->mass (2 rules)", ("energy",), {}, EPS, MASS, lambda x: x / NA / C0**2, 2)
    add("energy+boltzmann temperature->mass (2 rules, 2 contexts)", ("energy", "boltzmann"), {}, TEMP, MASS, lambda x: KB * x / C0**2, 2)
    add("energy+sp frequency->mass (2 rules, 2 contexts)", ("energy", "sp"), {}, FRQ, MASS, lambda x: HP * x / C0**2, 2)
    add("energy+sp length->energy/substance (3 rules)", ("sp", "energy"), {}, LEN, EPS, lambda x: HP * (C0 / x) * NA, 3)
    # chemistry
    SUB = ["mole", "millimole"]
    SV = ["mole/liter", "mole/meter**3", "molar"]
    MV = ["gram/liter", "kilogram/meter**3", "gram/centimeter**3"]
    SM = ["mole/kilogram", "millimole/gram", "mole/pound"]
    MM = ["dimensionless", "percent", "gram/kilogram"]
    mw, vol, sm = MW[2], VOL[2], SOLV[2]
    for names in (("chemistry",), ("chem",)):
        t = f"chem[{names[0]}]"
        add(t + " substance->mass", names, CHEMKW, SUB, MASS, lambda x: x * mw)
        add(t + " mass->substance", names, CHEMKW, MASS, SUB, lambda x: x / mw)
        add(t + " substance/volume->mass/volume", names, CHEMKW, SV, MV, lambda x: x * mw)
        add(t + " mass/volume->substance/volume", names, CHEMKW, MV, SV, lambda x: x / mw)
        add(t + " substance/mass->mass/mass", names, CHEMKW, SM, MM, lambda x: x * mw)
        add(t + " mass/mass->substance/mass", names, CHEMKW, MM, SM, lambda x: x / mw)
        add(t + " substance/volume->substance", names, CHEMKW, SV, SUB, lambda x: x * vol)
        add(t + " substance->substance/volume", names, CHEMKW, SUB, SV, lambda x: x / vol)
        add(t + " substance/mass->substance", names, CHEMKW, SM, SUB, lambda x: x * sm)
        add(t + " substance->substance/mass", names, CHEMKW, SUB, SM, lambda x: x / sm)
        add(t + " substance/mass->substance/volume", names, CHEMKW, SM, SV, lambda x: x * sm / vol)
        add(t + " substance/volume->substance/mass", names, CHEMKW, SV, SM, lambda x: x / sm * vol)
    add("chem mass->substance/volume (2 rules)", ("chem",), CHEMKW, MASS, SV, lambda x: x / mw / vol, 2)
    add("chem mass/volume->substance (2 rules)", ("chem",), CHEMKW, MV, SUB, lambda x: x / mw * vol, 2)
    add("chem mass/volume->substance/mass (2 rules)", ("chem",), CHEMKW, MV, SM, lambda x: x / mw / sm * vol, 2)
    add("chem mass/mass->substance (2 rules)", ("chem",), CHEMKW, MM, SUB, lambda x: x / mw * sm, 2)
    add("chem mass/volume->mass (3 rules)", ("chem",), CHEMKW, MV, MASS, lambda x: x / mw * vol * mw, 3)
    # textile
    ML = ["tex", "denier", "kilogram/meter", "gram/meter"]
    LM = ["number_meter", "number_english", "meter/kilogram"]
    add("textile mass/length->length/mass", ("textile",), {}, ML, LM, lambda x: 1 / x)
    add("textile length/mass->mass/length", ("textile",), {}, LM, ML, lambda x: 1 / x)
    # Gaussian (16 pairs); g = Gaussian-side units, s = SI-side units, f: gaussian -> SI
    k4e = math.sqrt(4 * PI / EPS0)
    k4m = math.sqrt(4 * PI / MU0)
    k4mm = math.sqrt(4 * PI * MU0)
    rk = math.sqrt(KC)
    G = [
        ("charge", ["franklin", "statcoulomb"], ["coulomb", "millicoulomb"], lambda x: x / rk, lambda x: x * rk),
        ("current", ["statampere"], ["ampere", "milliampere"], lambda x: x / rk, lambda x: x * rk),
        ("electric_potential", ["statvolt"], ["volt", "kilovolt"], lambda x: x * rk, lambda x: x / rk),
        ("electric_field", ["statvolt/centimeter"], ["volt/meter", "volt/centimeter"], lambda x: x * rk, lambda x: x / rk),
        ("electric_displacement_field", ["franklin/centimeter**2"], ["coulomb/meter**2"], lambda x: x / k4e, lambda x: x * k4e),
        ("electric_dipole", ["franklin*centimeter"], ["coulomb*meter"], lambda x: x / rk, lambda x: x * rk),
        ("electric_quadrupole", ["franklin*centimeter**2"], ["coulomb*meter**2"], lambda x: x / rk, lambda x: x * rk),
        ("magnetic_field", ["gauss"], ["tesla", "millitesla"], lambda x: x / k4m, lambda x: x * k4m),
        ("magnetic_flux", ["maxwell"], ["weber"], lambda x: x / k4m, lambda x: x * k4m),
        ("magnetic_field_strength", ["oersted"], ["ampere/meter"], lambda x: x / k4mm, lambda x: x * k4mm),
        ("magnetic_dipole", ["erg/gauss"], ["joule/tesla", "ampere*meter**2"], lambda x: x * k4m, lambda x: x / k4m),
        ("resistance", ["statohm"], ["ohm", "kiloohm"], lambda x: x * KC, lambda x: x / KC),
        ("resistivity", ["statohm*centimeter", "second"], ["ohm*meter"], lambda x: x * KC, lambda x: x / KC),
        ("capacitance", ["statfarad", "centimeter"], ["farad", "picofarad"], lambda x: x / KC, lambda x: x * KC),
        ("inductance", ["stathenry"], ["henry", "millihenry"], lambda x: x * KC, lambda x: x / KC),
        ("conductance", ["statmho"], ["siemens"], lambda x: x / KC, lambda x: x * KC),
    ]
    for i, (nm, gu, su, fwd, back) in enumerate(G):
        names = ("Gaussian",) if i % 2 == 0 else ("Gau",)
        add(f"Gaussian gaussian_{nm}->{nm}", names, {}, gu, su, fwd)
        add(f"Gaussian {nm}->gaussian_{nm}", names, {}, su, gu, back)
    # chain through the shared Gaussian dimensionality M^.5 L^-.5 T^-1: E (V/m) -> gaussian -> B (T): E sqrt(eps0 mu0)
    add("Gaussian electric_field->magnetic_field (2 rules)", ("Gau",), {}, ["volt/meter"], ["tesla", "millitesla"],
        lambda x: x / rk / k4m, 2)
    E = [
        ("magnetic_field", ["stattesla"], ["tesla", "millitesla"], lambda x: x * rk, lambda x: x / rk),
        ("magnetic_flux", ["statweber"], ["weber"], lambda x: x * rk, lambda x: x / rk),
        ("magnetic_field_strength", ["statampere/centimeter"], ["ampere/meter"], lambda x: x / k4e, lambda x: x * k4e),
        ("magnetic_dipole", ["statampere*centimeter**2"], ["joule/tesla"], lambda x: x / rk, lambda x: x * rk),
    ]
    for i, (nm, gu, su, fwd, back) in enumerate(E):
        names = ("ESU",) if i % 2 == 0 else ("esu",)
        add(f"ESU esu_{nm}->{nm}", names, {}, gu, su, fwd)
        add(f"ESU {nm}->esu_{nm}", names, {}, su, gu, back)
    return T


_UREG = None
_BUNDLED_NAMES = []


def _ureg():
    """One default registry per process, with the custom unit chain used by part 3."""
    global _UREG
    if _UREG is None:
        import pint

        u = pint.UnitRegistry()
        _BUNDLED_NAMES[:] = sorted({c.name for c in u._contexts.values()})
        u.define("zza = 3 * meter")
        u.define("zzb = 2 * zza")
        u.define("zzc = 5 * zzb")
        for nm in ("xp", "xq", "xr"):
            assert nm not in u, "parameter name collides with a unit"
        _UREG = u
    return _UREG


def _close(a, b, rtol=RTOL):
    if isinstance(a, complex) or isinstance(b, complex):
        return False
    if a != a or b != b:
        return False
    return abs(a - b) <= rtol * max(abs(a), abs(b)) or (a == b)


def _mk_kwargs(u, spec):
    kw = {}
    for k, (mag, unit, _si) in spec.items():
        kw[k] = mag if unit is None else u.Quantity(mag, unit)
    return kw


def _bundled_one(u, row_index, value, su, du, form=0, table=None):
    """Evaluate one bundled case -> (observed repr, expected float, ok)."""
    import pint

    table = table or _rules_table()
    label, ctxs, kw, srcs, dsts, f, hops = table[row_index]
    expected = f(value * U[su]) / U[du]
    kwargs = _mk_kwargs(u, kw)
    q = u.Quantity(value, su)
    try:
        if form == 0:
            got = q.to(du, *ctxs, **kwargs).magnitude
        elif form == 1:
            with u.context(*ctxs, **kwargs):
                got = q.to(du).magnitude
        else:
            u.enable_contexts(*ctxs, **kwargs)
            try:
                got = u.convert(value, su, du)
            finally:
                u.disable_contexts(len(ctxs))
    except (pint.errors.PintError, ValueError, KeyError, TypeError, ZeroDivisionError) as exc:
        return f"{type(exc).__name__}: {exc}"[:200], expected, False
    ok = isinstance(got, (int, float)) and _close(float(got), expected)
    return (float(got) if isinstance(got, (int, float)) else repr(got)), expected, ok


def _run_bundled(tier, seed):
    u = _ureg()
    table = _rules_table()
    rnd = random.Random(seed * 7919 + 11)
    nvals = 3 if tier == "quick" else 10
    evals = nontriv = 0
    viol = []
    samples = []
    covered = defaultdict(set)
    for ri, (label, ctxs, kw, srcs, dsts, f, hops) in enumerate(table):
        values = [1.0, 2.5] + [round(10 ** rnd.uniform(-3, 4), 6) for _ in range(nvals - 2)]
        k = 0
        for su in srcs:
            for du in dsts:
                for v in values:
                    form = k % 3
                    k += 1
                    got, exp, ok = _bundled_one(u, ri, v, su, du, form, table)
                    evals += 1
                    if hops >= 2:
                        nontriv += 1
                    if not ok:
                        viol.append({"case": f"bundled:{label}:{su}->{du}:{v!r}", "what": f"{v} {su} -> {du} with {ctxs}: got {got!r}, hand formula gives {exp!r}",
                                     "part": "bundled", "row": ri, "label": label, "value": v, "src": su, "dst": du, "form": form})
                    elif len(samples) < 2 and hops >= 2 and k == 1:
                        samples.append({"bundled": label, "input": f"{v} {su}", "target": du, "pint": got, "hand": exp})
        if hops == 1:
            for c in ctxs:
                ctxobj = u._contexts[c]
                sd = u.get_dimensionality(u.Quantity(1, srcs[0]).units)
                dd = u.get_dimensionality(u.Quantity(1, dsts[0]).units)
                covered[ctxobj.name].add((frozenset(sd.items()), frozenset(dd.items())))
    # coverage accounting: every declared rule of every bundled context has a row (not an oracle)
    uncovered = []
    for name in _BUNDLED_NAMES:
        ctx = u._contexts[name]
        for (s, d) in ctx.funcs:
            s_ = u.get_dimensionality(s)
            d_ = u.get_dimensionality(d)
            if (frozenset(s_.items()), frozenset(d_.items())) not in covered[name]:
                uncovered.append(f"{name}: {dict(s)} -> {dict(d)}")
    return evals, nontriv, viol, samples, uncovered, len(table)


def _replay_bundled(data):
    u = _ureg()
    table = _rules_table()
    ri = data["row"]
    if table[ri][0] != data["label"]:
        ri = [i for i, r in enumerate(table) if r[0] == data["label"]][0]
    return _bundled_one(u, ri, data["value"], data["src"], data["dst"], data.get("form", 0), table)[2]


# ======================================================================================================
# Part 3: generated contexts against a reference stack model
# ======================================================================================================
# dimension nodes: key -> (spellings usable in a rule, coherent SI unit expression, {unit: SI value})
NODES = {
    "L": (["[length]"], "meter", {"meter": 1.0, "kilometer": 1e3, "inch": 0.0254}),
    "T": (["[time]"], "second", {"second": 1.0, "minute": 60.0, "millisecond": 1e-3}),
    "M": (["[mass]"], "kilogram", {"kilogram": 1.0, "gram": 1e-3, "pound": 0.45359237}),
    "I": (["[current]"], "ampere", {"ampere": 1.0, "milliampere": 1e-3}),
    "V": (["[speed]", "[velocity]", "[length] / [time]"], "meter/second", {"meter/second": 1.0, "kilometer/hour": 1 / 3.6, "knot": 1852 / 3600.0}),
    "F": (["[frequency]", "1 / [time]"], "hertz", {"hertz": 1.0, "kilohertz": 1e3, "1/minute": 1 / 60.0}),
    "A": (["[area]", "[length] ** 2"], "meter**2", {"meter**2": 1.0, "hectare": 1e4, "inch**2": 0.0254**2}),
}
NKEYS = list(NODES)
PARAMS = ("xp", "xq", "xr")
ZZ_DEFAULT = {"zza": ("meter", 3.0), "zzb": ("zza", 2.0), "zzc": ("zzb", 5.0)}
FORMS = ("enable", "with", "call", "decorator", "mixed")
HOW = ("name", "alias", "object")


def _gen_world(w, seed):
    """Deterministic description (plain data) of a world of 5 contexts with overlapping rules."""
    rnd = random.Random(f"c11-world-{seed}-{w}")
    ctxs = []
    # a small set of 'hot' edges shared by several contexts so that collisions are frequent
    all_edges = [(a, b) for a in NKEYS for b in NKEYS if a != b]
    hot = rnd.sample(all_edges, 6)
    for i in range(5):
        nrules = rnd.randint(1, 4)
        edges = []
        while len(edges) < nrules:
            e = rnd.choice(hot) if rnd.random() < 0.6 else rnd.choice(all_edges)
            if e not in edges:
                edges.append(e)
        rules = []
        used = set()
        for (a, b) in edges:
            par = rnd.choice(PARAMS + (None,))
            if par:
                used.add(par)
            rules.append({
                "src": a, "dst": b,
                "src_spelling": rnd.choice(NODES[a][0]), "dst_spelling": rnd.choice(NODES[b][0]),
                "coef": rnd.choice([2.0, 3.0, 0.5, 7.0, 1.25, 11.0]),
                "sign": rnd.choice([1, 1, -1]),
                "param": par,
                "python": rnd.random() < 0.3,
            })
        if rnd.random() < 0.25:  # a same-dimension rule must never be applied
            a = rnd.choice(NKEYS)
            rules.append({"src": a, "dst": a, "src_spelling": NODES[a][0][0], "dst_spelling": NODES[a][0][-1],
                          "coef": 1000.0, "sign": 1, "param": None, "python": False})
        defaults = {p: rnd.choice([2.0, 3.0, 5.0]) for p in sorted(used)}
        # sometimes declare a default for a parameter the context does not use itself: it is then
        # inherited by contexts entered inside it
        redefs = []
        if rnd.random() < 0.4:
            nm = rnd.choice(["zza", "zzb"])
            redefs.append((nm, ZZ_DEFAULT[nm][0], rnd.choice([7.0, 0.5, 4.0])))
            if rnd.random() < 0.3:
                redefs.append(("zzb" if nm == "zza" else "zza", ZZ_DEFAULT["zzb" if nm == "zza" else "zza"][0], rnd.choice([9.0, 0.25])))
        ctxs.append({"name": f"w{seed}x{w}g{i}", "alias": f"w{seed}x{w}a{i}", "defaults": defaults, "rules": rules, "redefs": redefs})
    return ctxs


def _equation(rule):
    su, du = NODES[rule["src"]][1], NODES[rule["dst"]][1]
    p = f" * {rule['param']}" if rule["param"] else ""
    if rule["sign"] == 1:
        return f"value * {rule['coef']!r}{p} * (({du}) / ({su}))"
    return f"{rule['coef']!r}{p} * (({du}) * ({su})) / value"


def _pyfunc(rule):
    su, du = NODES[rule["src"]][1], NODES[rule["dst"]][1]
    coef, sign, par = rule["coef"], rule["sign"], rule["param"]

    def func(ureg, value, **kw):
        x = value.to(su).magnitude
        r = coef * (x if sign == 1 else 1 / x)
        if par:
            r *= kw[par]
        return ureg.Quantity(r, du)

    return func


def _build_context(u, desc):
    """Build the real pint Context for a description (not yet normalised: spellings are as written)."""
    from pint import Context

    head = "@context"
    # the definition parser refuses declared parameters that no equation mentions: those used only by
    # python-function rules are added to `defaults` afterwards
    in_eq = {r["param"] for r in desc["rules"] if r["param"] and not r["python"]}
    if in_eq:
        head += "(" + ",".join(f"{k}={v!r}" for k, v in desc["defaults"].items() if k in in_eq) + ")"
    head += f" {desc['name']} = {desc['alias']}"
    lines = [head]
    for r in desc["rules"]:
        if not r["python"]:
            lines.append(f"{r['src_spelling']} -> {r['dst_spelling']}: {_equation(r)}")
    for (nm, ref, fac) in desc["redefs"]:
        lines.append(f"{nm} = {fac!r} * {ref}")
    ctx = Context.from_lines(lines)
    for k, v in desc["defaults"].items():
        ctx.defaults.setdefault(k, v)
    for r in desc["rules"]:
        if r["python"]:
            ctx.add_transformation(r["src_spelling"], r["dst_spelling"], _pyfunc(r))
    return ctx


class _Active:
    __slots__ = ("desc", "eff")

    def __init__(self, desc, eff):
        self.desc, self.eff = desc, eff


class Model:
    """Reference semantics of a stack of active contexts, written from the property statement."""

    def __init__(self):
        self.stack = []  # oldest first

    def activate(self, descs, kw):
        enclosing = dict(self.stack[-1].eff) if self.stack else {}
        for d in descs:  # the last one of a single call is the most recent
            eff = dict(d["defaults"])
            eff.update(enclosing)
            eff.update(kw)
            self.stack.append(_Active(d, eff))

    def deactivate(self, n):
        if n:
            del self.stack[-n:]

    def rule_for(self, a, b):
        for act in reversed(self.stack):  # most recently enabled first
            for r in act.desc["rules"]:
                if r["src"] == a and r["dst"] == b:
                    return r, act.eff
        return None

    def edges(self):
        g = {k: set() for k in NKEYS}
        for act in self.stack:
            for r in act.desc["rules"]:
                if r["src"] != r["dst"]:
                    g[r["src"]].add(r["dst"])
        return g

    def shortest_paths(self, a, b):
        """All shortest chains a -> b (list of node lists); [] when unreachable."""
        if a == b:
            return [[a]]
        g = self.edges()
        dist = {a: 0}
        order = [a]
        for x in order:
            for y in sorted(g[x]):
                if y not in dist:
                    dist[y] = dist[x] + 1
                    order.append(y)
        if b not in dist:
            return []
        out = []

        def back(node, tail):
            if node == a:
                out.append([a] + tail)
                return
            for x in NKEYS:
                if x in dist and dist[x] == dist[node] - 1 and node in g[x]:
                    back(x, [node] + tail)

        back(b, [])
        return out

    def zz(self):
        """SI value of zza, zzb, zzc under the redefinitions of the active stack (most recent wins)."""
        d = dict(ZZ_DEFAULT)
        for act in self.stack:
            for (nm, ref, fac) in act.desc["redefs"]:
                d[nm] = (ref, fac)
        val = {"meter": 1.0}
        for nm in ("zza", "zzb", "zzc"):
            ref, fac = d[nm]
            val[nm] = fac * val[ref]
        return val

    def unit_value(self, node, unit):
        if unit in ("zza", "zzb", "zzc"):
            return self.zz()[unit]
        return NODES[node][2][unit]

    def expected(self, a, ua, b, ub, value):
        """-> sorted list of acceptable magnitudes (one per shortest chain); [] = DimensionalityError."""
        x0 = value * self.unit_value(a, ua)
        outs = []
        for path in self.shortest_paths(a, b):
            x = x0
            for s, d in zip(path, path[1:]):
                r, eff = self.rule_for(s, d)
                x = r["coef"] * (x if r["sign"] == 1 else 1 / x)
                if r["param"]:
                    x *= eff[r["param"]]
            outs.append(x / self.unit_value(b, ub))
        return outs


def _plan_for_stack(world, idxs, rnd):
    """How a stack is activated: per level (how-to-name, kwargs), and the activation form."""
    levels = []
    for i in idxs:
        kw = {}
        if rnd.random() < 0.45:
            for p in PARAMS:
                if rnd.random() < 0.4:
                    kw[p] = rnd.choice([1.5, 4.0, 6.0, 10.0])
        levels.append({"ctx": i, "how": rnd.choice(HOW), "kw": kw})
    return {"levels": levels, "form": rnd.choice(FORMS), "joint": len(idxs) >= 2 and rnd.random() < 0.25}


def _probe(u, src_v, ua, ub, extra=(), extra_kw=None):
    import pint

    try:
        got = u.Quantity(src_v, ua).to(ub, *extra, **(extra_kw or {})).magnitude
        return ("ok", float(got))
    except pint.DimensionalityError:
        return ("dimerr", None)
    except (pint.errors.PintError, ValueError, KeyError, TypeError, ZeroDivisionError, AttributeError) as exc:
        return ("err", f"{type(exc).__name__}: {exc}"[:160])


def _pairs_for(rnd_pairs):
    """All 49 ordered node pairs with a deterministic choice of units; L sometimes uses the custom chain."""
    out = []
    for a in NKEYS:
        for b in NKEYS:
            ua = rnd_pairs.choice(list(NODES[a][2]) + (["zzc", "zzb"] if a == "L" else []))
            ub = rnd_pairs.choice([x for x in list(NODES[b][2]) + (["zza"] if b == "L" else []) if x != ua] or [ua])
            out.append((a, ua, b, ub))
    return out


def _run_stack(u, world_descs, world_ctxs, plan, pairs, value):
    """Execute one stack on the real registry under its activation plan; compare all pairs with the model.
    Returns (evaluations, nontrivial, list of (pair, observed, acceptable, kind))."""
    levels = plan["levels"]
    form = plan["form"]
    model = Model()

    def ref(lv):
        i = lv["ctx"]
        return {"name": world_descs[i]["name"], "alias": world_descs[i]["alias"], "object": world_ctxs[i]}[lv["how"]]

    # groups of levels activated by a single call (jointly activated levels share the kwargs of the call)
    if plan["joint"]:
        groups = [levels[:2]] + [[lv] for lv in levels[2:]]
    else:
        groups = [[lv] for lv in levels]
    calls = []
    for g in groups:
        kw = {}
        for lv in g:
            kw.update(lv["kw"])
        calls.append(([ref(lv) for lv in g], [world_descs[lv["ctx"]] for lv in g], kw))
    for (_, descs, kw) in calls:
        model.activate(descs, kw)

    results = []

    def battery(extra=(), extra_kw=None):
        for (a, ua, b, ub) in pairs:
            obs = _probe(u, value, ua, ub, extra, extra_kw)
            comp = _compat(u, value, ua, ub, extra, extra_kw)
            results.append(((a, ua, b, ub), obs, comp))

    if form == "call" or (form == "mixed" and len(calls) == 1):
        # everything but the last call is enabled around, the last call's contexts are passed to to()
        outer, last = calls[:-1], calls[-1]
        n = 0
        try:
            for (refs, _, kw) in outer:
                u.enable_contexts(*refs, **kw)
                n += len(refs)
            battery(tuple(last[0]), last[2])
        finally:
            u.disable_contexts(n) if n else None
    elif form == "enable":
        n = 0
        try:
            for (refs, _, kw) in calls:
                u.enable_contexts(*refs, **kw)
                n += len(refs)
            battery()
        finally:
            u.disable_contexts(n) if n else None
    elif form == "with":
        def nest(k):
            if k == len(calls):
                battery()
                return
            with u.context(*calls[k][0], **calls[k][2]):
                nest(k + 1)
        nest(0)
    elif form == "decorator":
        # with_context takes one context: outer calls use with-blocks, a single innermost one the decorator
        def inner():
            battery()
        fn = inner
        for (refs, _, kw) in reversed(calls):
            if len(refs) == 1:
                fn = u.with_context(refs[0], **kw)(fn)
            else:
                def mk(f, refs=refs, kw=kw):
                    def g():
                        with u.context(*refs, **kw):
                            return f()
                    return g
                fn = mk(fn)
        fn()
    else:  # mixed: enable, then with, then decorator
        (r0, _, k0) = calls[0]
        u.enable_contexts(*r0, **k0)
        try:
            def rest(k):
                if k == len(calls):
                    battery()
                    return
                with u.context(*calls[k][0], **calls[k][2]):
                    rest(k + 1)
            rest(1)
        finally:
            u.disable_contexts(len(r0))

    evals = nontriv = 0
    bad = []
    for (pair, obs, comp) in results:
        a, ua, b, ub = pair
        acc = model.expected(a, ua, b, ub, value)
        evals += 1
        paths = model.shortest_paths(a, b)
        if paths and len(paths[0]) >= 3:
            nontriv += 1
        if not acc:
            if obs[0] != "dimerr":
                bad.append((pair, obs, acc, "unreachable target did not raise DimensionalityError"))
        elif obs[0] != "ok" or not any(_close(obs[1], x) for x in acc):
            kind = "same-dimension conversion changed" if a == b else "wrong value"
            bad.append((pair, obs, acc, kind))
        if comp != bool(acc):
            bad.append((pair, ("compat", comp), acc, "is_compatible_with disagrees with reachability"))
    # after leaving: no context left, custom chain and all rules back to the defaults
    after = Model()
    for (a, ua, b, ub) in pairs[:: 7]:
        obs = _probe(u, value, ua, ub)
        acc = after.expected(a, ua, b, ub, value)
        evals += 1
        if (not acc and obs[0] != "dimerr") or (acc and (obs[0] != "ok" or not _close(obs[1], acc[0]))):
            bad.append(((a, ua, b, ub), obs, acc, "after leaving all contexts"))
    for nm, v in after.zz().items():
        if nm != "meter":
            obs = _probe(u, 1.0, nm, "meter")
            evals += 1
            if obs[0] != "ok" or not _close(obs[1], v):
                bad.append((("L", nm, "L", "meter"), obs, [v], "redefinition still visible after leaving"))
    return evals, nontriv, bad, model


def _compat(u, value, ua, ub, extra, extra_kw):
    try:
        return bool(u.Quantity(value, ua).is_compatible_with(u.Quantity(1, ub), *extra, **(extra_kw or {})))
    except Exception as exc:  # reported as a disagreement by the caller
        return f"{type(exc).__name__}: {exc}"[:120]


_WORLD_CACHE = {}


def _world(u, w, seed):
    key = (w, seed)
    if key not in _WORLD_CACHE:
        descs = _gen_world(w, seed)
        ctxs = [_build_context(u, d) for d in descs]
        for c in ctxs:
            u.add_context(c)
        _WORLD_CACHE[key] = (descs, ctxs)
    return _WORLD_CACHE[key]


def _stack_signature(descs, plan):
    parts = []
    for lv in plan["levels"]:
        kw = ",".join(f"{k}={v:g}" for k, v in sorted(lv["kw"].items()))
        parts.append(f"g{lv['ctx']}({kw})")
    return ">".join(parts) + f"/{plan['form']}" + ("/joint" if plan["joint"] else "")


def _world_job(args):
    w, seed = args
    u = _ureg()
    descs, ctxs = _world(u, w, seed)
    rnd = random.Random(f"c11-plans-{seed}-{w}")
    stacks = []
    for k in (1, 2, 3):
        stacks.extend(itertools.product(range(5), repeat=k))
    evals = nontriv = 0
    viol = []
    sample = None
    for idxs in stacks:
        plan = _plan_for_stack(descs, idxs, rnd)
        pairs = _pairs_for(random.Random(f"c11-pairs-{seed}-{w}-{idxs}"))
        value = rnd.choice([1.0, 2.0, 0.75, 12.5])
        ev, nt, bad, model = _run_stack(u, descs, ctxs, plan, pairs, value)
        evals += ev
        nontriv += nt
        sig = _stack_signature(descs, plan)
        for (pair, obs, acc, kind) in bad:
            a, ua, b, ub = pair
            pref = _explain(model, descs, plan, pair, obs, value) if kind == "wrong value" else None
            cid = (f"param-inherit:w{w}:{sig}:{ua}->{ub}" if pref else f"generated:w{w}:{sig}:{ua}->{ub}")
            viol.append({"case": cid, "what": f"{kind}: {value} {ua} -> {ub} observed {obs!r}, acceptable {acc!r}" + (f" ({pref})" if pref else ""),
                         "part": "generated", "world": w, "seed": seed, "stack": list(idxs), "plan": plan,
                         "pair": list(pair), "value": value})
        if sample is None and len(idxs) == 3 and not bad:
            for (a, ua, b, ub) in pairs:
                ps = model.shortest_paths(a, b)
                if ps and len(ps[0]) >= 3:
                    sample = {"generated_world": w, "stack": sig, "contexts": [descs[i] for i in sorted(set(idxs))],
                              "query": f"{value} {ua} -> {ub}", "chain": ps[0], "expected": model.expected(a, ua, b, ub, value)}
                    break
    return evals, nontriv, viol, sample, len(stacks)


def _explain(model, descs, plan, pair, obs, value):
    """If the observed value equals what one gets when some newly entered context ignores the parameters
    of its innermost enclosing context (takes them from another active context or its declared defaults),
    say so: that is the parameter-inheritance clause failing, not the chain or precedence clause."""
    if obs[0] != "ok":
        return None
    a, ua, b, ub = pair
    # candidate alternative effective-parameter assignments: for each level, parameters inherited from
    # any subset-free choice of an earlier level (or none) instead of the innermost one
    levels = model.stack
    n = len(levels)
    choices = []
    for k in range(n):
        choices.append(list(range(-1, k)))  # -1 = inherit nothing
    groups = [plan["levels"][:2]] + [[lv] for lv in plan["levels"][2:]] if plan["joint"] else [[lv] for lv in plan["levels"]]
    call_kw = []
    for g in groups:
        kw = {}
        for lv in g:
            kw.update(lv["kw"])
        call_kw.extend([kw] * len(g))
    for combo in itertools.product(*choices):
        alt = Model()
        for k in range(n):
            eff = dict(levels[k].desc["defaults"])
            if combo[k] >= 0:
                eff.update(alt.stack[combo[k]].eff)
            eff.update(call_kw[k])
            alt.stack.append(_Active(levels[k].desc, eff))
        try:
            acc = alt.expected(a, ua, b, ub, value)
        except KeyError:
            continue
        if any(_close(obs[1], x) for x in acc):
            return "value is explained by level(s) inheriting parameters from " + str(
                [("nothing" if c < 0 else f"level {c}") for c in combo]) + " instead of the innermost enclosing level"
    return None


def _replay_generated(data):
    u = _ureg()
    w, seed = data["world"], data["seed"]
    descs, ctxs = _world(u, w, seed)
    pair = tuple(data["pair"])
    ev, nt, bad, model = _run_stack(u, descs, ctxs, data["plan"], [pair], data["value"])
    return not bad


# ---- fixed scenarios: redefinition of default units, every activation form ------------------------------
def _scenarios():
    """Each: (id, redefinition strings, {probe unit expression: SI value inside}, {same: SI value outside})."""
    ft, yd = 0.3048, 0.9144
    return [
        ("redef-foot", ["foot = 0.5 meter"],
         {"foot": 0.5, "kilofoot": 500.0, "foot**2": 0.25, "square_foot": 0.25, "cubic_foot": 0.125, "inch": 0.0254, "yard": yd, "mile": 1760 * yd, "survey_foot": 1200 / 3937},
         {"foot": ft, "kilofoot": 1e3 * ft, "foot**2": ft**2, "square_foot": ft**2, "cubic_foot": ft**3, "inch": 0.0254, "yard": yd, "mile": 1760 * yd, "survey_foot": 1200 / 3937}),
        ("redef-yard", ["yard = 1 meter"],
         {"yard": 1.0, "foot": 1 / 3, "inch": 1 / 36, "mile": 1760.0, "kiloyard": 1e3, "square_foot": 1 / 9, "millifoot": 1 / 3000, "nautical_mile": 1852.0},
         {"yard": yd, "foot": ft, "inch": 0.0254, "mile": 1760 * yd, "kiloyard": 1e3 * yd, "square_foot": ft**2, "millifoot": ft / 1e3, "nautical_mile": 1852.0}),
        ("redef-foot+yard", ["yard = 2 meter", "foot = 0.25 yard"],
         {"yard": 2.0, "foot": 0.5, "inch": 2 / 36, "mile": 3520.0, "square_foot": 0.25},
         {"yard": yd, "foot": ft, "inch": 0.0254, "mile": 1760 * yd, "square_foot": ft**2}),
    ]


_UNIT_DIM_EXP = {"foot**2": 2, "square_foot": 2, "cubic_foot": 3}


def _scenario_run(u, sid, form, how):
    """-> list of (unit, phase, observed, expected) mismatches, and number of evaluations."""
    from pint import Context

    sc = [s for s in _scenarios() if s[0] == sid][0]
    _, redefs, inside, outside = sc
    name = f"sc_{sid.replace('-', '_').replace('+', '_')}_{form}_{how}"
    if name not in u._contexts:
        c = Context(name, aliases=(name + "_al",))
        for r in redefs:
            c.redefine(r)
        u.add_context(c)
    ctx = u._contexts[name]
    ref = {"name": name, "alias": name + "_al", "object": ctx}[how]
    bad = []
    n = 0

    def check(phase, table, extra=()):
        nonlocal n
        for unit, si in table.items():
            tgt = "meter**%d" % _UNIT_DIM_EXP.get(unit, 1)
            obs = _probe(u, 3.0, unit, tgt, extra)
            n += 1
            if obs[0] != "ok" or not _close(obs[1], 3.0 * si):
                bad.append((unit, phase, obs, 3.0 * si))
            # root units as another observer
            try:
                f, ru = u.get_root_units(unit)
                n += 1
                if not _close(float(f), si):
                    bad.append((unit, phase + "/get_root_units", ("ok", float(f)), si))
            except Exception as exc:
                if not extra:
                    bad.append((unit, phase + "/get_root_units", ("err", repr(exc)), si))

    check("before", outside)
    if form == "with":
        with u.context(ref):
            check("inside", inside)
            with u.context(ref):  # re-entering while active changes nothing
                check("inside-nested", inside)
            check("inside-after-nested", inside)
    elif form == "enable":
        u.enable_contexts(ref)
        try:
            check("inside", inside)
        finally:
            u.disable_contexts(1)
    elif form == "call":
        nonlocal_extra = (ref,)
        for unit, si in inside.items():
            tgt = "meter**%d" % _UNIT_DIM_EXP.get(unit, 1)
            obs = _probe(u, 3.0, unit, tgt, nonlocal_extra)
            n += 1
            if obs[0] != "ok" or not _close(obs[1], 3.0 * si):
                bad.append((unit, "inside(per-call)", obs, 3.0 * si))
    else:  # decorator
        @u.with_context(ref)
        def body():
            check("inside", inside)
        body()
    check("after", outside)
    if form != "call":  # second entry reuses/rebuilds the overlay: same answers
        with u.context(ref):
            check("inside-2nd-entry", inside)
        check("after-2nd", outside)
    return bad, n


def _run_scenarios():
    u = _ureg()
    evals = 0
    viol = []
    for (sid, _, _, _) in _scenarios():
        for form in ("with", "enable", "call", "decorator"):
            for how in HOW:
                bad, n = _scenario_run(u, sid, form, how)
                evals += n
                for (unit, phase, obs, exp) in bad:
                    viol.append({"case": f"redefinition:{sid}:{form}:{how}:{unit}:{phase}",
                                 "what": f"3 {unit} in metres ({phase}): observed {obs!r}, expected {exp!r}",
                                 "part": "scenario", "sid": sid, "form": form, "how": how})
    return evals, viol


# fixed parameter scenarios: deterministic, tiny, and named (precedence and the three inheritance levels)
def _param_scenarios():
    """Contexts PA(xp=2): L->T value*xp ; PB(xq=7): T->M value*xq, L->T value*10*xq ; PC(xp=1,xq=1): M->I value*xp*xq."""
    S = []

    def add(cid, steps, query, expected):
        S.append((cid, steps, query, expected))

    # steps: list of (context key, kwargs); query: (value, src, dst); expected: number or None (DimensionalityError)
    add("params:declared-default", [("PA", {})], (5.0, "meter", "second"), 5 * 2.0)
    add("params:call-kwarg", [("PA", {"xp": 3.0})], (5.0, "meter", "second"), 15.0)
    add("params:recent-wins", [("PA", {}), ("PB", {})], (5.0, "meter", "second"), 5 * 10 * 7.0)
    add("params:recent-wins-reversed", [("PB", {}), ("PA", {})], (5.0, "meter", "second"), 10.0)
    add("params:chain-two-contexts", [("PA", {"xp": 3.0}), ("PB", {})], (5.0, "meter", "kilogram"), 5 * 10 * 7.0 * 7.0)
    add("params:chain-two-contexts-reversed", [("PB", {}), ("PA", {"xp": 3.0})], (5.0, "meter", "kilogram"), 15.0 * 7.0)
    add("params:inherit-1-level", [("PA", {"xp": 3.0}), ("PC", {})], (1.0, "kilogram", "ampere"), 3.0)
    add("params:inherit-2-levels", [("PA", {"xp": 3.0}), ("PB", {"xq": 5.0}), ("PC", {})], (1.0, "kilogram", "ampere"), 15.0)
    add("params:inherit-enclosing-declared-over-own-declared", [("PA", {"xp": 3.0}), ("PB", {}), ("PC", {})], (1.0, "kilogram", "ampere"), 21.0)
    add("params:kwarg-over-inherited", [("PA", {"xp": 3.0}), ("PB", {"xq": 5.0}), ("PC", {"xp": 4.0})], (1.0, "kilogram", "ampere"), 20.0)
    add("params:inner-kwarg-does-not-leak-out", [("PA", {}), ("PA", {"xp": 9.0})], (5.0, "meter", "second"), 45.0)
    # innermost enclosing context is PA (declares xp=2, inherited xq=5); the oldest context is PB
    add("param-inherit:fixed:PB(xq=5)>PA>PC", [("PB", {"xq": 5.0}), ("PA", {}), ("PC", {})], (1.0, "kilogram", "ampere"), 10.0)
    add("param-inherit:fixed:PB>PA(xp=3)>PA", [("PB", {}), ("PA", {"xp": 3.0}), ("PA", {})], (5.0, "meter", "second"), 15.0)
    add("params:unreachable", [("PA", {})], (5.0, "second", "meter"), None)
    add("params:unreachable-chain", [("PA", {}), ("PC", {})], (5.0, "meter", "ampere"), None)
    add("params:same-dimension", [("PA", {}), ("PB", {})], (5.0, "kilometer", "meter"), 5000.0)
    return S


def _param_contexts(u):
    from pint import Context

    if "c11PA" not in u._contexts:
        u.add_context(Context.from_lines(["@context(xp=2) c11PA = c11pa", "[length] -> [time]: value * xp * second / meter"]))
        u.add_context(Context.from_lines(["@context(xq=7) c11PB = c11pb", "[time] -> [mass]: value * xq * kilogram / second",
                                          "[length] -> [time]: value * xq * 10 * second / meter"]))
        u.add_context(Context.from_lines(["@context(xp=1,xq=1) c11PC = c11pc", "[mass] -> [current]: value * xp * xq * ampere / kilogram"]))
    return {"PA": "c11PA", "PB": "c11PB", "PC": "c11PC"}


def _param_scenario_run(u, cid, form):
    names = _param_contexts(u)
    sc = [s for s in _param_scenarios() if s[0] == cid][0]
    _, steps, (v, su, du), expected = sc
    if form == "with":
        def nest(k):
            if k == len(steps):
                return _probe(u, v, su, du)
            with u.context(names[steps[k][0]], **steps[k][1]):
                return nest(k + 1)
        obs = nest(0)
    elif form == "enable":
        for (c, kw) in steps:
            u.enable_contexts(names[c], **kw)
        try:
            obs = _probe(u, v, su, du)
        finally:
            u.disable_contexts(len(steps))
    else:  # outer levels enabled, last one per call
        for (c, kw) in steps[:-1]:
            u.enable_contexts(names[c], **kw)
        try:
            obs = _probe(u, v, su, du, (names[steps[-1][0]],), steps[-1][1])
        finally:
            if len(steps) > 1:
                u.disable_contexts(len(steps) - 1)
    if expected is None:
        return obs[0] == "dimerr", obs
    return obs[0] == "ok" and _close(obs[1], expected), obs


def _run_param_scenarios():
    u = _ureg()
    evals = 0
    viol = []
    for (cid, steps, query, expected) in _param_scenarios():
        for form in ("with", "enable", "call"):
            ok, obs = _param_scenario_run(u, cid, form)
            evals += 1
            if not ok:
                viol.append({"case": f"{cid}:{form}", "what": f"stack {steps} query {query}: observed {obs!r}, expected {expected!r}",
                             "part": "param-scenario", "cid": cid, "form": form})
    return evals, viol


# ======================================================================================================
# driver
# ======================================================================================================
def _pool(n):
    return mp.get_context("fork").Pool(n)


def run(tier: str = "quick", seed: int = 0, **kw) -> dict:
    t0 = time.time()
    workers = int(kw.get("workers", 16))
    timing = {}

    # ---- part 1
    jobs, nmax, lmax = _path_jobs(tier)
    ev1 = nt1 = 0
    viol = []
    samples = []
    if len(jobs) > 8 and workers > 1:
        with _pool(workers) as pool:
            res = pool.map(_paths_chunk, jobs, chunksize=1)
    else:
        res = [_paths_chunk(j) for j in jobs]
    for (e, n, v, first) in res:
        ev1 += e
        nt1 += n
        viol.extend(v)
    samples.append(_path_sample())
    e, v = _string_node_pass()
    ev1 += e
    viol.extend(v)
    timing["paths_s"] = round(time.time() - t0, 2)
    ngraphs = sum(hi - lo for (_, lo, hi, _) in jobs) + 512

    # ---- part 2
    t1 = time.time()
    ev2, nt2, v2, s2, uncovered, nrows = _run_bundled(tier, seed)
    viol.extend(v2)
    samples.extend(s2)
    timing["bundled_s"] = round(time.time() - t1, 2)

    # ---- part 3
    t2 = time.time()
    nworlds = int(kw.get("worlds", 6 if tier == "quick" else 96))
    wjobs = [(w, seed) for w in range(nworlds)]
    if workers > 1 and nworlds > 1:
        with _pool(min(workers, nworlds)) as pool:
            wres = pool.map(_world_job, wjobs, chunksize=1)
    else:
        wres = [_world_job(j) for j in wjobs]
    ev3 = nt3 = nstacks = 0
    for (e, n, v, smp, ns) in wres:
        ev3 += e
        nt3 += n
        nstacks += ns
        viol.extend(v)
        if smp and len(samples) < 5:
            samples.append(smp)
    e4, v4 = _run_scenarios()
    e5, v5 = _run_param_scenarios()
    viol.extend(v4)
    viol.extend(v5)
    timing["generated_s"] = round(time.time() - t2, 2)

    # keep the list representative: at most 6 per case-id prefix
    viol.sort(key=lambda d: d["case"])
    kept = []
    per = defaultdict(int)
    for d in viol:
        k = d["case"].split(":")[0]
        if per[k] < 6 and len(kept) < MAXV:
            kept.append(d)
            per[k] += 1
    by_kind = defaultdict(int)
    for d in viol:
        by_kind[d["case"].split(":")[0]] += 1

    return {
        "name": NAME,
        "bound": (
            f"find_shortest_path: all {ngraphs} directed graphs (no self loops n<={nmax}; with self loops n<={lmax}; defaultdict shape n<=4; "
            f"UnitsContainer nodes n=3) x all (start,end) pairs; bundled contexts: {nrows} hand-formula rows covering every rule of the 7 bundled contexts "
            f"plus 2-4 rule chains, each on all listed unit pairs x {3 if tier == 'quick' else 10} values x 3 activation forms (cyclic); generated: {nworlds} worlds of 5 contexts "
            f"(seed {seed}) x all 155 stacks of <=3 contexts x all 49 ordered dimension-node pairs, plus 36 redefinition scenarios and 48 named parameter scenarios"
        ),
        "evaluations": ev1 + ev2 + ev3 + e4 + e5,
        "distinct_nontrivial": nt1 + nt2 + nt3,
        "rule": (
            "paths: graph code = adjacency bits, case = (graph,start,end), non-trivial when the oracle distance is >= 2; bundled: non-trivial when the "
            "conversion needs a chain of >= 2 rules; generated: case = (world, stack with activation plan, node pair), non-trivial when the shortest chain has >= 2 rules"
        ),
        "exhaustive": True,
        "exhaustive_note": "parts 1 and the stacks/pairs of each generated world are enumerated completely; worlds, unit choices, kwargs and values are seeded samples",
        "violations": kept,
        "violation_count": len(viol),
        "violations_by_kind": dict(by_kind),
        "uncovered_bundled_rules": uncovered,
        "parts": {"paths": {"evaluations": ev1, "nontrivial": nt1}, "bundled": {"evaluations": ev2, "nontrivial": nt2},
                  "generated": {"evaluations": ev3, "nontrivial": nt3, "stacks": nstacks}, "scenarios": e4, "param_scenarios": e5},
        "timing": timing,
        "seconds": round(time.time() - t0, 2),
        "samples": samples[:5],
    }


def replay(data: dict) -> bool:
    part = data.get("part")
    if part == "path":
        return _replay_path(data)
    if part == "bundled":
        return _replay_bundled(data)
    if part == "generated":
        return _replay_generated(data)
    if part == "scenario":
        bad, _ = _scenario_run(_ureg(), data["sid"], data["form"], data["how"])
        return not bad
    if part == "param-scenario":
        return _param_scenario_run(_ureg(), data["cid"], data["form"])[0]
    raise ValueError(f"unknown violation record: {data.get('case')}")


if __name__ == "__main__":
    import argparse

    ap = argparse.ArgumentParser()
    ap.add_argument("--tier", default="quick")
    ap.add_argument("--seed", type=int, default=0)
    ap.add_argument("--replay", default=None, help="JSON file with one violation record")
    a = ap.parse_args()
    if a.replay:
        with open(a.replay) as fh:
            print(json.dumps({"holds": replay(json.load(fh))}))
        sys.exit(0)
    print(json.dumps(run(a.tier, a.seed), indent=1, default=str))
