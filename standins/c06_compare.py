"""Bounded stand-in (C06), added after seeded change C06-3 was missed.

Comparisons are among the operators the property quantifies over: for two quantities of the same dimension, of which at least
one is in an offset or logarithmic unit, `a == b` / `a != b` must agree with the defining maps - i.e. with comparing `a`
converted to `b`'s units against `b` - in particular at magnitude 0, which is NOT the physical zero of an offset or log unit.
Both operand orders, scalar and array magnitudes, both autoconvert modes.  A refusal (OffsetUnitCalculusError /
LogarithmicUnitCalculusError) is accepted where pint refuses on the unchanged tree; a wrong boolean is not."""
from __future__ import annotations

import itertools

NAME = "c06_compare"
TEMP = ["degC", "degF", "kelvin", "degR", "degRe"]
LOGS = ["dBm", "dBW", "decibelmicrowatt"]
LIN = ["milliwatt", "watt"]
VALUES = [0, 0.0, 32.0, -40.0, 273.15, 10.0]


def _expected(a, b):
    """a converted to b's units compared with b (the defining maps; conversion is what the rest of C06 checks)"""
    import numpy as np

    m = a.to(b.units).magnitude
    return np.isclose(np.asarray(m, float), np.asarray(b.magnitude, float), rtol=1e-12, atol=1e-12)


def run(tier: str = "quick", seed: int = 0, **kw) -> dict:
    import numpy as np
    import pint

    viol, n, samples = [], 0, []
    for auto in (False, True):
        ureg = pint.UnitRegistry(autoconvert_offset_to_baseunit=auto)
        Q = ureg.Quantity
        fams = [TEMP, LOGS + LIN]
        for fam in fams:
            for ua, ub in itertools.permutations(fam, 2):
                if Q(1, ua)._is_multiplicative and Q(1, ub)._is_multiplicative:
                    continue
                for va, vb, arr in itertools.product(VALUES, VALUES, (False, True)):
                    if fam is not TEMP and (ua in LIN and va <= 0 or ub in LIN and vb <= 0):
                        continue  # non-positive linear power has no logarithmic counterpart
                    a = Q(np.array([va, va]) if arr else va, ua)
                    b = Q(np.array([vb, vb]) if arr else vb, ub)
                    try:
                        want = _expected(a, b)
                    except Exception:  # noqa: BLE001
                        continue
                    try:
                        got = a == b
                        gne = a != b
                    except (pint.OffsetUnitCalculusError, pint.errors.LogarithmicUnitCalculusError):
                        continue
                    case = f"eq:auto={auto}:{va} {ua} vs {vb} {ub}:{'array' if arr else 'scalar'}"
                    # float equality is exact in pint: only clear cases are judged - the converted magnitude is exactly the
                    # other one (must compare equal) or differs from it by more than 1e-6 (must compare unequal)
                    conv = np.asarray(a.to(b.units).magnitude, float)
                    other = np.asarray(b.magnitude, float)
                    if np.all(conv == other):
                        want = True
                    elif not np.any(np.isclose(conv, other, rtol=1e-6, atol=1e-6)):
                        want = False
                    else:
                        continue
                    n += 1
                    if bool(np.all(got)) != bool(np.all(want)) or bool(np.all(gne)) == bool(np.all(want)):
                        viol.append({"case": case, "what": f"(a == b) is {got!r}, (a != b) is {gne!r}; a.to(b.units) = {a.to(b.units)!r}, b = {b!r}"})
                    elif len(samples) < 4 and va == 0 and vb == 0:
                        samples.append(case)
    return {"name": NAME,
            "bound": f"ordered pairs within {{{', '.join(TEMP)}}} and {{{', '.join(LOGS + LIN)}}} with at least one non-multiplicative unit x "
                     f"{len(VALUES)}^2 magnitudes (0 among them) x scalar/array x autoconvert on/off; == and !=",
            "evaluations": n, "distinct_nontrivial": n, "rule": "cross product; only clear (not rounding-close) disagreements are judged",
            "exhaustive": True, "violations": viol[:25], "violation_count": len(viol), "samples": samples}


def replay(data: dict) -> bool:
    r = run("thorough")
    return all(v["case"] != data.get("case") for v in r["violations"])
