"""Bounded stand-in for C14 "Systems and groups select base units and members exactly as declared".

Parts (each with an oracle that does not call the code under test):

 1. base units: every multiplicative unit of the default registry (Fraction registry) and seeded compound
    containers x every declared system (+ no system): `get_base_units(u, system=s)`, `get_base_units(u)` /
    `Quantity.to_base_units()` / `ito_base_units()` under `ureg.default_system = s`, and a walk over all ordered
    pairs of default-system settings.  Oracle: the allowed unit set is derived from the *text* of the @system
    blocks of default_en.txt (declared `new` units + root units that no rule replaces; which root a rule replaces
    is computed with standins.ref.Ref); dimensionality and value by Ref (exact Fractions; float fallback with
    rel. tol. 1e-9 when a definition chain contains a non-integer power); idempotence.
 2. groups: all `using` DAGs on <= 4 labelled groups x all unit assignments (each group a subset of {x, p_i}),
    built through the object API and (one assignment per DAG) through `@group` definition text; all edit
    sequences of the stated length over {add_units, remove_units, add_groups, remove_groups} applied after the
    members were computed, under three observation policies.  Oracle: own transitive closure; cyclic `using`
    (incl. self loops) must raise ValueError and leave the state unchanged; `System.members` = union.
 3. rule inversion: generated systems `@system x using international` with one rule `new: old` / `new`.
 4. `get_compatible_units(unit, group_or_system)` over the default registry against group membership parsed from
    the definition text and Ref dimensionalities; `ureg.sys.<system>.<unit>` attribute resolution.
"""
from __future__ import annotations

import itertools
import json
import math
import multiprocessing as mp
import os
import random
import time
from decimal import Decimal, localcontext
from fractions import Fraction


def _cpu_total():
    """CPU seconds of this process and its finished children (the wall time depends on the machine load)"""
    import resource

    a = resource.getrusage(resource.RUSAGE_SELF)
    b = resource.getrusage(resource.RUSAGE_CHILDREN)
    return a.ru_utime + a.ru_stime + b.ru_utime + b.ru_stime


def _exc_text(e):
    """str(e) of a pint error can itself raise in a Fraction registry (formatting of Fraction exponents)"""
    try:
        return str(e)
    except Exception:  # noqa: BLE001
        return "<str() of the exception failed>"


NAME = "c14_systems"
NWORKERS = 16
RTOL = 1e-9


# =============================================================================== violation collector
class Collector:
    def __init__(self):
        self.entries = {}

    def add(self, case, what, example):
        e = self.entries.get(case)
        if e is None:
            e = self.entries[case] = {"case": case, "what": what, "instances": 0, "examples": []}
        e["instances"] += 1
        if len(e["examples"]) < 2:
            e["examples"].append(example)

    def merge(self, other_entries):
        for case, o in other_entries.items():
            e = self.entries.get(case)
            if e is None:
                self.entries[case] = {"case": case, "what": o["what"], "instances": o["instances"],
                                      "examples": list(o["examples"][:2])}
            else:
                e["instances"] += o["instances"]
                for ex in o["examples"]:
                    if len(e["examples"]) < 2:
                        e["examples"].append(ex)


# =============================================================================== definition text parser (own)
def _def_path():
    import pint

    return os.path.join(os.path.dirname(pint.__file__), "default_en.txt")


def parse_definition_text(path):
    """Own small reader of the definition file format: units (with the block they are declared in), @group
    (name, using), @system (name, using, rules), @defaults.  Returns a dict."""
    out = {"units": {}, "groups": {}, "systems": {}, "defaults": {}, "order": [], "offset_units": []}

    def read(p):
        block = None
        with open(p, encoding="utf-8") as fh:
            for raw in fh:
                line = raw.split("#", 1)[0].strip()
                if not line:
                    continue
                if line.startswith("@import"):
                    read(os.path.join(os.path.dirname(p), line.split(None, 1)[1].strip()))
                    continue
                if line.startswith("@end"):
                    block = None
                    continue
                if line.startswith("@defaults"):
                    block = ("defaults", None)
                    continue
                if line.startswith("@group") or line.startswith("@system"):
                    kind = "group" if line.startswith("@group") else "system"
                    rest = line.split(None, 1)[1]
                    if " using " in rest:
                        name, using = rest.split(" using ", 1)
                        using = [x.strip() for x in using.split(",") if x.strip()]
                    else:
                        name, using = rest, []
                    name = name.strip()
                    if kind == "group":
                        out["groups"][name] = {"using": using, "units": []}
                    else:
                        out["systems"][name] = {"using": using, "rules": []}
                    block = (kind, name)
                    continue
                if line.startswith("@context"):
                    block = ("context", None)
                    continue
                if line.startswith("@alias"):
                    continue
                if line.startswith("@"):
                    raise RuntimeError("harness: unknown directive %r" % line)
                if block is None or block[0] == "group":
                    if "=" not in line:
                        raise RuntimeError("harness: cannot read line %r" % line)
                    name = line.split("=", 1)[0].strip()
                    if name.startswith("[") or name.endswith("-"):
                        continue  # dimension / prefix
                    where = block[1] if block else None
                    if "offset:" in line:
                        out["offset_units"].append(name)
                    out["units"][name] = where
                    out["order"].append(name)
                    if where is not None:
                        out["groups"][where]["units"].append(name)
                elif block[0] == "system":
                    if ":" in line:
                        new, old = line.split(":", 1)
                        out["systems"][block[1]]["rules"].append((new.strip(), old.strip()))
                    else:
                        out["systems"][block[1]]["rules"].append((line, None))
                elif block[0] == "defaults":
                    k, v = line.split("=", 1)
                    out["defaults"][k.strip()] = v.strip()

    read(path)
    return out


def text_group_members(text):
    """group name -> frozenset of member unit names, by own closure over `using`; the default group receives the
    units declared outside any group; 'root' holds every unit."""
    own = {g: set(d["units"]) for g, d in text["groups"].items()}
    dg = text["defaults"].get("group")
    if dg is not None:
        own.setdefault(dg, set())
        own[dg] |= {u for u, where in text["units"].items() if where is None}
    using = {g: list(text["groups"].get(g, {"using": []})["using"]) for g in own}

    def closure(g, seen):
        if g in seen:
            raise RuntimeError("harness: cyclic groups in the definition text")
        m = set(own[g])
        for h in using[g]:
            m |= closure(h, seen | {g})
        return m

    members = {g: frozenset(closure(g, frozenset())) for g in own}
    members["root"] = frozenset(text["units"])
    return members


# =============================================================================== exact / float reference
def _dec(x):
    if isinstance(x, Fraction):
        return Decimal(x.numerator) / Decimal(x.denominator)
    return Decimal(x)  # int / float: exact


def _dpow(b, e):
    if e.denominator == 1:
        return b ** int(e)
    return b ** _dec(e)


def _dec_factor(ref, uc, exp=Fraction(1)):
    """Factor to root units in 50-digit decimal arithmetic (used when a chain has a non-integer power)."""
    from standins.ref import F

    f = Decimal(1)
    for k, v in dict(uc).items():
        e = exp * F(v)
        pval, udef = ref.resolve(k)
        f *= _dpow(_dec(pval), e)
        if not udef.is_base:
            f *= _dpow(_dec(F(udef.converter.scale)), e)
            if udef.reference is not None:
                f *= _dec_factor(ref, udef.reference, e)
    return f


def ref_factor(ref, uc):
    """-> (factor, exact?)  exact Fraction when the chain is rational, else a 50-digit Decimal"""
    try:
        return ref.root(uc)[0], True
    except ValueError:
        with localcontext() as ctx:
            ctx.prec = 50
            return _dec_factor(ref, uc), False


def _close(a, b, tol=RTOL):
    """|a - b| <= tol * max(|a|, |b|) in decimal arithmetic (no overflow / underflow)."""
    with localcontext() as ctx:
        ctx.prec = 50
        a, b = _dec(a), _dec(b)
        if not (a.is_finite() and b.is_finite()):
            return False
        if a == b:
            return True
        return abs(a - b) <= Decimal(tol) * max(abs(a), abs(b))


def _product_close(lhs, f, rhs, tol=RTOL):
    with localcontext() as ctx:
        ctx.prec = 50
        return _close(_dec(lhs), _dec(f) * _dec(rhs), tol)


def _ratio(lhs, rhs):
    with localcontext() as ctx:
        ctx.prec = 50
        return "%.17E" % (_dec(lhs) / _dec(rhs))


def _is_exact_number(x):
    return isinstance(x, (int, Fraction)) and not isinstance(x, bool)


def uc_id(uc):
    return "*".join(k if v == 1 else "%s^%s" % (k, v) for k, v in sorted(dict(uc).items()))


def uc_json(uc):
    return {k: [Fraction(v).numerator, Fraction(v).denominator] for k, v in dict(uc).items()}


def uc_from_json(d):
    return {k: Fraction(a, b) for k, (a, b) in d.items()}


# =============================================================================== part 1: base units
class Env:
    """Default Fraction registry + reference + expectations derived from the definition text."""

    def __init__(self):
        import pint
        from standins.ref import Ref

        self.ureg = pint.UnitRegistry(non_int_type=Fraction)
        self.ref = Ref(self.ureg)
        self.text = parse_definition_text(_def_path())
        declared = {d.name for d in self.ref.units.values()}
        textual = set(self.text["units"])
        # the registry additionally holds delta_ twins of offset units and prefixed units it resolved while loading
        extra = {n for n in declared - textual if not n.startswith("delta_")}
        bad = sorted(textual - declared) + sorted(
            n for n in extra
            if not any(p and n.startswith(p) and n[len(p):] in textual for p in self.ref.prefixes))
        if bad:
            raise RuntimeError("harness: text parser and registry disagree on the declared unit names: %r" % bad[:10])
        self.declared = sorted(textual)
        self.roots = {d.name for d in self.ref.units.values() if d.is_base}
        self.systems = sorted(self.text["systems"])
        self.allowed = {None: set(self.roots)}
        self.replaced = {None: set()}
        for s, d in self.text["systems"].items():
            new_units, replaced = set(), set()
            for new, old in d["rules"]:
                new_units.add(new)
                if old is None:
                    _, r = self.ref.root({new: 1})
                    if len(r) != 1:
                        raise RuntimeError("harness: rule %r of %s is not over a single root unit" % (new, s))
                    replaced |= set(r)
                else:
                    replaced.add(old)
            self.allowed[s] = new_units | (self.roots - replaced)
            self.replaced[s] = replaced
        self.mult_units = sorted(
            n for n in textual
            if self.ref.units[n].converter.is_multiplicative and not self.ref.units[n].converter.is_logarithmic
        )
        self.history = []  # events on this registry: ["set", default_system] / ["param", system]
        self.float_range_skips = 0
        self.refcache = {}
        self.unit_exact = {}

    def set_default(self, s):
        self.ureg.default_system = s
        self.history.append(["set", s])


def _refvals(env, ucd):
    """memoised reference (dimensionality, factor, chain is rational) of a container"""
    key = tuple(sorted(ucd.items()))
    r = env.refcache.get(key)
    if r is None:
        ref = env.ref
        fac, exact = ref_factor(ref, ucd)
        if exact:
            # an even power can hide an irrational constituent (bohr**2): pint then still computes in floats
            for k in ucd:
                ek = env.unit_exact.get(k)
                if ek is None:
                    try:
                        ref.root({k: 1})
                        ek = True
                    except ValueError:
                        ek = False
                    env.unit_exact[k] = ek
                exact = exact and ek
        r = env.refcache[key] = (ref.dim(ucd), fac, exact)
    return r


def _float_range_risk(env, ucd):
    """True when the decimal exponents of the per-unit factors (factor(unit)**exponent) add up, on the positive or
    on the negative side, to more than 280: some order of multiplication then passes outside the double range."""
    pos = neg = 0.0
    for k, v in ucd.items():
        fac, _ = ref_factor(env.ref, {k: 1})
        lg = float(v) * (math.log10(abs(fac)) if isinstance(fac, Fraction) else float(abs(fac).log10()))
        if lg > 0:
            pos += lg
        else:
            neg -= lg
    return max(pos, neg) > 280


def base_units_problems(env, ucd, s, via):
    """Run one observation of the base units of container `ucd` (dict) under system `s`.
    via: 'param' (system=s passed), 'default' / 'to' / 'ito' (default_system is already s)."""
    ureg, ref = env.ureg, env.ref
    uc = ureg.UnitsContainer(ucd)
    try:
        if via == "param":
            f, bu = ureg.get_base_units(uc, system=s)
        elif via == "default":
            f, bu = ureg.get_base_units(uc)
        elif via == "to":
            q0 = ureg.Quantity(1, uc)
            q = q0.to_base_units()
            f, bu = q.magnitude, q.units
            if q0.magnitude != 1 or dict(q0._units) != dict(uc):
                return [("mutated", "to_base_units changed its operand")]
        else:
            q = ureg.Quantity(1, uc)
            r = q.ito_base_units()
            f, bu = q.magnitude, q.units
            if r is not None:
                return [("ito-return", "ito_base_units returned %r" % (r,))]
    except (OverflowError, ZeroDivisionError, ValueError) as e:
        if isinstance(e, ValueError) and "inf" not in _exc_text(e) and "nan" not in _exc_text(e):
            return [("raised", "%s: %s" % (type(e).__name__, _exc_text(e)))]
        # float overflow/underflow of an irrational (float) factor, e.g. Planck units to a high power:
        # outside exact arithmetic, counted separately and not judged
        env.float_range_skips += 1
        return []
    except Exception as e:  # noqa: BLE001
        return [("raised", "%s: %s" % (type(e).__name__, _exc_text(e)))]
    bud = dict(bu._units)
    out = []
    extra = sorted(set(bud) - env.allowed[s])
    if extra:
        out.append(("units", "result %s uses %s, allowed for system %s: declared base units + unreplaced roots"
                    % (uc_id(bud), extra, s)))
    unknown = [k for k in bud if ref.resolve(k) is None]
    if unknown:
        return out + [("units", "result uses unknown units %r" % unknown)]
    dim1, lhs, ex1 = _refvals(env, ucd)
    dim2, rhs, ex2 = _refvals(env, bud)
    if dim1 != dim2:
        out.append(("dim", "dimensionality of %s differs from that of %s" % (uc_id(bud), uc_id(ucd))))
    if ex1 and ex2 and _is_exact_number(f):
        if lhs != f * rhs:
            out.append(("value", "1 %s = %s %s, reference ratio %s" % (uc_id(ucd), f, uc_id(bud), lhs / rhs)))
    else:
        if f == 0 or (isinstance(f, float) and not math.isfinite(f)):
            # an irrational (float) factor or an intermediate left the double range (e.g. Planck units cubed):
            # outside exact arithmetic, counted separately and not judged
            env.float_range_skips += 1
            return out
        if not _product_close(lhs, f, rhs):
            if _float_range_risk(env, ucd) or _float_range_risk(env, bud) or not 1e-290 < abs(float(f)) < 1e290:
                # some partial product of the float factors may have left the normal double range (Planck units
                # to high powers: planck_time**9 ~ 1e-390); pint then returns a finite but inaccurate number.
                # Float range effects are outside the exact-arithmetic property: counted, not judged.
                env.float_range_skips += 1
                return out
            out.append(("value", "1 %s = %r %s, reference ratio %s"
                        % (uc_id(ucd), float(f), uc_id(bud), _ratio(lhs, rhs))))
    # idempotence
    try:
        if via == "param":
            f2, bu2 = ureg.get_base_units(bu, system=s)
        else:
            f2, bu2 = ureg.get_base_units(bu)
    except (OverflowError, ZeroDivisionError):
        env.float_range_skips += 1
        return out
    except Exception as e:  # noqa: BLE001
        if isinstance(e, ValueError) and ("inf" in _exc_text(e) or "nan" in _exc_text(e)):
            env.float_range_skips += 1
            return out
        return out + [("idempotent", "base units of the result %s raised %s: %s" % (uc_id(bud), type(e).__name__, _exc_text(e)))]
    if isinstance(f2, float) and not math.isfinite(f2):
        env.float_range_skips += 1
        return out
    if dict(bu2._units) != bud or not (f2 == 1 or (not _is_exact_number(f2) and _close(f2, 1.0, 1e-12))):
        out.append(("idempotent", "base units of %s are %r %s" % (uc_id(bud), f2, uc_id(dict(bu2._units)))))
    return out


def _base_example(env, ucd, s, via):
    return {"part": "base", "uc": uc_json(ucd), "system": s, "via": via, "history": [list(h) for h in env.history]}


def _nontrivial_base(env, ucd, s):
    if s is None:
        return False
    try:
        _, r = env.ref.root(ucd)
    except ValueError:
        return True
    return bool(set(r) & env.replaced[s])


def compound_containers(env, n, rng):
    out = []
    for _ in range(n):
        k = rng.choice((2, 2, 3))
        names = rng.sample(env.mult_units, k)
        out.append({nm: rng.choice((-2, -1, 1, 2, 3)) for nm in names})
    return out


def _inputs(env, tier, seed):
    rng = random.Random(seed)
    ncomp = 150 if tier == "quick" else 1500
    compounds = compound_containers(env, ncomp, rng)
    singles = [{u: 1} for u in env.mult_units]
    sample = [{u: 1} for u in rng.sample(env.mult_units, 60)]
    return singles, compounds, sample


def _part1_worker(task):
    """One slice of part 1 on a registry of its own -> (evals, nontrivial, entries, float_range_skips, samples)"""
    kind, tier, seed, arg = task
    env = Env()
    col = Collector()
    systems = env.systems
    opts = systems + [None]
    singles, compounds, sample = _inputs(env, tier, seed)
    evals = nontrivial = 0
    samples = []
    if kind == "A":
        # explicit system=s while the default system is None: never served from the memo
        got = sorted(dir(env.ureg.sys))
        evals += 1
        if got != systems:
            col.add("systems-list", "dir(ureg.sys) = %r, definition text declares %r" % (got, systems),
                    {"part": "systems-list"})
        if env.ureg.default_system != env.text["defaults"].get("system"):
            col.add("default-system-initial", "default_system is %r, @defaults says %r"
                    % (env.ureg.default_system, env.text["defaults"].get("system")), {"part": "systems-list"})
        env.set_default(None)
        for s in arg:
            for ucd in singles + compounds:
                evals += 1
                nontrivial += _nontrivial_base(env, ucd, s)
                for k, what in base_units_problems(env, ucd, s, "param"):
                    col.add("base-units:%s:%s:%s" % (k, s, uc_id(ucd)), what, _base_example(env, ucd, s, "param"))
        if "cgs" in arg:
            try:
                f, bu = env.ureg.get_base_units("joule", system="cgs")
                shown = "(%s, %s)" % (f, uc_id(bu._units))
            except Exception as e:  # noqa: BLE001
                shown = "raised %s" % type(e).__name__
            samples.append({"part": 1, "allowed units for cgs": sorted(env.allowed["cgs"]),
                            "example": "get_base_units('joule', system='cgs') = %s" % shown})
    elif kind == "B":
        # default_system = s (memo path), no system= calls on this registry; `arg` is the order of assignments
        for s in arg:
            prev = env.ureg.default_system
            env.set_default(s)
            evals += 1
            if env.ureg.default_system != s:
                col.add("default-system-getter:%s" % s, "default_system reads %r after assigning %r"
                        % (env.ureg.default_system, s), {"part": "getter", "system": s})
            for ucd in singles + compounds[: len(compounds) // 3]:
                for via in ("default", "to", "ito"):
                    evals += 1
                    nontrivial += _nontrivial_base(env, ucd, s)
                    for k, what in base_units_problems(env, ucd, s, via):
                        case = "default-system-none" if s is None else "default-system:%s->%s:%s" % (prev, s, k)
                        col.add(case, "[default_system=%s after %s, via %s] %s" % (s, prev, via, what),
                                _base_example(env, ucd, s, via))
    elif kind == "D":
        # walk: for the given s1, all s2: assign s1, check, assign s2, check  (all ordered pairs over the tasks)
        probes = (singles if tier != "quick" else sample) + compounds[:20]
        for s1 in arg:
            for s2 in opts:
                for cur in (s1, s2):
                    prev = env.ureg.default_system
                    env.set_default(cur)
                    for ucd in probes:
                        for via in ("default", "to"):
                            evals += 1
                            nontrivial += _nontrivial_base(env, ucd, cur)
                            for k, what in base_units_problems(env, ucd, cur, via):
                                case = ("default-system-none" if cur is None
                                        else "default-system:%s->%s:%s" % (prev, cur, k))
                                col.add(case, "[default_system=%s after %s, via %s] %s" % (cur, prev, via, what),
                                        _base_example(env, ucd, cur, via))
    else:
        # E: get_base_units(u, system=other) must not change what the default system answers afterwards
        probes = (singles if tier != "quick" else sample[:30]) + compounds[:10]
        for cur in arg:
            for other in systems:
                if other == cur:
                    continue
                env.set_default(cur if cur is not None else "SI")  # a named system first: clean memo
                if cur is None:
                    env.set_default(None)
                for ucd in probes:
                    evals += 3
                    nontrivial += 1
                    first = base_units_problems(env, ucd, cur, "default")
                    for k, what in base_units_problems(env, ucd, other, "param"):
                        col.add("base-units:%s:%s:%s" % (k, other, uc_id(ucd)), what,
                                _base_example(env, ucd, other, "param"))
                    env.history.append(["param", other])
                    again = base_units_problems(env, ucd, cur, "default")
                    if again and not first:
                        col.add("system-param-poisons-cache",
                                "get_base_units(u, system=X) overwrites the memo of the default system: default=%s, "
                                "X=%s: afterwards %s" % (cur, other, again[0][1]),
                                _base_example(env, ucd, cur, "default"))
                    env.history.pop()
    return evals, nontrivial, col.entries, env.float_range_skips, samples


def part1_tasks(tier, seed):
    env_systems = sorted(parse_definition_text(_def_path())["systems"])
    opts = env_systems + [None]
    tasks = [("A", tier, seed, [s]) for s in env_systems]
    tasks += [("B", tier, seed, opts), ("B", tier, seed, [None] + env_systems[::-1])]
    tasks += [("D", tier, seed, [s1]) for s1 in opts]
    tasks += [("E", tier, seed, [cur]) for cur in opts]
    return tasks


def replay_base(ex):
    env = Env()
    ucd = uc_from_json(ex["uc"])
    uc = env.ureg.UnitsContainer(ucd)
    for ev, h in ex.get("history", []):
        try:
            if ev == "set":
                env.ureg.default_system = h
                env.ureg.get_base_units(uc)
            else:
                env.ureg.get_base_units(uc, system=h)
        except (OverflowError, ZeroDivisionError, ValueError):
            pass
    return not base_units_problems(env, ucd, ex["system"], ex["via"])


# =============================================================================== part 2: groups
POOL = ("x", "y")
INITIAL_UNITS = (("x",), ("x", "y"), ("y",), ())


def all_dags(n):
    pairs = [(i, j) for i in range(n) for j in range(n) if i != j]
    out = []
    for mask in range(1 << len(pairs)):
        edges = [pairs[k] for k in range(len(pairs)) if mask >> k & 1]
        if _acyclic(n, edges):
            out.append(edges)
    return out


def _acyclic(n, edges):
    adj = {i: [j for a, j in edges if a == i] for i in range(n)}
    color = [0] * n

    def visit(v):
        color[v] = 1
        for w in adj[v]:
            if color[w] == 1 or (color[w] == 0 and not visit(w)):
                return False
        color[v] = 2
        return True

    return all(color[v] or visit(v) for v in range(n))


def all_ops(n):
    ops = [("au", g, u) for g in range(n) for u in POOL]
    ops += [("ru", g, u) for g in range(n) for u in POOL]
    ops += [("ag", g, h) for g in range(n) for h in range(n)]
    ops += [("rg", g, h) for g in range(n) for h in range(n)]
    return ops


def graph_id(n, edges, units):
    return "G%d[%s|%s]" % (n, ",".join("%d>%d" % e for e in edges), ";".join("".join(u) for u in units))


def seq_id(seq):
    return ";".join("%s(%d,%s)" % op for op in seq)


class Model:
    def __init__(self, n, edges, units):
        self.n = n
        self.U = [set(u) for u in units]
        self.D = [set() for _ in range(n)]
        for i, j in edges:
            self.D[i].add(j)

    def reach(self, i):
        seen, stack = set(), [i]
        while stack:
            v = stack.pop()
            for w in self.D[v]:
                if w not in seen:
                    seen.add(w)
                    stack.append(w)
        return seen

    def members(self, i):
        m = set(self.U[i])
        for j in self.reach(i):
            m |= self.U[j]
        return frozenset(m)

    def apply(self, op):
        kind, g, a = op
        if kind == "au":
            self.U[g].add(a)
            return "ok"
        if kind == "ru":
            if a in self.U[g]:
                self.U[g].remove(a)
                return "ok"
            return "absent"
        if kind == "ag":
            if a == g or g in self.reach(a):
                return "cycle"
            self.D[g].add(a)
            return "ok"
        if a in self.D[g]:
            self.D[g].remove(a)
            return "ok"
        return "absent"


_TAG = [0]


def run_group_case(ureg, n, edges, units, seq, policy, col):
    """Build the graph in `ureg` (group names made unique by a tag), apply `seq`, observe per `policy`.
    Returns number of observations."""
    _TAG[0] += 1
    tag = "t%d_" % _TAG[0]
    # the scratch registry is reused for many cases: drop the groups/systems of earlier cases so that the
    # cost of a case does not grow with the number of cases already run
    for table in (getattr(ureg, "_systems", None), getattr(ureg, "_groups", None)):
        if table is not None:
            for k in [k for k in table if k.startswith("t") and "_" in k]:
                del table[k]
    names = [tag + "g%d" % i for i in range(n)]
    gid = graph_id(n, edges, units)
    example = {"part": "group", "n": n, "edges": [list(e) for e in edges], "units": [list(u) for u in units],
               "seq": [list(op) for op in seq], "policy": policy}
    model = Model(n, edges, units)
    try:
        groups = [ureg.get_group(nm) for nm in names]
        for i in range(n):
            if units[i]:
                groups[i].add_units(*units[i])
        for i, j in edges:
            groups[i].add_groups(names[j])
        sysdefs = {"A": [0], "B": sorted({1 % n, n - 1})}
        systems = {}
        for k, idx in sysdefs.items():
            systems[k] = ureg.get_system(tag + "s" + k)
            systems[k].add_groups(*[names[i] for i in idx])
    except Exception as e:
        col.add("group-build:%s" % gid, "building an acyclic graph raised %s: %s" % (type(e).__name__, _exc_text(e)), example)
        return 0
    sys_hist = {k: [] for k in systems}
    nobs = [0]

    def observe(which_groups, which_systems, step):
        for i in which_groups:
            nobs[0] += 1
            got = frozenset(groups[i].members)
            exp = model.members(i)
            if got != exp:
                col.add("group-members:%s:%s" % (gid, seq_id(seq)),
                        "after step %d (%s) g%d.members = %s, closure = %s"
                        % (step, policy, i, sorted(got), sorted(exp)), example)
        for k in which_systems:
            nobs[0] += 1
            got = frozenset(systems[k].members)
            exp = frozenset().union(*[model.members(i) for i in sysdefs[k]])
            if got != exp:
                if got in sys_hist[k]:
                    col.add("system-members-stale",
                            "System.members is a stale memo after a group edit: graph %s, edits %s: observed %s, "
                            "union of the groups' members is %s" % (gid, seq_id(seq), sorted(got), sorted(exp)),
                            example)
                else:
                    col.add("system-members:%s:%s" % (gid, seq_id(seq)),
                            "after step %d system %s.members = %s, expected %s" % (step, k, sorted(got), sorted(exp)),
                            example)
            sys_hist[k].append(exp)

    allg = range(n)
    alls = sorted(systems)
    observe(allg, alls, 0)
    for step, op in enumerate(seq, 1):
        kind, g, a = op
        expect = model.apply(op)
        exc = None
        try:
            if kind == "au":
                groups[g].add_units(a)
            elif kind == "ru":
                groups[g].remove_units(a)
            elif kind == "ag":
                groups[g].add_groups(names[a])
            else:
                groups[g].remove_groups(names[a])
        except Exception as e:  # noqa: BLE001 - classified below
            exc = e
        if expect == "ok" and exc is not None:
            col.add("group-op-raised:%s:%s" % (gid, seq_id(seq)),
                    "step %d %s raised %s: %s" % (step, op, type(exc).__name__, _exc_text(exc)), example)
            return nobs[0]
        if expect == "absent" and exc is not None and not isinstance(exc, (KeyError, ValueError)):
            col.add("group-op-raised:%s:%s" % (gid, seq_id(seq)),
                    "step %d %s (absent member) raised %s" % (step, op, type(exc).__name__), example)
            return nobs[0]
        if expect == "cycle" and not isinstance(exc, ValueError):
            how = "did not raise" if exc is None else "raised %s" % type(exc).__name__
            if g == a:
                col.add("group-self-loop",
                        "Group.add_groups(own name) %s instead of ValueError (and the group then uses itself): "
                        "graph %s, edits %s" % (how, gid, seq_id(seq)), example)
            else:
                col.add("group-cycle:%s:%s" % (gid, seq_id(seq)),
                        "step %d %s closes a `using` cycle but %s" % (step, op, how), example)
            return nobs[0]  # state of the real objects is now cyclic: stop here
        if policy == "each":
            observe(allg, alls, step)
        elif policy == "top":
            observe([0], ["B"], step)
    observe(allg, alls, len(seq))
    return nobs[0]


def UNIT_OPTIONS(i):
    """unit assignments of group i in the static part: every subset of {shared unit x, private unit p_i}"""
    return ((), ("x",), ("p%d" % i,), ("x", "p%d" % i))



def _group_worker(task):
    import pint

    col = Collector()
    evals = 0
    nontrivial = 0
    ureg = pint.UnitRegistry(None)
    kind = task[0]
    if kind == "static":
        _, n, dags = task
        for edges in dags:
            for combo in itertools.product(*[UNIT_OPTIONS(i) for i in range(n)]):
                evals += 1
                nontrivial += bool(edges)
                run_group_case(ureg, n, edges, combo, (), "each", col)
            ureg = pint.UnitRegistry(None)
    elif kind == "text":
        _, n, dags = task
        for edges in dags:
            evals += 1
            nontrivial += bool(edges)
            text_group_case(n, edges, col)
    else:
        _, n, dags, length, stride, offset = task
        ops = all_ops(n)
        units = INITIAL_UNITS[:n]
        for edges in dags:
            ureg = pint.UnitRegistry(None)
            for idx, seq in enumerate(itertools.product(ops, repeat=length)):
                if stride > 1 and idx % stride != offset:
                    continue
                for policy in ("each", "end", "top"):
                    evals += 1
                    nontrivial += 1
                    run_group_case(ureg, n, edges, units, seq, policy, col)
    return evals, nontrivial, col.entries


def _topo(n, edges):
    order, done = [], set()
    while len(order) < n:
        for i in range(n):
            if i not in done and all(j in done for a, j in edges if a == i):
                order.append(i)
                done.add(i)
    return order


def text_group_case(n, edges, col):
    """Build the graph through `@group` definition text (Group.from_definition) by loading a definition file
    (scratch file under tempfile.mkdtemp(), removed afterwards) into a fresh registry."""
    import shutil
    import tempfile

    import pint

    gid = "text:" + graph_id(n, edges, [("u%d" % i, "v%d" % i) for i in range(n)])
    example = {"part": "group-text", "n": n, "edges": [list(e) for e in edges]}
    lines = ["@defaults", "    group = common", "    system = S0", "@end", "w = [dw]", "w2 = 2 * w"]
    for i in _topo(n, edges):
        used = [j for a, j in edges if a == i]
        lines.append("@group g%d" % i + (" using " + ", ".join("g%d" % j for j in used) if used else ""))
        lines.append("    u%d = [d%d]" % (i, i))
        lines.append("    v%d = 3 * u%d" % (i, i))
        lines.append("@end")
    lines += ["@system S0 using common, g0", "    w2", "@end"]
    tmp = tempfile.mkdtemp(prefix="c14_")
    try:
        path = os.path.join(tmp, "defs.txt")
        with open(path, "w", encoding="utf-8") as fh:
            fh.write("\n".join(lines) + "\n")
        ureg = pint.UnitRegistry(path)
        ureg.get_group("root", False)  # force initialisation of the (lazy-free) registry
    finally:
        shutil.rmtree(tmp, ignore_errors=True)
    units = [("u%d" % i, "v%d" % i) for i in range(n)]
    model = Model(n, edges, units)
    expected = {"g%d" % i: model.members(i) for i in range(n)}
    expected["common"] = frozenset(["w", "w2"])
    expected["root"] = frozenset(["w", "w2"] + [x for u in units for x in u])
    samedim = [("w", "w2")] + units
    got = frozenset(ureg.get_system("S0", False).members)
    if got != expected["common"] | expected["g0"]:
        col.add("system-members:%s:S0" % gid, "S0.members = %s, expected %s"
                % (sorted(got), sorted(expected["common"] | expected["g0"])), example)
    for g, exp in expected.items():
        got = frozenset(ureg.get_group(g, False).members)
        if got != exp:
            col.add("group-members:%s:%s" % (gid, g), "%s.members = %s, expected %s" % (g, sorted(got), sorted(exp)),
                    example)
        # restricted compatible units: same dimension among the members
        for cls in samedim:
            gotc = {next(iter(u._units)) for u in ureg.get_compatible_units(cls[0], g)}
            expc = {m for m in exp if m in cls}
            if gotc != expc:
                col.add("group-compatible:%s:%s:%s" % (gid, g, cls[0]),
                        "get_compatible_units(%r, %r) = %s, expected %s" % (cls[0], g, sorted(gotc), sorted(expc)),
                        example)


def group_tasks(tier, seed):
    rng = random.Random(seed + 1)
    tasks = []
    dags = {n: all_dags(n) for n in (1, 2, 3, 4)}
    for n in (1, 2, 3, 4):
        ds = dags[n]
        for a in range(0, len(ds), 8):
            tasks.append(("static", n, ds[a:a + 8]))
        for a in range(0, len(ds), 40):
            tasks.append(("text", n, ds[a:a + 40]))
    plan = []
    if tier == "quick":
        plan = [(2, 1, 1), (2, 2, 1), (2, 3, 1), (3, 1, 1), (3, 2, 1), (3, 3, 24), (4, 1, 1), (4, 2, 48)]
    else:
        plan = [(2, 1, 1), (2, 2, 1), (2, 3, 1), (3, 1, 1), (3, 2, 1), (3, 3, 1), (4, 1, 1), (4, 2, 1)]
    desc = []
    for n, length, stride in plan:
        ds = dags[n]
        offset = rng.randrange(stride) if stride > 1 else 0
        per = 1 if (len(all_ops(n)) ** length) // stride > 500 else 16
        for a in range(0, len(ds), per):
            tasks.append(("edit", n, ds[a:a + per], length, stride, offset))
        desc.append("%d groups: all %d DAGs x %s edit sequences of length %d (%d ops)"
                    % (n, len(ds), "all" if stride == 1 else "every %dth of the" % stride, length, len(all_ops(n))))
    return tasks, dags, desc


def replay_group(ex):
    import pint

    col = Collector()
    if ex["part"] == "group-text":
        text_group_case(ex["n"], [tuple(e) for e in ex["edges"]], col)
    else:
        ureg = pint.UnitRegistry(None)
        run_group_case(ureg, ex["n"], [tuple(e) for e in ex["edges"]], [tuple(u) for u in ex["units"]],
                       [tuple(op) for op in ex["seq"]], ex["policy"], col)
    return not col.entries


# =============================================================================== part 3: rule inversion
RULE_NEW = ("centimeter", "kilometer", "inch", "minute", "hour", "kilogram", "pound", "newton", "dyne", "joule",
            "erg", "watt", "pascal", "hertz", "coulomb", "volt", "ohm", "hectare", "liter", "knot", "kilowatt_hour")
RULE_OLD = (None, "meter", "second", "gram", "ampere", "kelvin", "kilogram")
RULE_PROBES = ("meter", "second", "gram", "ampere", "kelvin", "kilogram", "joule", "newton", "watt", "volt", "ohm",
               "coulomb", "hour", "liter", "hectare", "pascal", "hertz", "kilometer", "pound", "inch", "mole",
               "farad", "tesla", "poise")


def rule_text(new, old):
    return new if old is None else "%s: %s" % (new, old)


_RULE_ENV = {}


def _rule_env():
    if not _RULE_ENV:
        import pint
        from standins.ref import Ref

        ureg = pint.UnitRegistry(non_int_type=Fraction)
        _RULE_ENV["ureg"] = ureg
        _RULE_ENV["ref"] = Ref(ureg)
        _RULE_ENV["n"] = 0
    return _RULE_ENV


def check_rule(new, old):
    """-> (status, problems) for the generated system with the single rule."""
    env = _rule_env()
    ureg, ref = env["ureg"], env["ref"]
    roots = {d.name for d in ref.units.values() if d.is_base}
    _, newroot = ref.root({new: 1})
    # is the rule well formed according to the documented conditions?
    if old is None:
        valid = len(newroot) == 1
        replaced = set(newroot) if valid else set()
    else:
        valid = old in roots and old in newroot
        replaced = {old}
    env["n"] += 1
    sname = "xr%d" % env["n"]
    lines = ["@system %s using international" % sname, "    " + rule_text(new, old), "@end"]
    try:
        ureg.load_definitions(lines)
        defined = True
    except Exception as e:
        defined = False
        err = e
    if not valid:
        if defined:
            return "invalid-accepted", [("ill-formed rule accepted (old must be a root unit contained in new / new "
                                         "must have a single root unit)", None)]
        return "invalid-rejected", []
    if not defined:
        return "valid-rejected", [("well-formed rule rejected with %s: %s" % (type(err).__name__, _exc_text(err)), None)]
    allowed = {new} | (roots - replaced)
    problems = []
    for probe in sorted(set(RULE_PROBES) | {new}):
        ucd = {probe: 1}
        try:
            f, bu = ureg.get_base_units(ureg.UnitsContainer(ucd), system=sname)
        except Exception as e:
            problems.append(("get_base_units(%r) under rule %r raised %s" % (probe, rule_text(new, old),
                                                                          type(e).__name__), probe))
            continue
        bud = dict(bu._units)
        extra = sorted(set(bud) - allowed)
        if extra:
            problems.append(("base units of %s are %s: uses %s" % (probe, uc_id(bud), extra), probe))
            continue
        _, proot = ref.root(ucd)
        if set(proot) & replaced and new not in bud:
            problems.append(("base units of %s are %s: `%s` not used" % (probe, uc_id(bud), new), probe))
        if ref.dim(bud) != ref.dim(ucd):
            problems.append(("base units of %s are %s: dimensionality differs" % (probe, uc_id(bud)), probe))
            continue
        lhs, ex1 = ref_factor(ref, ucd)
        rhs, ex2 = ref_factor(ref, bud)
        frac_exp = any(Fraction(v).denominator != 1 for v in bud.values())
        if ex1 and ex2 and _is_exact_number(f) and not frac_exp:
            ok = lhs == f * rhs
        else:
            ok = _product_close(lhs, f, rhs)
        if not ok:
            problems.append(("1 %s = %r %s, reference ratio %s" % (probe, float(f), uc_id(bud), _ratio(lhs, rhs)),
                             probe))
    return "valid", problems


def part3(col, stats):
    for new in RULE_NEW:
        for old in RULE_OLD:
            status, problems = check_rule(new, old)
            stats["evals"] += 1 + (len(set(RULE_PROBES) | {new}) if status == "valid" else 0)
            stats["nontrivial"] += status == "valid"
            stats["rules"][status] = stats["rules"].get(status, 0) + 1
            if problems:
                rid = rule_text(new, old).replace(" ", "")
                e = {"part": "rule", "new": new, "old": old}
                col.add("rule-inversion:%s" % rid,
                        "@system with rule `%s`: %s (%d of the probes fail)"
                        % (rule_text(new, old), problems[0][0], len(problems)), e)
                col.entries["rule-inversion:%s" % rid]["instances"] = len(problems)


def replay_rule(ex):
    return not check_rule(ex["new"], ex["old"])[1]


# =============================================================================== part 4: compatible units, sys attr
def part4(env, col, stats):
    ureg, ref, text = env.ureg, env.ref, env.text
    ureg.default_system = None
    members = text_group_members(text)
    # "If the system has no group, it automatically uses the root group" (txt_defparser/system.py, documented)
    sys_members = {s: frozenset().union(*[members[g] for g in (d["using"] or ["root"])])
                   for s, d in text["systems"].items()}
    # membership of the real objects vs text
    for g, exp in members.items():
        stats["evals"] += 1
        got = frozenset(ureg.get_group(g, False).members)
        if got != exp:
            col.add("default-group-members:%s" % g, "members differ from the definition text: only real %s, only text "
                    "%s" % (sorted(got - exp)[:6], sorted(exp - got)[:6]), {"part": "compat", "scope": g, "unit": None})
    if set(ureg._groups) != set(members):
        col.add("default-groups-list", "groups %r vs text %r" % (sorted(ureg._groups), sorted(members)),
                {"part": "compat", "scope": None, "unit": None})
    for s, exp in sys_members.items():
        stats["evals"] += 1
        got = frozenset(ureg.get_system(s, False).members)
        if got != exp:
            col.add("default-system-members:%s" % s, "members differ from the union of the groups' members",
                    {"part": "compat", "scope": s, "unit": None})
    names = sorted(text["units"])
    dims = {u: tuple(sorted(ref.dim({u: 1}).items())) for u in names}
    scopes = [(g, members[g]) for g in sorted(members)] + [(s, sys_members[s]) for s in sorted(sys_members)]
    # unrestricted: every unit of the registry, i.e. also the delta_ twins it creates for offset units
    deltas = _delta_twins(ref)
    for u in deltas:
        dims[u] = tuple(sorted(ref.dim({u: 1}).items()))
    scopes.append((None, frozenset(names) | deltas))
    for scope, mem in scopes:
        for u in names:
            stats["evals"] += 1
            exp = {v for v in mem if dims[v] == dims[u]}
            stats["nontrivial"] += bool(exp) and scope is not None
            problem = compat_problem(ureg, u, scope, exp)
            if problem:
                col.add("compatible-units:%s:%s" % (scope, u), problem, {"part": "compat", "scope": scope, "unit": u})
    # attribute access through a system
    keys = sorted(ref.units)
    for s in sorted(text["systems"]):
        sysobj = getattr(ureg.sys, s)
        for item in keys:
            if not item.isidentifier() or item.startswith("_"):
                continue
            stats["evals"] += 1
            problem = sysattr_problem(ureg, ref, sysobj, s, item)
            stats["nontrivial"] += ref.resolve(s + "_" + item) is not None
            if problem:
                col.add("sys-attr:%s.%s" % (s, item), problem, {"part": "sysattr", "system": s, "item": item})
    try:
        stats["samples"].append({"part": 4, "ureg.sys.imperial.pint": uc_id(ureg.sys.imperial.pint._units),
                                 "ureg.sys.US.pint": uc_id(ureg.sys.US.pint._units),
                                 "get_compatible_units('meter','USCSLengthSurvey')":
                                     sorted(uc_id(u._units) for u in
                                            ureg.get_compatible_units("meter", "USCSLengthSurvey"))})
    except Exception as e:  # noqa: BLE001
        stats["samples"].append({"part": 4, "error": type(e).__name__})


def _delta_twins(ref):
    """names of the delta_ twins the registry table holds for offset units (read from the definition table)"""
    return frozenset(d.name for d in ref.units.values() if d.name.startswith("delta_"))


def compat_problem(ureg, u, scope, exp):
    got_units = ureg.get_compatible_units(u, scope) if scope is not None else ureg.get_compatible_units(u)
    got = set()
    for x in got_units:
        d = dict(x._units)
        if len(d) != 1 or list(d.values()) != [1]:
            return "returned a compound unit %r" % (d,)
        got.add(next(iter(d)))
    if got != exp:
        return ("get_compatible_units(%r, %r): only returned %s, only expected %s"
                % (u, scope, sorted(got - exp)[:6], sorted(exp - got)[:6]))
    return None


def sysattr_problem(ureg, ref, sysobj, s, item):
    if s + "_" + item in ref.units:
        exp = ref.units[s + "_" + item].name
    elif ref.resolve(s + "_" + item) is not None:
        return None  # prefixed spelling collides with "<system>_<item>": outside the stated clause
    else:
        exp = ref.units[item].name
    try:
        got = getattr(sysobj, item)
    except Exception as e:
        return "ureg.sys.%s.%s raised %s" % (s, item, type(e).__name__)
    d = dict(got._units)
    if d != {exp: 1}:
        return "ureg.sys.%s.%s = %r, expected unit %r" % (s, item, d, exp)
    return None


def replay_compat(ex):
    env = Env()
    env.ureg.default_system = None
    members = text_group_members(env.text)
    if ex["unit"] is None:
        col = Collector()
        part4(env, col, {"evals": 0, "nontrivial": 0, "samples": []})
        return not any(c.startswith("default-") for c in col.entries)
    scope = ex["scope"]
    if scope is None:
        mem = frozenset(env.text["units"]) | _delta_twins(env.ref)
    elif scope in members:
        mem = members[scope]
    else:
        mem = frozenset().union(*[members[g] for g in (env.text["systems"][scope]["using"] or ["root"])])
    du = env.ref.dim({ex["unit"]: 1})
    exp = {v for v in mem if env.ref.dim({v: 1}) == du}
    return compat_problem(env.ureg, ex["unit"], scope, exp) is None


def replay_sysattr(ex):
    env = Env()
    return sysattr_problem(env.ureg, env.ref, getattr(env.ureg.sys, ex["system"]), ex["system"], ex["item"]) is None


# =============================================================================== driver
def run(tier: str = "quick", seed: int = 0, **kw) -> dict:
    t0 = time.time()
    cpu0 = _cpu_total()
    workers = int(kw.get("workers", NWORKERS))
    col = Collector()
    stats = {"evals": 0, "nontrivial": 0, "samples": [], "rules": {}, "float_range_skips": 0}
    timing = {}

    gtasks, dags, desc = group_tasks(tier, seed)
    # heavy registry-based slices first, then the many small group tasks
    tasks = [("p1", tk) for tk in part1_tasks(tier, seed)] + [("p34", None)] + [("g", tk) for tk in gtasks]
    ctx = mp.get_context("fork")
    if workers > 1:
        with ctx.Pool(workers) as pool:
            results = pool.map(_any_worker, tasks, chunksize=1)
    else:
        results = [_any_worker(tk) for tk in tasks]
    n_mult = None
    for (kind, _), res in zip(tasks, results):
        cpu = res.pop("cpu")
        timing[kind] = round(timing.get(kind, 0.0) + cpu, 1)
        stats["evals"] += res["evals"]
        stats["nontrivial"] += res["nontrivial"]
        col.merge(res["entries"])
        stats["float_range_skips"] += res.get("float_range_skips", 0)
        stats["samples"] += res.get("samples", [])
        for k, v in res.get("rules", {}).items():
            stats["rules"][k] = stats["rules"].get(k, 0) + v
        n_mult = res.get("n_mult", n_mult)

    entries = sorted(col.entries.values(), key=lambda e: (e["case"].split(":")[0], len(e["case"]), e["case"]))
    # at most 25, round robin over the case classes (prefix before the first ':')
    buckets = {}
    for e in entries:
        buckets.setdefault(e["case"].split(":")[0], []).append(e)
    chosen, i = [], 0
    while len(chosen) < 25 and any(i < len(b) for b in buckets.values()):
        for k in sorted(buckets):
            if i < len(buckets[k]) and len(chosen) < 25:
                chosen.append(buckets[k][i])
        i += 1
    chosen.sort(key=lambda e: e["case"])
    stats["samples"].append({"part": 2, "graph": graph_id(3, [(0, 1), (1, 2)], INITIAL_UNITS[:3]),
                             "edits": "au(2,y);rg(1,2);ag(2,0)", "policy": "each",
                             "expected members after the edits": {"g0": ["x", "y"], "g1": ["x", "y"],
                                                                  "g2": ["x", "y"]}})
    stats["samples"].append({"part": 3, "rule": "@system xr using international / newton: gram / @end",
                             "probes": list(RULE_PROBES)[:6]})
    nd = {n: len(d) for n, d in dags.items()}
    bound = (
        "(1) %d multiplicative units of the default Fraction registry and %d seeded compound containers x 7 systems "
        "via system=, all units + a third of the compounds x (7 systems + none) via default_system with "
        "get_base_units/to_base_units/ito_base_units, and a walk over all 64 ordered pairs of default_system settings "
        "(%s probe units); (2) all `using` DAGs on 1..4 labelled groups (%d/%d/%d/%d) x 4^n unit assignments "
        "(object API) and each DAG once through @group text; edits: %s, each under 3 observation policies; "
        "(3) %d generated one-rule systems (%d new units x %d old choices) x %d probe units; (4) "
        "get_compatible_units for every declared unit x (17 groups + 7 systems + unrestricted) and "
        "ureg.sys.<system>.<name> for every declared name/alias/symbol x 7 systems"
        % (n_mult, 150 if tier == "quick" else 1500, "60" if tier == "quick" else "all",
           nd[1], nd[2], nd[3], nd[4], "; ".join(desc), len(RULE_NEW) * len(RULE_OLD), len(RULE_NEW), len(RULE_OLD),
           len(RULE_PROBES) + 1))
    return {
        "name": NAME,
        "tier": tier,
        "seed": seed,
        "bound": bound,
        "evaluations": stats["evals"],
        "distinct_nontrivial": stats["nontrivial"],
        "rule": "cross products as stated in `bound`; non-trivial: base-unit cases where the system replaces a root "
                "unit occurring in the input, group cases with at least one `using` edge or one edit, well-formed "
                "rules, compatible-unit queries with a non-empty expected set, attribute names with a system variant",
        "exhaustive": tier != "quick",
        "violations": chosen,
        "violation_count": len(entries),
        "violating_evaluations": sum(e["instances"] for e in entries),
        "violation_classes": {k: len(b) for k, b in sorted(buckets.items())},
        "rule_status": stats["rules"],
        "float_range_skips": stats["float_range_skips"],
        "observations": [
            "%d base-unit observations were not judged because a float factor or intermediate of pint left the double "
            "range (0.0 / inf / nan / OverflowError; Planck and atomic units raised to high powers)"
            % stats["float_range_skips"],
            "value comparison is exact (Fractions) when every unit of input and result has a rational chain; with a "
            "non-integer power in a chain (bohr, planck_*, franklin, ...) it is |lhs - f*rhs| <= 1e-9 relative, "
            "evaluated in 50-digit decimal arithmetic",
        ],
        "cpu_seconds_by_part": timing,
        "samples": stats["samples"],
        "seconds": round(time.time() - t0, 1),
        "cpu_seconds": round(_cpu_total() - cpu0, 1),
    }


def _any_worker(task):
    kind, tk = task
    t = time.process_time()
    if kind == "g":
        e, nt, entries = _group_worker(tk)
        res = {"evals": e, "nontrivial": nt, "entries": entries}
    elif kind == "p1":
        e, nt, entries, skips, samples = _part1_worker(tk)
        res = {"evals": e, "nontrivial": nt, "entries": entries, "float_range_skips": skips, "samples": samples}
    else:
        col = Collector()
        stats = {"evals": 0, "nontrivial": 0, "samples": [], "rules": {}}
        part3(col, stats)
        env = Env()
        part4(env, col, stats)
        res = {"evals": stats["evals"], "nontrivial": stats["nontrivial"], "entries": col.entries,
               "samples": stats["samples"], "rules": stats["rules"], "n_mult": len(env.mult_units)}
    res["cpu"] = time.process_time() - t
    return res


def replay(data: dict) -> bool:
    ok = True
    for ex in data.get("examples", []):
        part = ex.get("part")
        if part == "base":
            ok = replay_base(ex) and ok
        elif part in ("group", "group-text"):
            ok = replay_group(ex) and ok
        elif part == "rule":
            ok = replay_rule(ex) and ok
        elif part == "compat":
            ok = replay_compat(ex) and ok
        elif part == "sysattr":
            ok = replay_sysattr(ex) and ok
        elif part == "systems-list":
            env = Env()
            ok = (sorted(dir(env.ureg.sys)) == env.systems) and ok
        elif part == "getter":
            env = Env()
            env.ureg.default_system = ex["system"]
            ok = (env.ureg.default_system == ex["system"]) and ok
        else:
            raise ValueError("unknown example %r" % (ex,))
    return ok


if __name__ == "__main__":
    import argparse

    ap = argparse.ArgumentParser()
    ap.add_argument("--tier", default="quick")
    ap.add_argument("--seed", type=int, default=0)
    ap.add_argument("--workers", type=int, default=NWORKERS)
    a = ap.parse_args()
    print(json.dumps(run(a.tier, a.seed, workers=a.workers), indent=1, default=str))
