"""Bounded stand-in (C10, supplementary to c10_defs): position of @context / @system / @group BLOCKS among the lines
they mention, redefinition of a unit a @system rule names, and the content-keyed disk cache.

"Loading a definition file is deterministic and independent of the order of definitions and of the loading path
(file, string, lines, programmatic define, disk-cached): same set of definitions -> same factors and dimensions;
redefinitions follow the documented policy".

Part A (block positions).  Small generated definition sets (`make_spec`): 3 base units/dimensions, 3 derived dimensions,
a prefix, 8 plain units with reference chains (one through a prefixed name, one through a unit that is defined inside
the group block), one @context (two relations over [force]/[length], default parameter, optionally a redefinition), one
@system (rules naming chained units; one variant names a unit defined in the group block, one uses a `new:old` rule),
one @group (two unit definitions).  Every name is defined exactly once.  For several permutations of the plain lines,
every block is put at EVERY position among the lines (the other blocks stay last), and the group+system pair likewise;
every layout is loaded through each loading path (constructor from lines / file; load_definitions(lines / file) on an
empty registry; define() statement by statement) and ~350 read-only queries (get_dimensionality, get_root_units,
get_base_units with and without system, Quantity.check, is_compatible_with, get_compatible_units with group / system,
conversions, context conversions, group / system members, base-unit rules, default_system + to_base_units) are compared
with the SAME path's canonical layout (blocks last).  A layout may be refused at load time only if a name in the block's
transitive dependency closure (computed here from the spec) is defined after the block; a silent difference is always
a violation.  The canonical layout itself is compared with an independent exact model (`Model`: Fractions over the spec).
With on_redefinition="raise" every permutation of the plain lines must load (nothing is defined twice).

Part A2 (redefinition).  on_redefinition in ignore/warn; a unit named in a @system rule (or a unit in its chain) is
defined again by a LATER line of the same load (other factor; thorough/quick also: other dimension); the system block
between the two definitions vs last.  get_root_units, to_root_units, to(), get_base_units (default / system) must agree
with the model of the kept (= last) definitions and with the block-last layout, through every loading path.

Part B (disk cache).  One shared cache_folder; definition sets A and B (same names, different factors / dimensions)
loaded A, B, A, B (cold, cold, warm, warm) from lines, from two files with the same name in different directories, from
one path rewritten between loads, from identical main files that `@import` different sub files, load_definitions on a
cached empty registry, and float / Fraction registries sharing the folder; every registry must answer like the same
definitions loaded through the same route without a cache.
"""
from __future__ import annotations

import itertools
import json
import logging
import math
import multiprocessing
import os
import random
import shutil
import tempfile
import time
from fractions import Fraction

NAME = "c10_order"
MAX_LISTED = 25
PATHS = ["ctor-lines", "ctor-file", "load-lines", "load-file", "define-each"]
FACTORS = [Fraction(1, 4), Fraction(1, 2), Fraction(3, 4), Fraction(1, 8), Fraction(2), Fraction(3), Fraction(8),
           Fraction(12), Fraction(22), Fraction(14), Fraction(512), Fraction(1024)]
BASE = {"meter": ("[length]", "m"), "second": ("[time]", "s"), "gram": ("[mass]", "g")}
SYMBOL = {"yard": "yd", "foot": "ft", "pound": "lb", "minute": "min", "newton": "N", "poundal": "pdl"}


# ------------------------------------------------------------------------------------------------
# spec + independent model
# ------------------------------------------------------------------------------------------------
def _num(fr):
    return repr(float(fr)) if fr.denominator != 1 else str(fr.numerator)


def _reftext(ref):
    num = [k if e == 1 else f"{k} ** {e}" for k, e in ref.items() if e > 0]
    den = [k if e == -1 else f"{k} ** {-e}" for k, e in ref.items() if e < 0]
    return " * ".join(num) + "".join(" / " + d for d in den)


def make_spec(i, seed):
    rng = random.Random(f"{seed}:spec:{i}")
    pick = lambda: rng.choice(FACTORS)  # noqa: E731
    dims = {
        "[velocity]": {"[length]": 1, "[time]": -1},
        "[acceleration]": rng.choice([{"[velocity]": 1, "[time]": -1}, {"[length]": 1, "[time]": -2}]),
        "[force]": {"[mass]": 1, "[acceleration]": 1},
    }
    units = {
        "yard": (pick(), {"meter": 1}),
        "foot": (pick(), rng.choice([{"yard": 1}, {"meter": 1}])),
        "pound": (pick(), {"gram": 1}),
        "minute": (Fraction(60), {"second": 1}),
        "newton": (pick(), rng.choice([{"gram": 1, "meter": 1, "second": -2}, {"pound": 1, "yard": 1, "minute": -2},
                                       {"kilogram": 1, "meter": 1, "second": -2}])),
        "poundal": (pick(), rng.choice([{"pound": 1, "foot": 1, "second": -2}, {"newton": 1}])),
        "furlong": (pick(), {"chain": 1}),
        "tonne": (Fraction(1000), {"kilogram": 1}),
    }
    grp_units = {"chain": (pick(), {"yard": 1}), "stone": (pick(), {"pound": 1})}
    sys_rules = [[("yard", None), ("pound", None)], [("foot", None), ("stone", None), ("minute", None)],
                 [("yard", None), ("newton", "gram")]][i % 3]
    ctx_redef = [("foot", pick(), {"yard": 1})] if i % 2 else []
    k = 2
    plain = [("kilo", "kilo- = 1000 = k-")]
    for n, (d, s) in BASE.items():
        plain.append((n, f"{n} = {d} = {s}"))
    for d, ref in dims.items():
        plain.append((d, f"{d} = {_reftext(ref)}"))
    for n, (f, ref) in units.items():
        plain.append((n, f"{n} = {_num(f)} {_reftext(ref)}" + (f" = {SYMBOL[n]}" if n in SYMBOL else "")))
    blocks = {
        "ctx": [f"@context(k={k}) mech = mc", "    [force] -> [length]: value / (k * newton / meter)",
                "    [length] -> [force]: value * k * newton / meter"]
               + [f"    {n} = {_num(f)} {_reftext(ref)}" for n, f, ref in ctx_redef] + ["@end"],
        "grp": ["@group grp"] + [f"    {n} = {_num(f)} {_reftext(ref)}" for n, (f, ref) in grp_units.items()] + ["@end"],
        "sys": ["@system imp using grp"] + ["    " + (a if b is None else f"{a}:{b}") for a, b in sys_rules] + ["@end"],
    }
    return {"i": i, "dims": dims, "units": units, "grp_units": grp_units, "sys_rules": sys_rules, "ctx_redef": ctx_redef,
            "k": k, "plain": plain, "blocks": blocks}


class Model:
    """exact reading of a spec (independent of pint)"""

    def __init__(self, spec, override=None):
        self.dims = spec["dims"]
        self.units = dict(spec["units"])
        self.units.update(spec["grp_units"])
        self.units.update(override or {})
        self.simple_rules = all(b is None for _, b in spec["sys_rules"])
        self.rules = [a for a, _ in spec["sys_rules"]]
        self.grp = sorted(spec["grp_units"])

    def names(self):
        return list(BASE) + list(self.units)

    def root(self, ref):
        """-> (Fraction, {base unit: exp})"""
        f, acc = Fraction(1), {}
        for n, e in ref.items():
            e = Fraction(e)
            if n in BASE:
                acc[n] = acc.get(n, 0) + e
                continue
            if n.startswith("kilo") and (n[4:] in BASE or n[4:] in self.units):
                f *= Fraction(1000) ** e
                sf, sref = Fraction(1), {n[4:]: 1}
            else:
                sf, sref = self.units[n]
            rf, racc = self.root(sref)
            f *= (sf * rf) ** e
            for kk, vv in racc.items():
                acc[kk] = acc.get(kk, 0) + vv * e
        return f, {kk: vv for kk, vv in acc.items() if vv != 0}

    def dimdim(self, ref):
        acc = {}
        for d, e in ref.items():
            if d in self.dims:
                for kk, vv in self.dimdim(self.dims[d]).items():
                    acc[kk] = acc.get(kk, 0) + vv * e
            else:
                acc[d] = acc.get(d, 0) + e
        return {kk: vv for kk, vv in acc.items() if vv != 0}

    def dim(self, ref):
        _f, acc = self.root(ref)
        return self.dimdim({BASE[n][0]: e for n, e in acc.items()})

    def base_imp(self, ref):
        f, acc = self.root(ref)
        out = {}
        repl = {}
        for new in self.rules:
            nf, nacc = self.root({new: 1})
            (old, e), = nacc.items()
            assert e == 1
            repl[old] = (new, nf)
        for n, e in acc.items():
            if n in repl:
                new, nf = repl[n]
                out[new] = e
                f /= nf ** e
            else:
                out[n] = e
        return f, out


EXPRS = {"newton/foot": {"newton": 1, "foot": -1}, "pound*furlong/minute**2": {"pound": 1, "furlong": 1, "minute": -2},
         "kilogram": {"kilogram": 1}, "kiloyard": {"kiloyard": 1}}
PAIR_NAMES = ["meter", "yard", "foot", "furlong", "gram", "pound", "stone", "tonne", "minute", "newton", "poundal"]


def _fu(r):
    return [r[0], dict(r[1]._units)]


def _uname(x):
    return next(iter(x._units))


def queries(u, spec):
    """read-only API of the registry -> {key: json-able}; the state-changing default_system query comes last"""
    out = {}

    def q(key, f):
        try:
            out[key] = f()
        except Exception as e:  # noqa: BLE001
            out[key] = "EXC:" + type(e).__name__

    names = list(BASE) + list(spec["units"]) + list(spec["grp_units"])
    for d in list(spec["dims"]) + ["[length]"]:
        q(f"dim:{d}", lambda: dict(u.get_dimensionality(d)))
    for x in names + list(EXPRS):
        q(f"dimu:{x}", lambda: dict(u.get_dimensionality(x)))
        q(f"root:{x}", lambda: _fu(u.get_root_units(x)))
        q(f"base:{x}", lambda: _fu(u.get_base_units(x)))
        q(f"baseimp:{x}", lambda: _fu(u.get_base_units(x, system="imp")))
        q(f"toroot:{x}", lambda: (lambda r: [r.magnitude, dict(r._units)])(u.Quantity(1, x).to_root_units()))
        for d in ("[force]", "[length]"):
            q(f"check:{x}:{d}", lambda: u.Quantity(1, x).check(d))
        q(f"compat:{x}", lambda: sorted(_uname(y) for y in u.get_compatible_units(x)))
        q(f"compatgrp:{x}", lambda: sorted(_uname(y) for y in u.get_compatible_units(x, "grp")))
        q(f"compatimp:{x}", lambda: sorted(_uname(y) for y in u.get_compatible_units(x, "imp")))
    for a, b in itertools.combinations(PAIR_NAMES, 2):
        q(f"iscompat:{a}:{b}", lambda: u.is_compatible_with(a, b))
        q(f"conv:{a}:{b}", lambda: u.Quantity(1, a).to(b).magnitude)
    q("ctx:newton->yard", lambda: u.Quantity(2, "newton").to("yard", "mech").magnitude)
    q("ctx:foot->poundal:k=4", lambda: u.Quantity(3, "foot").to("poundal", "mc", k=4).magnitude)
    q("ctx:foot->meter", lambda: u.Quantity(1, "foot").to("meter", "mech").magnitude)
    q("ctx:off:newton->yard", lambda: u.Quantity(2, "newton").to("yard").magnitude)
    q("grp:members", lambda: sorted(u.get_group("grp", False).members))
    q("sys:members", lambda: sorted(u.get_system("imp", False).members))
    q("sys:rules", lambda: {kk: dict(vv) for kk, vv in u.get_system("imp", False).base_units.items()})

    def with_default():
        u.default_system = "imp"
        r = u.Quantity(1, "newton").to_base_units()
        return [r.magnitude, dict(r._units)]

    q("default_system:newton", with_default)
    return out


def expected(spec, ctor_path=True):
    """the model's answers for the keys it can decide"""
    m = Model(spec)
    out = {}
    names = m.names()
    refs = {n: {n: 1} for n in names}
    refs.update(EXPRS)

    def fl(d):
        return {kk: float(vv) if Fraction(vv).denominator != 1 else int(vv) for kk, vv in d.items()}

    for d in list(spec["dims"]) + ["[length]"]:
        out[f"dim:{d}"] = fl(m.dimdim({d: 1}))
    fdim = m.dimdim({"[force]": 1})
    for x, ref in refs.items():
        f, acc = m.root(ref)
        out[f"dimu:{x}"] = fl(m.dim(ref))
        out[f"root:{x}"] = [f, fl(acc)]
        out[f"base:{x}"] = [f, fl(acc)]
        out[f"toroot:{x}"] = [f, fl(acc)]
        if m.simple_rules:
            bf, bacc = m.base_imp(ref)
            out[f"baseimp:{x}"] = [bf, fl(bacc)]
        out[f"check:{x}:[force]"] = m.dim(ref) == fdim
        out[f"check:{x}:[length]"] = m.dim(ref) == {"[length]": 1}
        if ctor_path:
            same = sorted(n for n in names if m.dim({n: 1}) == m.dim(ref)) if m.dim(ref) else []
            out[f"compat:{x}"] = same
            out[f"compatgrp:{x}"] = [n for n in same if n in m.grp]
            out[f"compatimp:{x}"] = [n for n in same if n in m.grp]
    for a, b in itertools.combinations(PAIR_NAMES, 2):
        ok = m.dim({a: 1}) == m.dim({b: 1})
        out[f"iscompat:{a}:{b}"] = ok
        out[f"conv:{a}:{b}"] = m.root({a: 1})[0] / m.root({b: 1})[0] if ok else "EXC:DimensionalityError"
    r = lambda n: m.root({n: 1})[0]  # noqa: E731
    out["ctx:newton->yard"] = Fraction(2, spec["k"]) / r("yard")
    foot_in_ctx = r("foot")
    if spec["ctx_redef"]:
        _n, f, ref = spec["ctx_redef"][0]
        foot_in_ctx = f * m.root(ref)[0]
    # the [length]->[force] relation: 3 foot * k newton/meter, read with the context's own definition of foot;
    # poundal may itself be defined through foot, so its size is recomputed with the redefinition as well
    mc = Model(spec, {n: (f, ref) for n, f, ref in spec["ctx_redef"]})
    out["ctx:foot->poundal:k=4"] = 3 * foot_in_ctx * 4 * mc.root({"newton": 1})[0] / mc.root({"poundal": 1})[0]
    out["ctx:foot->meter"] = foot_in_ctx
    out["ctx:off:newton->yard"] = "EXC:DimensionalityError"
    out["grp:members"] = m.grp
    out["sys:members"] = m.grp
    return out


def same_value(a, b):
    if isinstance(a, (list, tuple)) and isinstance(b, (list, tuple)):
        return len(a) == len(b) and all(same_value(x, y) for x, y in zip(a, b))
    if isinstance(a, dict) and isinstance(b, dict):
        return set(a) == set(b) and all(same_value(a[kk], b[kk]) for kk in a)
    if isinstance(a, bool) or isinstance(b, bool) or isinstance(a, str) or isinstance(b, str):
        return type(a) is type(b) and a == b
    try:
        return math.isclose(float(a), float(b), rel_tol=1e-9, abs_tol=0.0)
    except (TypeError, ValueError):
        return a == b


def families(keys):
    """'check:newton:[force]' -> 'check'; the id of a failing layout names the kinds of query that differ"""
    return "+".join(sorted({kk.split(":")[0] for kk in keys}))


def diff_keys(a, b, only=None):
    keys = only if only is not None else sorted(set(a) | set(b))
    return [kk for kk in keys if not same_value(a.get(kk, "<missing>"), b.get(kk, "<missing>"))]


# ------------------------------------------------------------------------------------------------
# layouts + loading paths
# ------------------------------------------------------------------------------------------------
def closure(spec, block):
    """keys of the items (plain line keys or block names) a block depends on, transitively"""
    dim_def = {d: n for n, (d, _s) in BASE.items()}
    dim_def.update({d: d for d in spec["dims"]})

    def unit_keys(n):
        if n.startswith("kilo") and n != "kilo":
            return {"kilo"} | unit_keys(n[4:])
        if n in spec["grp_units"]:
            out = {"grp"}
            for r in spec["grp_units"][n][1]:
                out |= unit_keys(r)
            return out
        if n in BASE:
            return {n}
        out = {n}
        for r in spec["units"][n][1]:
            out |= unit_keys(r)
        return out

    def dim_keys(d):
        out = {dim_def[d]}
        for r in spec["dims"].get(d, {}):
            out |= dim_keys(r)
        return out

    if block == "ctx":
        return dim_keys("[force]") | dim_keys("[length]")
    if block == "sys":
        out = set()
        for a, b in spec["sys_rules"]:
            out |= unit_keys(a)
            if b:
                out |= unit_keys(b)
        return out
    return set()


def flatten(items):
    lines, statements = [], []
    for kind, _key, payload in items:
        if kind == "block":
            lines.extend(payload)
            statements.append("\n".join(payload))
        else:
            lines.append(payload)
            statements.append(payload)
    return lines, statements


_counter = itertools.count()


def load(path, items, tmp, **kw):
    import pint

    lines, statements = flatten(items)
    if path == "ctor-lines":
        return pint.UnitRegistry(lines, **kw)
    if path in ("ctor-file", "load-file"):
        p = os.path.join(tmp, f"defs_{next(_counter)}.txt")
        with open(p, "w", encoding="utf-8") as fh:
            fh.write("\n".join(lines) + "\n")
        if path == "ctor-file":
            return pint.UnitRegistry(p, **kw)
        u = pint.UnitRegistry(None, **kw)
        u.load_definitions(p)
        return u
    u = pint.UnitRegistry(None, **kw)
    if path == "load-lines":
        u.load_definitions(lines)
    elif path == "define-each":
        for st in statements:
            u.define(st)
    else:
        raise ValueError(path)
    return u


def outcome(path, items, spec, tmp, **kw):
    try:
        u = load(path, items, tmp, **kw)
    except Exception as e:  # noqa: BLE001
        return {"LOAD": "EXC:" + type(e).__name__}
    return queries(u, spec)


def perms(spec, n, seed):
    plain = [("line", kk, t) for kk, t in spec["plain"]]
    out = [("canonical", plain), ("reversed", plain[::-1])]
    rng = random.Random(f"{seed}:perm:{spec['i']}")
    for j in range(max(0, n - 2)):
        p = list(plain)
        rng.shuffle(p)
        out.append((f"shuffle{j}", p))
    return out[:n]


def block_item(spec, b):
    return ("block", b, spec["blocks"][b])


def run_order_task(path, spec_i, perm_j, tier, seed):
    """all block positions for one (loading path, spec, permutation of the plain lines)"""
    logging.getLogger("pint").setLevel(logging.CRITICAL)
    spec = make_spec(spec_i, seed)
    nperm = 4 if tier == "quick" else 12
    ptag, plain = perms(spec, nperm, seed)[perm_j]
    tmp = tempfile.mkdtemp(prefix="c10_order_")
    evals = nontrivial = refused = 0
    viols, samples = [], []
    try:
        canon_items = plain + [block_item(spec, b) for b in ("ctx", "grp", "sys")]
        canon = outcome(path, canon_items, spec, tmp)
        if "LOAD" in canon:
            raise AssertionError(("canonical layout does not load", path, spec_i, ptag, canon))
        evals += len(canon)
        # canonical layout against the independent model
        exp = expected(spec, ctor_path=path.startswith("ctor"))
        dk = diff_keys(canon, exp, only=sorted(exp))
        if dk:
            kk = dk[0]
            viols.append({"case": f"model:{path}:{families(dk)}", "what": f"[{path}, spec {spec_i}, lines {ptag}, blocks last] "
                          f"{len(dk)} queries differ from what the definitions say, e.g. {kk}: registry answers "
                          f"{canon.get(kk)!r}, expected {_j(exp[kk])!r}", "keys": dk[:12],
                          "kind": "model", "path": path, "lines": flatten(canon_items)[0], "key": kk, "spec": spec_i,
                          "seed": seed})
        moves = [("ctx",), ("grp",), ("sys",), ("grp", "sys")]
        if tier != "quick":
            moves += [("ctx", "grp", "sys"), ("sys", "grp")]
        for mv in moves:
            rest = [b for b in ("ctx", "grp", "sys") if b not in mv]
            for pos in range(len(plain) + 1):
                items = plain[:pos] + [block_item(spec, b) for b in mv] + plain[pos:] + [block_item(spec, b) for b in rest]
                if pos == len(plain) and list(mv) + rest == ["ctx", "grp", "sys"]:
                    continue
                order = [it[1] for it in items]
                late = {}
                for b in ("ctx", "grp", "sys"):
                    late[b] = sorted(kk for kk in closure(spec, b) if order.index(kk) > order.index(b))
                res = outcome(path, items, spec, tmp)
                mvtag = "+".join(mv)
                if "LOAD" in res:
                    evals += 1
                    if any(late.values()):
                        refused += 1
                        continue
                    viols.append({"case": f"order:{path}:{mvtag}:refused",
                                  "what": f"[{path}, spec {spec_i}, lines {ptag}] block(s) {mvtag} at position {pos}: load "
                                          f"raised {res['LOAD']} although every name the blocks depend on is defined before them",
                                  "kind": "order", "path": path, "lines": flatten(items)[0],
                                  "canon_lines": flatten(canon_items)[0], "statements": flatten(items)[1],
                                  "canon_statements": flatten(canon_items)[1], "key": "LOAD", "spec": spec_i, "seed": seed})
                    continue
                evals += len(res)
                nontrivial += 1
                dk = diff_keys(res, canon)
                if dk:
                    kk = dk[0]
                    viols.append({"case": f"order:{path}:{mvtag}:{families(dk)}",
                                  "what": f"[{path}, spec {spec_i}, lines {ptag}] block(s) {mvtag} at position {pos} of "
                                          f"{len(plain)} (defined only after the block: {late}): {len(dk)} queries differ "
                                          f"from the blocks-last layout, e.g. {kk} = {res.get(kk)!r}, with the blocks last "
                                          f"{canon.get(kk)!r}", "keys": dk[:12],
                                  "kind": "order", "path": path, "lines": flatten(items)[0],
                                  "canon_lines": flatten(canon_items)[0], "statements": flatten(items)[1],
                                  "canon_statements": flatten(canon_items)[1], "key": kk, "spec": spec_i, "seed": seed})
                if len(samples) < 1 and any(late.values()):
                    samples.append({"path": path, "spec": spec_i, "lines": flatten(items)[0], "defined_after_block": late,
                                    "differences": diff_keys(res, canon)})
        # on_redefinition="raise": nothing is defined twice, so every permutation must load
        if path in ("ctor-lines", "load-lines"):
            evals += 1
            res = outcome(path, canon_items, spec, tmp, on_redefinition="raise")
            if "LOAD" in res:
                order = [it[1] for it in canon_items]
                early = sorted(d for d, ref in spec["dims"].items() for r in ref
                               if r in spec["dims"] and order.index(r) > order.index(d))
                viols.append({"case": f"raise-order:{path}:" + ("dimension-used-before-its-line" if early else "other"),
                              "what": f"[{path}, on_redefinition='raise', spec {spec_i}, lines {ptag}] load raised "
                                      f"{res['LOAD']} although every name is defined exactly once (derived dimensions whose "
                                      f"line comes before a dimension they mention: {early})",
                              "kind": "raise", "path": path, "lines": flatten(canon_items)[0], "key": "LOAD",
                              "spec": spec_i, "seed": seed})
            else:
                nontrivial += 1
    finally:
        shutil.rmtree(tmp, ignore_errors=True)
    first = {}
    for v in viols:  # many layouts fail the same (path, block, query): keep the first layout of each case id
        first.setdefault(v["case"], v)
    return {"evals": evals, "nontrivial": nontrivial, "refused": refused, "viols": list(first.values()),
            "total": len(viols), "samples": samples}


def _j(v):
    if isinstance(v, Fraction):
        return float(v)
    if isinstance(v, (list, tuple)):
        return [_j(x) for x in v]
    if isinstance(v, dict):
        return {kk: _j(x) for kk, x in v.items()}
    return v


# ------------------------------------------------------------------------------------------------
# Part A2: redefinition of a unit named in a @system rule
# ------------------------------------------------------------------------------------------------
REDEF_KINDS = {
    # kind -> (rule unit, redefined unit, first (factor, ref), kept (factor, ref))
    "factor": ("yard", "yard", (Fraction(3, 4), {"meter": 1}), (Fraction(1, 2), {"meter": 1})),
    "chain": ("foot", "yard", (Fraction(3, 4), {"meter": 1}), (Fraction(1, 2), {"meter": 1})),
    "dimension": ("pace", "pace", (Fraction(2), {"meter": 1}), (Fraction(2), {"second": 1})),
}


def redef_queries(u):
    out = {}

    def q(key, f):
        try:
            out[key] = f()
        except Exception as e:  # noqa: BLE001
            out[key] = "EXC:" + type(e).__name__

    for x in ("yard", "foot", "pace", "meter", "second", "foot/second"):
        q(f"root:{x}", lambda: _fu(u.get_root_units(x)))
        q(f"toroot:{x}", lambda: (lambda r: [r.magnitude, dict(r._units)])(u.Quantity(1, x).to_root_units()))
        q(f"base:{x}", lambda: _fu(u.get_base_units(x)))
        q(f"baseimp:{x}", lambda: _fu(u.get_base_units(x, system="imp")))
        q(f"dimu:{x}", lambda: dict(u.get_dimensionality(x)))
    for a, b in (("yard", "meter"), ("foot", "meter"), ("foot", "yard"), ("pace", "meter"), ("pace", "second"), ("pace", "foot")):
        q(f"to:{a}:{b}", lambda: u.Quantity(1, a).to(b).magnitude)
    q("sys:rules", lambda: {kk: dict(vv) for kk, vv in u.get_system("imp", False).base_units.items()})
    return out


def run_redef_task(path, tier, seed):
    logging.getLogger("pint").setLevel(logging.CRITICAL)
    tmp = tempfile.mkdtemp(prefix="c10_order_")
    evals = nontrivial = 0
    viols, samples = [], []
    try:
        for kind, (rule, target, first, kept) in REDEF_KINDS.items():
            units = {"yard": (Fraction(3, 4), {"meter": 1}), "foot": (Fraction(1, 4), {"yard": 1}), "pace": (Fraction(2), {"meter": 1})}
            line = lambda n, fr: f"{n} = {_num(fr[0])} {_reftext(fr[1])}"  # noqa: E731
            head = [("line", n, f"{n} = {d} = {s}") for n, (d, s) in BASE.items()]
            defs = [("line", n, line(n, fr if n != target else first)) for n, fr in units.items()]
            again = ("line", target + "#2", line(target, kept))
            sysb = ("block", "sys", ["@system imp", f"    {rule}", "@end"])
            extra = [("line", "mile", "mile = 1760 yard")]
            layouts = {"sys-last": head + defs + [again] + extra + [sysb],
                       "sys-mid": head + defs + [sysb, again] + extra}
            # model with the kept definitions
            kept_units = dict(units)
            kept_units[target] = kept
            m = Model({"dims": {}, "units": kept_units, "grp_units": {}, "sys_rules": [(rule, None)]})
            exp = {}
            for x, ref in (("yard", {"yard": 1}), ("foot", {"foot": 1}), ("pace", {"pace": 1}), ("meter", {"meter": 1}),
                           ("second", {"second": 1}), ("foot/second", {"foot": 1, "second": -1})):
                f, acc = m.root(ref)
                exp[f"root:{x}"] = exp[f"toroot:{x}"] = exp[f"base:{x}"] = [f, {kk: int(v) for kk, v in acc.items()}]
                bf, bacc = m.base_imp(ref)
                exp[f"baseimp:{x}"] = [bf, {kk: int(v) for kk, v in bacc.items()}]
            for a, b in (("yard", "meter"), ("foot", "meter"), ("foot", "yard"), ("pace", "meter"), ("pace", "second"), ("pace", "foot")):
                ra, rb = m.root({a: 1}), m.root({b: 1})
                exp[f"to:{a}:{b}"] = ra[0] / rb[0] if ra[1] == rb[1] else "EXC:DimensionalityError"
            for onr in ("ignore", "warn"):
                results = {lt: outcome_redef(path, items, tmp, onr) for lt, items in layouts.items()}
                for lt, res in results.items():
                    evals += len(res)
                    nontrivial += 1
                    bad = {}
                    for kk in diff_keys(res, exp, only=sorted(exp)):
                        bad[kk] = f"{res.get(kk)!r}, the kept (last) definition says {_j(exp[kk])!r}"
                    if lt != "sys-last" and "LOAD" not in results["sys-last"]:
                        for kk in diff_keys(res, results["sys-last"]):
                            bad.setdefault(kk, f"{res.get(kk)!r}, with the system block last {results['sys-last'].get(kk)!r}")
                    if bad:
                        kk = sorted(bad)[0]
                        viols.append({"case": f"redef:{path}:{kind}:{lt}:{families(bad)}",
                                      "what": f"[{path}, on_redefinition={onr!r}] '{line(target, first)}' ... "
                                              f"'{line(target, kept)}' (kept), @system rule names {rule}, layout {lt}: "
                                              f"{len(bad)} queries wrong, e.g. {kk} = {bad[kk]}", "keys": sorted(bad)[:12],
                                      "lines": flatten(layouts[lt])[0], "on_redefinition": onr,
                                      "kind": "redef", "path": path, "tier": tier, "seed": seed})
                    if len(samples) < 1 and lt == "sys-mid":
                        samples.append({"path": path, "on_redefinition": onr, "lines": flatten(layouts[lt])[0]})
    finally:
        shutil.rmtree(tmp, ignore_errors=True)
    return {"evals": evals, "nontrivial": nontrivial, "refused": 0, "viols": viols, "samples": samples}


def outcome_redef(path, items, tmp, onr):
    try:
        u = load(path, items, tmp, on_redefinition=onr)
    except Exception as e:  # noqa: BLE001
        return {"LOAD": "EXC:" + type(e).__name__}
    return redef_queries(u)


# ------------------------------------------------------------------------------------------------
# Part B: content-keyed disk cache
# ------------------------------------------------------------------------------------------------
CACHE_BASE = ["kilo- = 1000 = k-", "meter = [length] = m", "second = [time] = s", "gram = [mass] = g"]
CACHE_SETS = {
    "A": ["yard = 0.75 meter = yd", "foot = 0.25 yard = ft", "widget = 3 gram", "gadget = 2 widget / second",
          "@group g1", "    chain = 22 yard", "@end", "@system isys using g1", "    yard", "@end"],
    "B": ["yard = 0.5 meter = yd", "foot = 0.125 yard = ft", "widget = 3 second", "gadget = 2 widget / second",
          "@group g1", "    chain = 20 yard", "@end", "@system isys using g1", "    yard", "@end"],
    # same as A in another line order (same definitions, different content hash)
    "A'": ["gadget = 2 widget / second", "widget = 3 gram", "foot = 0.25 yard = ft", "yard = 0.75 meter = yd",
           "@group g1", "    chain = 22 yard", "@end", "@system isys using g1", "    yard", "@end"],
}


def cache_queries(u):
    out = {}

    def q(key, f):
        try:
            out[key] = f()
        except Exception as e:  # noqa: BLE001
            out[key] = "EXC:" + type(e).__name__

    for x in ("yard", "foot", "widget", "gadget", "chain", "kilofoot", "gadget/foot"):
        q(f"root:{x}", lambda: _fu(u.get_root_units(x)))
        q(f"roottype:{x}", lambda: type(u.get_root_units(x)[0]).__name__)
        q(f"dimu:{x}", lambda: dict(u.get_dimensionality(x)))
        q(f"compat:{x}", lambda: sorted(_uname(y) for y in u.get_compatible_units(x)))
        q(f"compatgrp:{x}", lambda: sorted(_uname(y) for y in u.get_compatible_units(x, "g1")))
        q(f"baseisys:{x}", lambda: _fu(u.get_base_units(x, system="isys")))
    for a, b in itertools.combinations(("meter", "yard", "foot", "widget", "gram", "second", "chain"), 2):
        q(f"iscompat:{a}:{b}", lambda: u.is_compatible_with(a, b))
        q(f"conv:{a}:{b}", lambda: u.Quantity(1, a).to(b).magnitude)
    q("conv:chain:kilometer", lambda: u.Quantity(1, "chain").to("kilometer").magnitude)
    q("grp:members", lambda: sorted(u.get_group("g1", False).members))
    return out


def _write(p, lines):
    with open(p, "w", encoding="utf-8") as fh:
        fh.write("\n".join(lines) + "\n")
    return p


def cache_routes(tmp):
    """route -> function(set name, cache_folder or None) -> registry.  Same definitions, same route, with / without cache."""
    import pint

    d = {s: os.path.join(tmp, f"dir{j}") for j, s in enumerate(CACHE_SETS)}
    for s, p in d.items():
        os.makedirs(p, exist_ok=True)
    shared = os.path.join(tmp, "shared")
    os.makedirs(shared, exist_ok=True)

    def kw(cf, **more):
        return dict(more, **({"cache_folder": cf} if cf else {}))

    def lines(s, cf, **more):
        return pint.UnitRegistry(CACHE_BASE + CACHE_SETS[s], **kw(cf, **more))

    def samename(s, cf, **more):
        return pint.UnitRegistry(_write(os.path.join(d[s], "defs.txt"), CACHE_BASE + CACHE_SETS[s]), **kw(cf, **more))

    def rewrite(s, cf, **more):
        return pint.UnitRegistry(_write(os.path.join(shared, "defs.txt"), CACHE_BASE + CACHE_SETS[s]), **kw(cf, **more))

    def imported(s, cf, **more):
        _write(os.path.join(d[s], "sub.txt"), CACHE_SETS[s])
        return pint.UnitRegistry(_write(os.path.join(d[s], "main.txt"), CACHE_BASE + ["@import sub.txt"]), **kw(cf, **more))

    def late_lines(s, cf, **more):
        u = pint.UnitRegistry(CACHE_BASE, **kw(cf, **more))
        u.load_definitions(CACHE_SETS[s])
        return u

    def late_file(s, cf, **more):
        u = pint.UnitRegistry(_write(os.path.join(shared, "base.txt"), CACHE_BASE), **kw(cf, **more))
        u.load_definitions(_write(os.path.join(d[s], "late.txt"), CACHE_SETS[s]))
        return u

    def block(s, cf, **more):
        u = pint.UnitRegistry(CACHE_BASE, **kw(cf, **more))
        u.define("\n".join(CACHE_SETS[s]))
        return u

    return {"lines": lines, "same-name-files": samename, "rewritten-path": rewrite, "import-same-main": imported,
            "late-lines": late_lines, "late-file": late_file, "define-block": block}


def run_cache_task(tier, seed):
    logging.getLogger("pint").setLevel(logging.CRITICAL)
    tmp = tempfile.mkdtemp(prefix="c10_order_")
    evals = nontrivial = 0
    viols, samples = [], []
    try:
        routes = cache_routes(tmp)
        cf = os.path.join(tmp, "cache")  # ONE folder shared by every route, set and numeric type
        os.makedirs(cf)
        seq = ["A", "B", "A", "B", "A'", "A"] if tier == "quick" else ["A", "B", "A", "B", "A'", "A", "B", "A'", "B", "A"]
        types = [("float", {}), ("Fraction", {"non_int_type": Fraction})]
        ref = {}
        for rname, f in routes.items():
            for tname, more in types:
                for s in CACHE_SETS:
                    ref[rname, tname, s] = cache_queries(f(s, None, **more))
        rng = random.Random(f"{seed}:cache")
        steps = []
        for rname in routes:
            for n, s in enumerate(seq):
                for tname, more in types:
                    steps.append((rname, n, s, tname, more))
        if tier != "quick":  # also interleave the routes
            tail = [(r, n + len(seq), s, t, m) for (r, n, s, t, m) in steps]
            rng.shuffle(tail)
            steps += tail
        for rname, n, s, tname, more in steps:
            res = cache_queries(routes[rname](s, cf, **more))
            evals += len(res)
            nontrivial += 1
            want = ref[rname, tname, s]
            dk = diff_keys(res, want)
            if dk:
                kk = "root:foot" if "root:foot" in dk else dk[0]
                viols.append({"case": f"cache:{rname}:{tname}:{s}:{families(dk)}",
                              "what": f"shared cache_folder, route {rname}, non_int_type {tname}, load #{n} (sequence "
                                      f"{'/'.join(seq)}) of set {s}: {len(dk)} queries differ from the registry built "
                                      f"without cache, e.g. {kk} = {res.get(kk)!r}, without cache {want.get(kk)!r}",
                              "keys": dk[:12], "kind": "cache", "tier": tier, "seed": seed})
            if len(samples) < 1 and n == 3:
                samples.append({"route": rname, "sequence": seq, "load": n, "set": s, "root:foot": res.get("root:foot")})
    finally:
        shutil.rmtree(tmp, ignore_errors=True)
    return {"evals": evals, "nontrivial": nontrivial, "refused": 0, "viols": viols, "samples": samples}


# ------------------------------------------------------------------------------------------------
def _task(t):
    if t[0] == "order":
        return t, run_order_task(*t[1:])
    if t[0] == "redef":
        return t, run_redef_task(*t[1:])
    return t, run_cache_task(*t[1:])


def _tasks(tier, seed):
    nspec, nperm = (3, 4) if tier == "quick" else (9, 12)
    ts = [("cache", tier, seed)]
    ts += [("redef", p, tier, seed) for p in PATHS]
    ts += [("order", p, i, j, tier, seed) for i in range(nspec) for j in range(nperm) for p in PATHS]
    return ts


def _run(tasks):
    import pint  # noqa: F401  (import before forking)

    ctx = multiprocessing.get_context("fork")
    with ctx.Pool(min(16, len(tasks))) as pool:
        return pool.map(_task, tasks, chunksize=1)


def run(tier="quick", seed=0, **kw):
    t0 = time.time()
    tasks = _tasks(tier, seed)
    results = _run(tasks)
    evals = nontrivial = refused = total = 0
    viols, samples, seen = [], [], set()
    for t, r in results:
        evals += r["evals"]
        nontrivial += r["nontrivial"]
        refused += r["refused"]
        total += r.get("total", len(r["viols"]))
        for v in r["viols"]:
            if v["case"] not in seen:  # one case id = one (path, block, query); many layouts hit the same one
                seen.add(v["case"])
                viols.append(v)
        if r["samples"] and len(samples) < 5 and t[0] not in {s.get("_part") for s in samples}:
            samples.append(dict(r["samples"][0], _part=t[0]))
    nspec, nperm = (3, 4) if tier == "quick" else (9, 12)
    nplain = len(make_spec(0, seed)["plain"])
    nmoves = 4 if tier == "quick" else 6
    return {
        "name": NAME,
        "bound": f"A: {nspec} generated definition sets ({nplain} plain lines + @context + @group + @system) x {nperm} "
                 f"permutations of the plain lines x {nmoves} block moves x all {nplain + 1} positions x {len(PATHS)} loading "
                 f"paths, ~380 queries per layout, vs the same path's blocks-last layout and an exact model; "
                 f"on_redefinition='raise' on every permutation; A2: {len(REDEF_KINDS)} redefinition kinds x ignore/warn x 2 "
                 f"layouts x {len(PATHS)} paths; B: one shared cache_folder, 7 routes x {6 if tier == 'quick' else 20} loads of "
                 f"sets A/B/A' x float/Fraction, vs no cache",
        "evaluations": evals,
        "distinct_nontrivial": nontrivial,
        "rule": "A: every position of every block move is enumerated; non-trivial = the layout loads (then every query must "
                f"equal the blocks-last layout); {refused} layouts were refused at load time with a name of the block's "
                "dependency closure defined after the block (allowed; a refusal without that is a violation). "
                "A2/B: non-trivial = one loaded registry compared query by query",
        "exhaustive": True,
        "violations": viols[:MAX_LISTED],
        "violation_count": len(viols),
        "failing_comparisons": total,
        "violation_cases": sorted(seen),
        "samples": samples[:5],
        "seconds": round(time.time() - t0, 1),
    }


def replay(data):
    """True if the recorded case holds now"""
    logging.getLogger("pint").setLevel(logging.CRITICAL)
    kind = data.get("kind")
    if kind == "cache":
        r = run_cache_task(data.get("tier", "quick"), data.get("seed", 0))
        return all(v["case"] != data["case"] for v in r["viols"])
    if kind == "redef":
        r = run_redef_task(data["path"], data.get("tier", "quick"), data.get("seed", 0))
        return all(v["case"] != data["case"] for v in r["viols"])
    spec = make_spec(data["spec"], data.get("seed", 0))
    tmp = tempfile.mkdtemp(prefix="c10_order_")
    try:
        def items_of(statements):
            return [("block", "b", st.split("\n")) if st.startswith("@") and "\n" in st else ("line", "l", st) for st in statements]

        if kind == "raise":
            res = outcome(data["path"], [("line", "l", ln) for ln in data["lines"]], spec, tmp, on_redefinition="raise")
            return "LOAD" not in res
        if kind == "model":
            res = outcome(data["path"], [("line", "l", ln) for ln in data["lines"]], spec, tmp)
            exp = expected(spec, ctor_path=data["path"].startswith("ctor"))
            return same_value(res.get(data["key"], "<missing>"), exp[data["key"]])
        res = outcome(data["path"], items_of(data["statements"]), spec, tmp)
        canon = outcome(data["path"], items_of(data["canon_statements"]), spec, tmp)
        if data["key"] == "LOAD":
            return "LOAD" not in res
        return same_value(res.get(data["key"], "<missing>"), canon.get(data["key"], "<missing>"))
    finally:
        shutil.rmtree(tmp, ignore_errors=True)


if __name__ == "__main__":
    import argparse

    ap = argparse.ArgumentParser()
    ap.add_argument("--tier", default="quick")
    ap.add_argument("--seed", type=int, default=0)
    a = ap.parse_args()
    print(json.dumps(run(a.tier, a.seed), indent=1, default=_j))
