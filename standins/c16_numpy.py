"""Bounded stand-in for C16 "NumPy functions on quantity arrays respect units".

Assumed contracts on NumPy: tables/numpy_specs.json (homogeneity signature of every function / ufunc / ndarray method that
pint wraps, written from NumPy's documented mathematics).  Every key of pint's HANDLED_UFUNCS / HANDLED_FUNCTIONS is
enumerated at run time and must have a row (or a `no_spec` reason).

For every row, seeded random float arrays of rank 0-3 are generated as PHYSICAL values (root units); each quantity argument
is expressed in a unit of its dimension class (length: meter, centimeter, inch, kilometer, foot; time; mass; speed; pure
numbers: dimensionless, percent, meter/centimeter; angles: radian, degree, turn, arcminute) and `np.f(quantities)` is run.

ORACLE (independent of pint): the same NumPy call on the bare magnitudes multiplied by this module's own factors to root
units, with the unit implied by the signature attached; pint's result is decoded with standins.ref.Ref (factor and
dimensionality of the result's unit container from the definition table) and compared physically (rel. tol. 1e-9).  The
same physical inputs are re-expressed in several unit combinations (all root, all the same non-root unit, a different
unit per argument): every combination must give the oracle's physical result.  Unit dependent roundings (floor, round,
modf ...) are compared with NumPy on the magnitudes in the first argument's unit.

Error clause: operands of different dimension in one commensurable group, dimensional arguments where a pure number / an
angle is needed, and bare non-zero numbers next to dimensional quantities must raise DimensionalityError.
Offset clause: degC / degF arguments: functions marked `refuse` must raise OffsetUnitCalculusError, `delta` ones must
return a delta unit (or refuse), `ok` ones (order / selection / affine) must give the same temperature as on kelvin values.
Mutation clause: the magnitudes and units of all inputs are snapshotted before and compared after every call that is not
explicitly in-place; the explicit in-place forms (+=, -=, *=, /=, item assignment, fill, put, sort, copyto, out=) must
leave the target physically equal to the oracle and the other operands untouched.
"""
from __future__ import annotations

import json
import math
import os
import random
import re
import time
import warnings
from fractions import Fraction

import numpy as np

NAME = "c16_numpy"
RTOL = 1e-9
TABLE = os.path.join(os.path.dirname(os.path.dirname(os.path.abspath(__file__))), "tables", "numpy_specs.json")
PI = math.pi

# this module's own factors to root units (SI brochure / NIST SP 811), not read from pint
CLASSES = {
    "L": {"dim": {"[length]": 1}, "units": [("meter", 1.0), ("centimeter", 0.01), ("inch", 0.0254), ("kilometer", 1000.0),
                                            ("foot", 0.3048)]},
    "T": {"dim": {"[time]": 1}, "units": [("second", 1.0), ("millisecond", 1e-3), ("minute", 60.0), ("hour", 3600.0)]},
    "M": {"dim": {"[mass]": 1}, "units": [("gram", 1.0), ("kilogram", 1e3), ("pound", 453.59237)]},
    "V": {"dim": {"[length]": 1, "[time]": -1}, "units": [("meter/second", 1.0), ("kilometer/hour", 1 / 3.6),
                                                          ("mile/hour", 0.44704)]},
    "1": {"dim": {}, "units": [("dimensionless", 1.0), ("percent", 0.01), ("meter/centimeter", 100.0)]},
    "A": {"dim": {}, "units": [("radian", 1.0), ("degree", PI / 180), ("turn", 2 * PI), ("arcminute", PI / 10800)]},
}
FACTOR = {u: f for c in CLASSES.values() for u, f in c["units"]}
DIM_POOL = ("L", "T", "M", "V")
# temperature scales: kelvin = scale * (magnitude + shift)
OFFSET = {"degC": (1.0, 273.15), "degF": (5.0 / 9.0, 459.67), "kelvin": (1.0, 0.0)}
OFFSET_LONG = {"degree_Celsius": "degC", "degree_Fahrenheit": "degF", "kelvin": "kelvin"}
DELTA = {"delta_degree_Celsius": 1.0, "delta_degree_Fahrenheit": 5.0 / 9.0, "kelvin": 1.0}


class HarnessError(Exception):
    pass


# =============================================================================== collector
class Collector:
    def __init__(self):
        self.entries = {}

    def add(self, case, what, example, cls):
        e = self.entries.get(case)
        if e is None:
            e = self.entries[case] = {"case": case, "what": what, "class": cls, "instances": 0, "examples": []}
        e["instances"] += 1
        if len(e["examples"]) < 2:
            e["examples"].append(example)


# =============================================================================== registries
_R = {}


def regs():
    if not _R:
        import pint
        from standins.ref import Ref

        _R["pint"] = pint
        _R["default"] = pint.UnitRegistry()
        _R["fnl"] = pint.UnitRegistry(force_ndarray_like=True)
        _R["ref"] = Ref(_R["default"])
        _R["fcache"] = {}
        _R["specs"] = json.load(open(TABLE))
        ref = _R["ref"]
        for u, f in FACTOR.items():  # sanity of the harness tables against the definition table
            q = _R["default"].Quantity(1.0, u)
            g = 1.0
            for k, e in q._units.items():
                g *= float(ref.factor({k: 1})) ** e
            if abs(g - f) > 1e-12 * f:
                raise HarnessError("factor table disagrees with the definitions for %s: %r vs %r" % (u, f, g))
    return _R


def unit_factor(name):
    c = regs()["fcache"]
    if name not in c:
        c[name] = float(regs()["ref"].factor({name: 1}))
    return c[name]


def is_q(x):
    return hasattr(x, "_units") and hasattr(x, "_magnitude")


def decode(q):
    """pint quantity -> (physical values in root units, dimensionality dict, kind) with kind in
    'mult' | 'abs' (absolute temperature, kelvin) | 'delta'; independent of pint's conversion code"""
    units = {k: (int(v) if float(v) == int(v) else float(v)) for k, v in q._units.items()}
    mag = np.asarray(q.magnitude)
    if len(units) == 1:
        (k, e), = units.items()
        if k in OFFSET_LONG and k != "kelvin" and e == 1:
            s, sh = OFFSET[OFFSET_LONG[k]]
            return (mag + sh) * s, {"[temperature]": 1.0}, "abs"
        if k in DELTA and e == 1:
            return mag * DELTA[k], {"[temperature]": 1.0}, "delta" if k != "kelvin" else "kelvin"
    f = 1.0
    for k, e in units.items():
        if k in OFFSET_LONG and k != "kelvin":
            return mag, {"?offset-unit-in-compound": 1.0}, "bad:" + "*".join("%s^%s" % kv for kv in units.items())
        f *= (DELTA[k] if k in DELTA else unit_factor(k)) ** float(e)
    dims = {k: float(v) for k, v in regs()["ref"].dim(units).items() if abs(float(v)) > 1e-12}
    return mag * f, dims, "mult"


# =============================================================================== random data
def shape_of(rng, rank, lo=1, hi=4):
    return tuple(rng.randint(lo, hi) for _ in range(rank))


def arr(rng, shape, lo=-10.0, hi=10.0, nz=None, specials=False):
    """float array with values on a 1e-4 grid (no accidental near-ties); nz = minimal |value|"""
    n = 1
    for s in shape:
        n *= s
    vals = []
    for _ in range(n):
        v = round(rng.uniform(lo, hi), 4)
        if nz is not None and abs(v) < nz:
            v = nz if v >= 0 else -nz
        vals.append(v)
    a = np.array(vals, dtype=float).reshape(shape)
    if specials and n:
        flat = a.reshape(-1)
        for sp in (np.nan, np.inf, -np.inf, 0.0):
            if rng.random() < 0.5:
                flat[rng.randrange(n)] = sp
    return a


def with_nans(rng, a, p=0.3):
    a = np.array(a, dtype=float)
    flat = a.reshape(-1)
    for i in range(flat.size):
        if rng.random() < p:
            flat[i] = np.nan
    if flat.size and np.all(np.isnan(flat)):
        flat[0] = 1.5
    return a


def rank_for(i, minrank=0, maxrank=3):
    return minrank + i % (maxrank - minrank + 1)


# =============================================================================== comparison
def close(a, b, atol_scale, mask=None):
    """element-wise comparison of two numeric arrays with NaN == NaN, inf == inf; -> None or text"""
    a = np.asarray(a)
    b = np.asarray(b)
    if a.shape != b.shape:
        return "shape %r, expected %r" % (a.shape, b.shape)
    if a.dtype == object or b.dtype == object:
        return None if a.tolist() == b.tolist() else "object arrays differ"
    if a.dtype.kind in "biu" and b.dtype.kind in "biu":
        bad = a != b
    else:
        a = a.astype(complex) if (a.dtype.kind == "c" or b.dtype.kind == "c") else a.astype(float)
        b = b.astype(a.dtype)
        with np.errstate(all="ignore"):
            both_nan = np.isnan(a) & np.isnan(b)
            same = a == b
            tol = RTOL * np.maximum(np.abs(a), np.abs(b)) + 1e-12 * atol_scale
            tol = np.where(np.isfinite(tol), tol, 0.0)
            ok = both_nan | same | (np.abs(a - b) <= tol)
        bad = ~ok
    if mask is not None:
        try:
            bad = bad & ~np.broadcast_to(mask, bad.shape)
        except ValueError:
            pass
    if np.any(bad):
        idx = tuple(int(i[0]) for i in np.nonzero(np.atleast_1d(bad))) if bad.ndim else ()
        av = np.atleast_1d(a)[idx] if bad.ndim else a
        bv = np.atleast_1d(b)[idx] if bad.ndim else b
        return "%d of %d elements differ, e.g. at %r: %r, expected %r" % (int(np.sum(bad)), bad.size, idx, av.tolist()
                                                                        if hasattr(av, "tolist") else av,
                                                                        bv.tolist() if hasattr(bv, "tolist") else bv)
    return None


def parse_exp(e, params):
    if isinstance(e, str):
        if e.startswith("$"):
            return float(params[e[1:]])
        return float(Fraction(e))
    return float(e)


def dims_text(d):
    return "*".join("%s^%g" % (k, v) for k, v in sorted(d.items())) or "dimensionless"


class Ctx:
    """one executed case: role -> class, role -> frame factor (1 for root-unit oracles), parameters"""

    def __init__(self, role_class, frame, params, scale, mask, temp=False):
        self.role_class = role_class
        self.frame = frame
        self.params = params
        self.scale = scale
        self.mask = mask
        self.temp = temp  # offset clause: the group of the first role is a temperature

    def expected(self, outspec):
        """-> (dims, factor of the oracle's number to root units, atol scale)"""
        if isinstance(outspec, str):
            return {}, 1.0, 1.0
        dims, fac, sc = {}, 1.0, 1.0
        for role, e in outspec.items():
            e = parse_exp(e, self.params)
            if role not in self.role_class:
                cands = [r for r in self.role_class if r.rstrip("0123456789") == role]
                if not cands:
                    continue  # optional argument that is absent from this call: contributes no unit
                role = cands[0]
            cls = self.role_class[role]
            for d, x in (CLASSES[cls]["dim"] if cls != "K" else {"[temperature]": 1}).items():
                dims[d] = dims.get(d, 0.0) + x * e
            fac *= self.frame.get(role, 1.0) ** e
            sc *= self.scale.get(role, 1.0) ** abs(e) if abs(e) <= 4 else 1.0
        return {k: v for k, v in dims.items() if abs(v) > 1e-12}, fac, sc


def compare(res, exp, outspec, ctx, temp_kind=None):
    """pint result vs oracle result under an out-spec; -> None or text"""
    if isinstance(outspec, list):
        # tuple-valued results; pint may return a list, a tuple or one stacked quantity
        try:
            parts = list(res)
        except TypeError:
            return "result %r is not a sequence of %d parts" % (type(res).__name__, len(outspec))
        exp = list(exp)
        if len(parts) != len(exp):
            return "%d results, expected %d" % (len(parts), len(exp))
        for k, (r, e) in enumerate(zip(parts, exp)):
            p = compare(r, e, outspec[k] if k < len(outspec) else outspec[-1], ctx, temp_kind)
            if p:
                return "part %d: %s" % (k, p)
        return None
    if isinstance(res, (list, tuple)) and isinstance(exp, (list, tuple)) and outspec is not None:
        if len(res) != len(exp):
            return "%d results, expected %d" % (len(res), len(exp))
        for k, (r, e) in enumerate(zip(res, exp)):
            p = compare(r, e, outspec, ctx, temp_kind)
            if p:
                return "element %d: %s" % (k, p)
        return None
    if outspec is None:
        return compare_bare(res, exp, ctx)
    if not is_q(res):
        if outspec == "dimensionless":
            return close(res, exp, 1.0, ctx.mask)
        return "bare %s returned, expected a quantity" % type(res).__name__
    phys, dims, kind = decode(res)
    edims, fac, sc = ctx.expected(outspec)
    if kind.startswith("bad:"):
        return "result unit %s" % kind[4:]
    if temp_kind is not None:
        if dims != {"[temperature]": 1.0}:
            return "dimensionality %s, expected a temperature" % dims_text(dims)
        if temp_kind == "abs" and kind == "delta":
            return "a delta unit was returned for an absolute temperature"
        if temp_kind == "delta" and kind == "abs":
            return "an absolute offset unit (%s) was returned for a temperature DIFFERENCE (%s)" % (
                "*".join(res._units), np.asarray(res.magnitude).tolist())
        return close(phys, np.asarray(exp) * fac, sc * 300.0, ctx.mask)
    if kind in ("abs", "delta"):
        return "temperature unit in a non-temperature case"
    if set(dims) != set(edims) or any(abs(dims[k] - edims[k]) > 1e-9 for k in dims):
        return "dimensionality %s, expected %s" % (dims_text(dims), dims_text(edims))
    return close(phys, np.asarray(exp) * fac, sc, ctx.mask)


def compare_bare(res, exp, ctx):
    if is_q(res):
        return "a quantity (%s) was returned, expected a bare result" % "*".join(res._units)
    if isinstance(exp, (list, tuple)):
        if not isinstance(res, (list, tuple)) or len(res) != len(exp):
            return "result %r, expected a sequence of %d" % (type(res).__name__, len(exp))
        for k, (r, e) in enumerate(zip(res, exp)):
            p = compare_bare(r, e, ctx)
            if p:
                return "element %d: %s" % (k, p)
        return None
    if isinstance(exp, np.dtype) or exp is None or isinstance(exp, str):
        return None if res == exp else "%r, expected %r" % (res, exp)
    if is_q(exp):
        raise HarnessError("oracle returned a quantity")
    return close(res, exp, 1.0, ctx.mask)


# =============================================================================== one case
PREFIX = {"ufunc": "np.", "function": "np.", "method": "Quantity.", "inplace": "inplace."}
UNIT_STR = {"degC": "degC", "degF": "degF", "kelvin": "kelvin"}


def base_role(role):
    return role.rstrip("0123456789")


def groups_of(spec, scn):
    """-> list of lists of scenario roles (one list per commensurable group that is present)"""
    out = []
    seen = set()
    for g in spec["groups"]:
        rs = [r for r in scn["roles"] if base_role(r) in g or r in g]
        seen.update(rs)
        if rs:
            out.append(rs)
    missing = [r for r in scn["roles"] if r not in seen]
    if missing:
        raise HarnessError("roles %r of scenario %r are in no group of the spec" % (missing, scn.get("variant")))
    return out


def assign_classes(spec, scn, i):
    needs = spec.get("needs", {})
    role_class = {}
    for gi, rs in enumerate(groups_of(spec, scn)):
        need = None
        for r in rs:
            need = needs.get(base_role(r), needs.get(r, need))
        forced = scn.get("classes", {}).get(rs[0])
        cls = forced or {"dimensionless": "1", "angle": "A", None: DIM_POOL[(i + gi) % len(DIM_POOL)]}[need]
        for r in rs:
            role_class[r] = cls
    return role_class


def unit_combos(scn, role_class, rng, k):
    roles = list(scn["roles"])
    allowed = scn.get("units")  # optional restriction {class: [unit names]}

    def units_of(cls):
        us = [u for u, _ in CLASSES[cls]["units"]]
        if allowed and cls in allowed:
            us = [u for u in us if u in allowed[cls]]
        return us

    combos = []

    def add(c):
        if c not in combos:
            combos.append(c)

    add({r: units_of(role_class[r])[0] for r in roles})
    add({r: units_of(role_class[r])[min(1, len(units_of(role_class[r])) - 1)] for r in roles})
    c = {}
    for j, r in enumerate(roles):
        us = units_of(role_class[r])
        c[r] = us[j % len(us)]
    add(c)
    c = {}
    for j, r in enumerate(roles):
        us = units_of(role_class[r])
        c[r] = us[(j + 1) % len(us)] if j == 0 else us[(2 * j + 2) % len(us)]
    add(c)
    tries = 0
    while len(combos) < k and tries < 20:
        tries += 1
        add({r: rng.choice(units_of(role_class[r])) for r in roles})
    return combos[:k]


def to_mag(V, u):
    if u in OFFSET:
        s, sh = OFFSET[u]
        m = np.asarray(V, dtype=float) / s - sh
    else:
        m = np.asarray(V) / FACTOR[u]
    return m if isinstance(V, np.ndarray) else (complex(m) if isinstance(V, complex) else float(m))


def to_root(m, u, frame=1.0):
    if u in OFFSET:
        s, sh = OFFSET[u]
        r = (np.asarray(m, dtype=float) + sh) * s
    else:
        r = np.asarray(m) * FACTOR[u] / frame
    return r if isinstance(m, np.ndarray) else (complex(r) if isinstance(m, complex) else float(r))


def snapshot(q):
    if is_q(q):
        return ("q", np.array(q._magnitude, copy=True), dict(q._units))
    if isinstance(q, np.ndarray):
        return ("a", np.array(q, copy=True), None)
    return ("s", q, None)


def unchanged(q, snap):
    kind, m, u = snap
    if kind == "q":
        return dict(q._units) == u and np.shape(q._magnitude) == np.shape(m) and bool(
            np.array_equal(np.asarray(q._magnitude), m, equal_nan=True))
    if kind == "a":
        return q.shape == m.shape and bool(np.array_equal(q, m, equal_nan=True))
    return True


def call(fn, kwargs):
    with warnings.catch_warnings():
        warnings.simplefilter("ignore")
        with np.errstate(all="ignore"):
            return fn(**kwargs)


def exc_text(e):
    try:
        return ("%s: %s" % (type(e).__name__, e))[:220]
    except Exception:  # noqa: BLE001
        return type(e).__name__


def case_id(api, name, scn, units, suffix=""):
    v = scn.get("variant", "")
    return "%s%s:%s(%s)%s" % (PREFIX[api], scn.get("idname", name), (v + ":") if v else "",
                              ",".join(str(units[r]) for r in scn["roles"]), suffix)


def build_inputs(ureg, scn, units):
    qargs, mags = {}, {}
    for role, V in scn["roles"].items():
        u = units[role]
        if u == "bare":
            m = np.array(V, copy=True) if isinstance(V, np.ndarray) else V
            mags[role] = m
            qargs[role] = np.array(m, copy=True) if isinstance(m, np.ndarray) else m
            continue
        m = to_mag(V, u)
        mags[role] = m
        qargs[role] = ureg.Quantity(np.array(m, copy=True) if isinstance(m, np.ndarray) else m, UNIT_STR.get(u, u))
    return qargs, mags


def scales(scn):
    sc = {}
    for role, V in scn["roles"].items():
        with np.errstate(all="ignore"):
            a = np.abs(np.asarray(V, dtype=complex))
            a = a[np.isfinite(a)]
        sc[role] = float(a.max()) if a.size and a.max() > 0 else 1.0
    return sc


def run_valid(col, stats, regname, api, name, spec, scn, units, role_class, example):
    """valid inputs: result == oracle, inputs not modified"""
    R = regs()
    ureg = R[regname]
    DimErr = R["pint"].DimensionalityError
    qargs, mags = build_inputs(ureg, scn, units)
    snaps = {r: snapshot(q) for r, q in qargs.items()}
    invariant = spec.get("invariant", True) and not scn.get("noninvariant")
    first = next(iter(scn["roles"]))
    frame = 1.0 if invariant else FACTOR[units[first]]
    omags = {r: to_root(m, units[r], frame) for r, m in mags.items()}
    same_units = len(set(units.values())) == 1
    mask = scn["mask"](omags, same_units) if scn.get("mask") else None
    ctx = Ctx(role_class, {r: frame for r in mags}, scn.get("params", {}), scales(scn), mask)
    cid = case_id(api, name, scn, units)
    expect_raise = scn.get("expect") == "raise"
    stats["evaluations"] += 1
    try:
        res = call(scn["fn"], qargs)
    except RecursionError as e:
        col.add(cid, "raised %s on valid input" % exc_text(e), example, "raised-on-valid")
        return
    except Exception as e:  # noqa: BLE001
        if expect_raise and isinstance(e, DimErr):
            return
        col.add(cid, "raised %s on valid input" % exc_text(e), example,
                "raised-on-valid" if not expect_raise else "wrong-exception")
        return
    if expect_raise:
        col.add(cid + ":must-raise", "returned %s although no single unit can represent the result (%s)"
                % (short(res), scn.get("why", "")), example, "accepted-unrepresentable")
        return
    ofn = scn.get("oracle") or scn["fn"]
    if spec.get("identity"):
        ofn = lambda **kw: next(iter(kw.values()))  # noqa: E731
    exp = call(ofn, {r: (np.array(m, copy=True) if isinstance(m, np.ndarray) else m) for r, m in omags.items()})
    outspec = scn["out"] if "out" in scn else spec["out"]
    if spec.get("shape_only"):
        p = None if (not is_q(res) and np.shape(res) == np.shape(exp)) else "shape %r / quantity" % (np.shape(res),)
    else:
        p = compare(res, exp, outspec, ctx)
    if p:
        col.add(cid, "%s; call %s" % (p, describe(qargs)), example, "wrong-result")
    for r, q in qargs.items():
        if r in scn.get("mutates", ()):
            continue
        if not unchanged(q, snaps[r]):
            col.add(cid + ":input-modified", "argument %s was modified by a call that is not in-place: now %s"
                    % (r, short(q)), example, "input-modified")


def short(x):
    try:
        if is_q(x):
            return "%s %s" % (np.asarray(x.magnitude).tolist(), "*".join("%s^%g" % (k, v) for k, v in x._units.items()))
        if isinstance(x, (list, tuple)):
            return "[" + ", ".join(short(y) for y in x[:3]) + "]"
        return str(np.asarray(x).tolist())[:120]
    except Exception:  # noqa: BLE001
        return "<%s>" % type(x).__name__


def describe(qargs):
    return ", ".join("%s=%s" % (r, short(q)[:70]) for r, q in qargs.items())


def run_must_raise(col, stats, regname, api, name, spec, scn, units, example, why):
    R = regs()
    DimErr = R["pint"].DimensionalityError
    qargs, _ = build_inputs(R[regname], scn, units)
    cid = case_id(api, name, scn, units, ":must-raise")
    stats["evaluations"] += 1
    stats["error_cases"] += 1
    try:
        res = call(scn["fn"], qargs)
    except DimErr:
        return
    except RecursionError as e:
        col.add(cid, "%s: raised %s instead of DimensionalityError" % (why, exc_text(e)), example, "wrong-exception")
        return
    except Exception as e:  # noqa: BLE001
        col.add(cid, "%s: raised %s instead of DimensionalityError" % (why, exc_text(e)), example, "wrong-exception")
        return
    col.add(cid, "%s: returned %s instead of raising DimensionalityError; call %s" % (why, short(res), describe(qargs)),
            example, "accepted-incompatible")


def run_offset(col, stats, regname, api, name, spec, scn, units, role_class, example):
    R = regs()
    OffErr = R["pint"].OffsetUnitCalculusError
    mode = spec.get("offset", "n/a")
    qargs, mags = build_inputs(R[regname], scn, units)
    snaps = {r: snapshot(q) for r, q in qargs.items()}
    omags = {r: to_root(m, units[r]) for r, m in mags.items()}
    cid = case_id(api, name, scn, units, ":offset")
    stats["evaluations"] += 1
    stats["offset_cases"] += 1
    try:
        res = call(scn["fn"], qargs)
    except OffErr:
        if mode == "ok":
            stats["offset_over_refusals"].add(PREFIX[api] + name)
        return
    except ValueError as e:
        if "offset" in str(e).lower() and not isinstance(e, R["pint"].DimensionalityError):
            if mode == "ok":
                stats["offset_over_refusals"].add(PREFIX[api] + name)
            return
        col.add(cid, "raised %s" % exc_text(e), example, "offset-raised-other")
        return
    except Exception as e:  # noqa: BLE001
        col.add(cid, "raised %s" % exc_text(e), example, "offset-raised-other")
        return
    if mode == "refuse":
        col.add(cid, "offset units accepted where the operation depends on the zero point: returned %s; call %s"
                % (short(res), describe(qargs)), example, "offset-accepted")
        return
    mask = scn["mask"](omags, False) if scn.get("mask") else None
    ctx = Ctx(role_class, {}, scn.get("params", {}), scales(scn), mask, temp=True)
    outspec = scn["out"] if "out" in scn else spec["out"]
    ofn = scn.get("oracle") or scn["fn"]
    exp = call(ofn, {r: (np.array(m, copy=True) if isinstance(m, np.ndarray) else m) for r, m in omags.items()})

    def temp_kind(o):
        if isinstance(o, dict) and ctx.expected(o)[0] == {"[temperature]": 1.0}:
            return "abs" if mode == "ok" else "delta"
        return None

    if isinstance(outspec, list):
        try:
            parts = list(res)
        except TypeError:
            parts = None
        p = "result is not a sequence" if parts is None or len(parts) != len(list(exp)) else None
        if not p:
            for k, (r, e) in enumerate(zip(parts, list(exp))):
                o = outspec[min(k, len(outspec) - 1)]
                p = compare(r, e, o, ctx, temp_kind(o))
                if p:
                    break
    elif spec.get("shape_only"):
        p = None
    else:
        p = compare(res, exp, outspec, ctx, temp_kind(outspec))
    if p:
        col.add(cid, "%s; call %s" % (p, describe(qargs)), example,
                "offset-wrong-result" if "absolute offset unit" not in p else "offset-absolute-for-difference")
    for r, q in qargs.items():
        if r not in scn.get("mutates", ()) and not unchanged(q, snaps[r]):
            col.add(cid + ":input-modified", "argument %s was modified" % r, example, "input-modified")


# =============================================================================== scenario builders
# builder(rng, i) -> {"variant": str, "roles": {role: root values}, "fn": callable(**roles), optional: "oracle", "out",
#                     "params", "mask", "expect", "mutates", "classes", "units", "no_error", "no_offset"}
# `fn` is applied to the quantities (pint) AND, unless "oracle" is given, to the bare root magnitudes (oracle).
BUILDERS = {}
LAST = None


def S(variant, roles, fn, **kw):
    d = {"variant": variant, "roles": roles, "fn": fn}
    d.update(kw)
    return d


def npf(name):
    o = np
    for p in name.split("."):
        o = getattr(o, p)
    return o


# ------------------------------------------------------------------------------- unary ufuncs
UNARY = {
    "absolute": (-10, 10, {}), "fabs": (-10, 10, {}), "negative": (-10, 10, {}), "positive": (-10, 10, {}),
    "conj": (-10, 10, {"cplx": True}), "conjugate": (-10, 10, {"cplx": True}),
    "square": (-10, 10, {}), "sqrt": (0.01, 10, {}), "cbrt": (-10, 10, {}), "reciprocal": (-10, 10, {"nz": 0.1}),
    "sin": (-6, 6, {}), "cos": (-6, 6, {}), "tan": (-1.4, 1.4, {}), "sinh": (-3, 3, {}), "cosh": (-3, 3, {}),
    "tanh": (-3, 3, {}), "arcsin": (-0.99, 0.99, {}), "arccos": (-0.99, 0.99, {}), "arctan": (-10, 10, {}),
    "arcsinh": (-10, 10, {}), "arccosh": (1.01, 10, {}), "arctanh": (-0.99, 0.99, {}),
    "deg2rad": (-6, 6, {}), "radians": (-6, 6, {}), "rad2deg": (-6, 6, {}), "degrees": (-6, 6, {}),
    "exp": (-3, 3, {}), "exp2": (-3, 3, {}), "expm1": (-3, 3, {}), "log": (0.01, 10, {}), "log10": (0.01, 10, {}),
    "log2": (0.01, 10, {}), "log1p": (-0.9, 10, {}),
    "isnan": (-10, 10, {"specials": True}), "isinf": (-10, 10, {"specials": True}),
    "isfinite": (-10, 10, {"specials": True}), "signbit": (-10, 10, {}), "sign": (-10, 10, {"zeros": True}),
    "floor": (-10, 10, {}), "ceil": (-10, 10, {}), "rint": (-10, 10, {}), "trunc": (-10, 10, {}),
    "modf": (-10, 10, {}), "frexp": (-10, 10, {}),
}


def mk_unary(name, lo, hi, opts):
    f = getattr(np, name)

    def b(rng, i):
        shape = shape_of(rng, rank_for(i))
        x = arr(rng, shape, lo, hi, nz=opts.get("nz"), specials=opts.get("specials", False))
        if opts.get("cplx") and i % 2:
            x = x + 1j * arr(rng, shape, lo, hi)
        if opts.get("zeros") and x.size:
            x.reshape(-1)[rng.randrange(x.size)] = 0.0
        if x.ndim == 0 and i % 8 == 0:
            x = x.item()
        return S("", {"x": x}, lambda x: f(x))
    return b


for _n, (_lo, _hi, _o) in UNARY.items():
    BUILDERS[("ufunc", _n)] = mk_unary(_n, _lo, _hi, _o)


# ------------------------------------------------------------------------------- binary ufuncs
def two_shapes(rng, i):
    """pairs of broadcastable shapes"""
    r = rank_for(i)
    s = shape_of(rng, r)
    k = (i + i // 4) % 4
    if k == 0 or r == 0:
        return s, s
    if k == 1:
        return s, ()
    if k == 2:
        return (), s
    return s, s[-1:]


def near_tie_mask(a, b, same_units):
    a = np.asarray(a, dtype=float)
    b = np.asarray(b, dtype=float)
    with np.errstate(all="ignore"):
        near = np.abs(a - b) <= 1e-9 * np.maximum(np.abs(a), np.abs(b))
        if same_units:
            near = near & ~(a == b)
    return near


def ratio_mask(a, b):
    with np.errstate(all="ignore"):
        r = np.asarray(a, dtype=float) / np.asarray(b, dtype=float)
        return np.abs(r - np.round(r)) < 1e-7 * np.maximum(1.0, np.abs(r))


def mk_binary(name, kind):
    f = getattr(np, name)

    def b(rng, i):
        s1, s2 = two_shapes(rng, i)
        x1 = arr(rng, s1)
        kw = {}
        if kind == "cmp":
            x2 = arr(rng, s2)
            # exact ties: copy some elements of x1 into x2 where shapes allow
            if s1 == s2 and x1.size:
                fl1, fl2 = x1.reshape(-1), x2.reshape(-1)
                for j in range(fl1.size):
                    if rng.random() < 0.3:
                        fl2[j] = fl1[j]
            kw["mask"] = lambda om, same: near_tie_mask(om["x1"], om["x2"], same)
        elif kind == "nz2":
            x2 = arr(rng, s2, nz=0.5)
        elif kind == "ratio":
            x2 = arr(rng, s2, nz=0.5)
            kw["mask"] = lambda om, same: ratio_mask(om["x1"], om["x2"])
        elif kind == "small":
            x1 = arr(rng, s1, -3, 3)
            x2 = arr(rng, s2, -3, 3)
        else:
            x2 = arr(rng, s2)
        if i % 8 == 4 and x1.ndim == 0 and x2.ndim == 0:
            x1, x2 = x1.item(), x2.item()
        return S("", {"x1": x1, "x2": x2}, lambda x1, x2: f(x1, x2), **kw)
    return b


for _n, _k in {"add": "", "subtract": "", "maximum": "", "minimum": "", "hypot": "", "nextafter": "", "copysign": "",
               "arctan2": "", "multiply": "", "divide": "nz2", "true_divide": "nz2", "floor_divide": "ratio",
               "mod": "ratio", "remainder": "ratio", "fmod": "ratio", "equal": "cmp", "not_equal": "cmp",
               "greater": "cmp", "greater_equal": "cmp", "less": "cmp", "less_equal": "cmp", "logaddexp": "small",
               "logaddexp2": "small"}.items():
    BUILDERS[("ufunc", _n)] = mk_binary(_n, _k)


def b_ldexp(rng, i):
    s1, s2 = two_shapes(rng, i)
    x1 = arr(rng, s1)
    e = np.array([rng.randint(-3, 4) for _ in range(int(np.prod(s2)))], dtype=int).reshape(s2)
    return S("", {"x1": x1}, lambda x1: np.ldexp(x1, e))


BUILDERS[("ufunc", "ldexp")] = b_ldexp


def b_matmul(rng, i):
    n, k, m = rng.randint(1, 3), rng.randint(1, 4), rng.randint(1, 3)
    v = i % 4
    if v == 0:
        s1, s2 = (n, k), (k, m)
    elif v == 1:
        s1, s2 = (k,), (k, m)
    elif v == 2:
        s1, s2 = (n, k), (k,)
    else:
        s1, s2 = (2, n, k), (2, k, m)
    return S("", {"x1": arr(rng, s1), "x2": arr(rng, s2)}, lambda x1, x2: np.matmul(x1, x2))


BUILDERS[("ufunc", "matmul")] = b_matmul


def b_power(rng, i):
    shape = shape_of(rng, rank_for(i))
    v = i % 5
    if v in (0, 1, 2):
        p = [2, 3, -1, 0.5, 0, 1, -2, 1.5][(i // 5) % 8]
        x1 = arr(rng, shape, 0.1, 10)
        if v == 0:
            return S("scalar-exponent", {"x1": x1}, lambda x1: np.power(x1, p), params={"p": p})
        if v == 1:  # exponent as a dimensionless quantity
            return S("quantity-exponent", {"x1": x1, "x2": float(p)}, lambda x1, x2: np.power(x1, x2), params={"p": p})
        return S("ndarray-scalar-exponent", {"x1": x1}, lambda x1: np.power(x1, np.float64(p)), params={"p": p})
    if v == 3:  # array exponent: base must be a pure number
        x1 = arr(rng, shape, 0.1, 3)
        x2 = arr(rng, shape, -2, 2)
        return S("array-exponent", {"x1": x1, "x2": x2}, lambda x1, x2: np.power(x1, x2), classes={"x1": "1"},
                 out="dimensionless", no_error=True)
    # array exponent with a dimensional base: no single unit
    shape = shape_of(rng, 1 + i % 3, 2, 4)
    x1 = arr(rng, shape, 0.1, 3)
    e = np.arange(int(np.prod(shape)), dtype=float).reshape(shape)
    return S("array-exponent-dimensional", {"x1": x1}, lambda x1: np.power(x1, e), expect="raise",
             why="element-wise different exponents of a dimensional base", no_offset=True)


BUILDERS[("ufunc", "power")] = b_power
# ------------------------------------------------------------------------------- reductions
def uniform_mask(rng, shape, axis):
    """boolean mask selecting the same number of elements in every lane along `axis`"""
    n = shape[axis]
    sel = [rng.random() < 0.6 for _ in range(n)]
    if not any(sel):
        sel[0] = True
    s = [1] * len(shape)
    s[axis] = n
    return np.array(sel).reshape(s), sum(sel)


def mk_reduction(name, api="function", initial=False, where=False, nan=False, lo=-10.0, hi=10.0, tuple_axis=True,
                 keepdims=True, prodlike=False):
    f = npf(name) if api == "function" else None

    def callf(a, **kw):
        if api == "function":
            return f(a, **kw)
        return getattr(a, name)(**kw)

    def b(rng, i):
        v = i % 6
        rank = ((3, 2, 1, 2, 3, 2)[i % 6] + i // 6) % 4 if api == "function" else 1 + (i + i // 6) % 3
        shape = shape_of(rng, rank, 1 if not prodlike else 2, 4 if not prodlike else 3)
        a = arr(rng, shape, lo, hi)
        if nan and i % 2:
            a = with_nans(rng, a)
        params = {}
        kw = {}
        variant = ""
        if v == 1 and rank >= 1:
            kw = {"axis": 0}
            variant = "axis=0"
        elif v == 2 and rank >= 1 and keepdims:
            kw = {"axis": -1, "keepdims": True}
            variant = "axis=-1,keepdims"
        elif v == 3 and rank >= 2 and tuple_axis:
            kw = {"axis": (0, 1)}
            variant = "axis=(0,1)"
        elif v == 4 and where and rank >= 1:
            ax = rng.randrange(rank)
            m, cnt = uniform_mask(rng, shape, ax)
            kw = {"axis": ax, "where": m}
            if initial:
                pass
            variant = "axis,where"
            params["cnt"] = cnt
        roles = {"a": a}
        if initial and (v == 5 or (v == 4 and "where" in kw and name in ("max", "min", "amax", "amin"))):
            roles["initial"] = round(rng.uniform(lo, hi), 4)
            variant = (variant + "," if variant else "") + "initial"
            fn = lambda a, initial: callf(a, initial=initial, **kw)  # noqa: E731
        else:
            fn = lambda a: callf(a, **kw)  # noqa: E731
        if rank == 0 and i % 8 == 3 and not nan:
            roles["a"] = float(a)  # a Python scalar magnitude
        scn = S(variant, roles, fn, params=params)
        if prodlike:
            # n = number of factors of every output element; it must be uniform
            an = np.asarray(a)
            valid = ~np.isnan(an) if nan else np.ones(an.shape, bool)
            if "where" in kw:
                valid = valid & np.broadcast_to(kw["where"], an.shape)
            ax = kw.get("axis", None)
            counts = np.sum(valid, axis=ax)
            u = np.unique(counts)
            if len(u) == 1:
                params["n"] = int(u[0])
            else:
                scn["expect"] = "raise"
                scn["why"] = "output elements have %s factors" % u.tolist()
        return scn
    return b


for _n in ("sum", "nansum"):
    BUILDERS[("function", _n)] = mk_reduction(_n, initial=True, where=True, nan=_n.startswith("nan"))
for _n in ("max", "min", "amax", "amin"):
    BUILDERS[("function", _n)] = mk_reduction(_n, initial=True, where=True)
for _n in ("mean", "std", "var"):
    BUILDERS[("function", _n)] = mk_reduction(_n, where=True)
for _n in ("nanmean", "nanstd", "nanvar", "nanmax", "nanmin", "nanmedian"):
    BUILDERS[("function", _n)] = mk_reduction(_n, nan=True)
BUILDERS[("function", "median")] = mk_reduction("median")
BUILDERS[("function", "ptp")] = mk_reduction("ptp")
for _n in ("argmax", "argmin", "nanargmax", "nanargmin"):
    BUILDERS[("function", _n)] = mk_reduction(_n, tuple_axis=False)
BUILDERS[("function", "count_nonzero")] = mk_reduction("count_nonzero")
for _n in ("any", "all"):
    BUILDERS[("function", _n)] = mk_reduction(_n, where=True)
BUILDERS[("function", "prod")] = mk_reduction("prod", where=True, lo=0.5, hi=3.0, prodlike=True)
BUILDERS[("function", "nanprod")] = mk_reduction("nanprod", nan=True, lo=0.5, hi=3.0, prodlike=True)
for _n in ("sum", "mean", "std", "var", "max", "min"):
    BUILDERS[("method", _n)] = mk_reduction(_n, api="method")
BUILDERS[("method", "prod")] = mk_reduction("prod", api="method", lo=0.5, hi=3.0, prodlike=True)
for _n in ("argmax", "argmin"):
    BUILDERS[("method", _n)] = mk_reduction(_n, api="method", tuple_axis=False)


def _zeros_in(b):
    def bb(rng, i):
        scn = b(rng, i)
        a = scn["roles"]["a"]
        if isinstance(a, np.ndarray) and a.size:
            fl = a.reshape(-1)
            for j in range(fl.size):
                if rng.random() < 0.4:
                    fl[j] = 0.0
        return scn
    return bb


for _k in (("function", "count_nonzero"), ("function", "any"), ("function", "all")):
    BUILDERS[_k] = _zeros_in(BUILDERS[_k])


def mk_cum(name, api="function", nan=False, lo=-10.0, hi=10.0):
    def b(rng, i):
        minr = 1 if api == "method" else 0
        rank = minr + (i + i // 2) % (4 - minr)
        a = arr(rng, shape_of(rng, rank), lo, hi)
        if nan and i % 3:
            a = with_nans(rng, a)
        kw = {}
        if rank and i % 2:
            kw = {"axis": rng.randrange(rank)}
        if api == "function":
            f = npf(name)
            return S("axis" if kw else "", {"a": a}, lambda a: f(a, **kw))
        return S("axis" if kw else "", {"a": a}, lambda a: getattr(a, name)(**kw))
    return b


BUILDERS[("function", "cumsum")] = mk_cum("cumsum")
BUILDERS[("function", "nancumsum")] = mk_cum("nancumsum", nan=True)
BUILDERS[("function", "cumprod")] = mk_cum("cumprod", lo=0.5, hi=2.0)
BUILDERS[("function", "nancumprod")] = mk_cum("nancumprod", nan=True, lo=0.5, hi=2.0)
BUILDERS[("method", "cumsum")] = mk_cum("cumsum", api="method")
BUILDERS[("method", "cumprod")] = mk_cum("cumprod", api="method", lo=0.5, hi=2.0)


def mk_quantile(name, top):
    f = npf(name)

    def b(rng, i):
        rank = rank_for(i, 0)
        a = arr(rng, shape_of(rng, rank))
        if name.startswith("nan") and i % 2:
            a = with_nans(rng, a)
        q = round(rng.uniform(0, top), 3) if i % 3 else [round(rng.uniform(0, top), 3) for _ in range(2)]
        kw = {}
        if rank and i % 2:
            kw = {"axis": rng.randrange(rank)}
        return S("axis" if kw else "", {"a": a}, lambda a: f(a, q, **kw))
    return b


for _n, _t in (("percentile", 100), ("nanpercentile", 100), ("quantile", 1), ("nanquantile", 1)):
    BUILDERS[("function", _n)] = mk_quantile(_n, _t)


def b_average(rng, i):
    rank = rank_for(i, 1)
    shape = shape_of(rng, rank)
    a = arr(rng, shape)
    v = i % 3
    if v == 0:
        return S("", {"a": a}, lambda a: np.average(a))
    ax = rng.randrange(rank)
    w = arr(rng, (shape[ax],), 0.1, 5)
    if v == 1:
        return S("bare-weights", {"a": a}, lambda a: np.average(a, axis=ax, weights=w))
    return S("quantity-weights", {"a": a, "weights": w}, lambda a, weights: np.average(a, axis=ax, weights=weights),
             no_offset=True)


BUILDERS[("function", "average")] = b_average


def b_norm(rng, i):
    v = i % 4
    if v == 0:
        x = arr(rng, shape_of(rng, 1 + i % 2))
        return S("", {"x": x}, lambda x: np.linalg.norm(x))
    if v == 1:
        x = arr(rng, shape_of(rng, 2))
        return S("axis", {"x": x}, lambda x: np.linalg.norm(x, axis=1))
    if v == 2:
        x = arr(rng, shape_of(rng, 1))
        o = (1, np.inf, 3)[(i // 4) % 3]
        return S("ord", {"x": x}, lambda x: np.linalg.norm(x, ord=o))
    x = arr(rng, shape_of(rng, 2, 2, 3))
    return S("fro", {"x": x}, lambda x: np.linalg.norm(x, "fro"))


BUILDERS[("function", "linalg.norm")] = b_norm


# ------------------------------------------------------------------------------- differences, integrals, products
def b_diff(rng, i):
    rank = rank_for(i, 1)
    shape = shape_of(rng, rank, 2, 4)
    a = arr(rng, shape)
    v = i % 4
    ax = rng.randrange(rank)
    if v == 0:
        return S("", {"a": a}, lambda a: np.diff(a))
    if v == 1:
        return S("n=2,axis", {"a": a}, lambda a: np.diff(a, n=2, axis=ax))
    s = list(shape)
    s[ax] = 1
    extra = arr(rng, tuple(s))
    if v == 2:
        return S("prepend", {"a": a, "prepend": extra}, lambda a, prepend: np.diff(a, axis=ax, prepend=prepend))
    return S("append", {"a": a, "append": extra}, lambda a, append: np.diff(a, axis=ax, append=append))


BUILDERS[("function", "diff")] = b_diff


def b_ediff1d(rng, i):
    a = arr(rng, shape_of(rng, rank_for(i, 1, 2), 2, 4))
    v = i % 3
    if v == 0:
        return S("", {"ary": a}, lambda ary: np.ediff1d(ary))
    if v == 1:
        return S("to_end", {"ary": a, "to_end": round(rng.uniform(-10, 10), 4)},
                 lambda ary, to_end: np.ediff1d(ary, to_end=to_end))
    return S("to_begin", {"ary": a, "to_begin": arr(rng, (2,))}, lambda ary, to_begin: np.ediff1d(ary, to_begin=to_begin))


BUILDERS[("function", "ediff1d")] = b_ediff1d


def b_gradient(rng, i):
    v = i % 5
    if v == 0:
        f = arr(rng, shape_of(rng, 1, 2, 5))
        return S("unit-spacing", {"f": f}, lambda f: np.gradient(f), out={"f": 1})
    if v == 1:
        f = arr(rng, shape_of(rng, 1, 2, 5))
        return S("scalar-spacing", {"f": f, "dx": round(rng.uniform(0.5, 3), 4)}, lambda f, dx: np.gradient(f, dx),
                 out={"f": 1, "dx": -1})
    if v == 2:
        n = rng.randint(3, 5)
        f = arr(rng, (n,))
        x = np.cumsum(arr(rng, (n,), 0.5, 2))
        return S("coordinates", {"f": f, "dx": x}, lambda f, dx: np.gradient(f, dx), out={"f": 1, "dx": -1})
    if v == 3:
        f = arr(rng, shape_of(rng, 2, 2, 4))
        return S("2d,axis=0", {"f": f, "dx": round(rng.uniform(0.5, 3), 4)}, lambda f, dx: np.gradient(f, dx, axis=0),
                 out={"f": 1, "dx": -1})
    f = arr(rng, shape_of(rng, 2, 2, 4))
    return S("2d,two-spacings", {"f": f, "dx": round(rng.uniform(0.5, 3), 4), "dy": round(rng.uniform(0.5, 3), 4)},
             lambda f, dx, dy: np.gradient(f, dx, dy))


BUILDERS[("function", "gradient")] = b_gradient


def b_trapezoid(rng, i):
    rank = rank_for(i, 1, 2)
    shape = shape_of(rng, rank, 2, 4)
    y = arr(rng, shape)
    v = i % 4
    if v == 0:
        return S("", {"y": y}, lambda y: np.trapezoid(y), out={"y": 1})
    if v == 1:
        return S("dx", {"y": y, "x": round(rng.uniform(0.5, 3), 4)}, lambda y, x: np.trapezoid(y, dx=x))
    x = np.cumsum(arr(rng, (shape[-1],), 0.5, 2))
    if v == 2:
        return S("x", {"y": y, "x": x}, lambda y, x: np.trapezoid(y, x=x))
    return S("bare-x", {"y": y}, lambda y: np.trapezoid(y, x=x), out={"y": 1})


BUILDERS[("function", "trapezoid")] = b_trapezoid


def b_dot(rng, i):
    k = rng.randint(1, 4)
    v = i % 4
    if v == 0:
        s1, s2 = (k,), (k,)
    elif v == 1:
        s1, s2 = (rng.randint(1, 3), k), (k, rng.randint(1, 3))
    elif v == 2:
        s1, s2 = (rng.randint(1, 3), k), (k,)
    else:
        s1, s2 = (), (k,)
    return s1, s2


BUILDERS[("function", "dot")] = lambda rng, i: (lambda s: S("", {"a": arr(rng, s[0]), "b": arr(rng, s[1])},
                                                            lambda a, b: np.dot(a, b)))(b_dot(rng, i))
BUILDERS[("method", "dot")] = lambda rng, i: (lambda s: S("", {"a": arr(rng, s[0] or (2,)), "b": arr(rng, s[1] if s[0] else (2,))},
                                                          lambda a, b: a.dot(b)))(b_dot(rng, i))


def b_dot_bare(rng, i):
    """np.dot(q, bare): y times a pure number"""
    k = rng.randint(1, 4)
    w = arr(rng, (k,))
    return S("bare-b", {"a": arr(rng, (rng.randint(1, 3), k))}, lambda a: np.dot(a, w), out={"a": 1})


def b_cross(rng, i):
    n = 3 if i % 3 else 2
    s = (n,) if i % 2 else (rng.randint(1, 3), n)
    if n == 2:
        s = (3,)
    return S("", {"a": arr(rng, s), "b": arr(rng, s)}, lambda a, b: np.cross(a, b))


BUILDERS[("function", "cross")] = b_cross


def b_correlate(rng, i):
    mode = ("valid", "same", "full")[i % 3]
    n, m = rng.randint(2, 5), rng.randint(1, 3)
    return S(mode, {"a": arr(rng, (n,)), "v": arr(rng, (m,))}, lambda a, v: np.correlate(a, v, mode=mode))


BUILDERS[("function", "correlate")] = b_correlate


def b_einsum(rng, i):
    v = i % 4
    n, k, m = rng.randint(1, 3), rng.randint(1, 3), rng.randint(1, 3)
    if v == 0:
        return S("ij,jk", {"a": arr(rng, (n, k)), "b": arr(rng, (k, m))}, lambda a, b: np.einsum("ij,jk->ik", a, b))
    if v == 1:
        return S("ii", {"a": arr(rng, (k, k))}, lambda a: np.einsum("ii", a))
    if v == 2:
        return S("i,i,i", {"a": arr(rng, (k,)), "b": arr(rng, (k,)), "c": arr(rng, (k,))},
                 lambda a, b, c: np.einsum("i,i,i->i", a, b, c))
    w = arr(rng, (k,))
    return S("bare-operand", {"a": arr(rng, (n, k))}, lambda a: np.einsum("ij,j->i", a, w), out={"a": 1})


BUILDERS[("function", "einsum")] = b_einsum


def b_solve(rng, i):
    n = rng.randint(1, 3)
    a = arr(rng, (n, n)) + 25.0 * np.eye(n)
    b = arr(rng, (n,) if i % 2 else (n, rng.randint(1, 2)))
    return S("", {"a": a, "b": b}, lambda a, b: np.linalg.solve(a, b))


BUILDERS[("function", "linalg.solve")] = b_solve


def b_dotf(rng, i):
    if i % 5 == 4:
        return b_dot_bare(rng, i)
    s = b_dot(rng, i)
    return S("", {"a": arr(rng, s[0]), "b": arr(rng, s[1])}, lambda a, b: np.dot(a, b))


BUILDERS[("function", "dot")] = b_dotf


# ------------------------------------------------------------------------------- selection with several quantity arguments
def b_where(rng, i):
    shape = shape_of(rng, rank_for(i))
    x, y = arr(rng, shape), arr(rng, shape if i % 3 else ())
    c = np.array([rng.random() < 0.5 for _ in range(int(np.prod(shape)))]).reshape(shape)
    v = i % 4
    if v == 3:
        cq = np.where(c, arr(rng, shape, 1, 5), 0.0)
        return S("quantity-condition", {"condition": cq, "x": x, "y": y}, lambda condition, x, y: np.where(condition, x, y),
                 no_offset=True)
    return S("", {"x": x, "y": y}, lambda x, y: np.where(c, x, y))


BUILDERS[("function", "where")] = b_where


def b_clip(rng, i):
    shape = shape_of(rng, rank_for(i))
    a = arr(rng, shape)
    lo, hi = sorted((round(rng.uniform(-8, 8), 4), round(rng.uniform(-8, 8), 4)))
    v = i % 4
    if v == 0:
        return S("", {"a": a, "a_min": lo, "a_max": hi}, lambda a, a_min, a_max: np.clip(a, a_min, a_max))
    if v == 1:
        return S("min-only", {"a": a, "a_min": lo}, lambda a, a_min: np.clip(a, a_min, None))
    if v == 2:
        return S("max-only", {"a": a, "a_max": hi}, lambda a, a_max: np.clip(a, None, a_max))
    return S("array-bounds", {"a": a, "a_min": arr(rng, shape, -9, -1), "a_max": arr(rng, shape, 1, 9)},
             lambda a, a_min, a_max: np.clip(a, a_min, a_max))


BUILDERS[("function", "clip")] = b_clip


def b_mclip(rng, i):
    a = arr(rng, shape_of(rng, rank_for(i, 1)))
    lo, hi = sorted((round(rng.uniform(-8, 8), 4), round(rng.uniform(-8, 8), 4)))
    v = i % 3
    if v == 0:
        return S("", {"a": a, "min": lo, "max": hi}, lambda a, min, max: a.clip(min, max))
    if v == 1:
        return S("min-only", {"a": a, "min": lo}, lambda a, min: a.clip(min))
    return S("max-only", {"a": a, "max": hi}, lambda a, max: a.clip(max=max))


BUILDERS[("method", "clip")] = b_mclip


def b_interp(rng, i):
    n = rng.randint(2, 5)
    xp = np.cumsum(arr(rng, (n,), 0.5, 2))
    fp = arr(rng, (n,))
    x = arr(rng, shape_of(rng, rank_for(i, 0, 2)), -1, float(xp[-1]) + 1)
    v = i % 3
    if v == 0:
        return S("", {"x": x, "xp": xp, "fp": fp}, lambda x, xp, fp: np.interp(x, xp, fp))
    if v == 1:
        return S("left,right", {"x": x, "xp": xp, "fp": fp, "left": round(rng.uniform(-10, 10), 4),
                                "right": round(rng.uniform(-10, 10), 4)},
                 lambda x, xp, fp, left, right: np.interp(x, xp, fp, left=left, right=right))
    return S("period", {"x": x, "xp": xp, "fp": fp, "period": round(float(xp[-1]) + 1.0, 4)},
             lambda x, xp, fp, period: np.interp(x, xp, fp, period=period))


BUILDERS[("function", "interp")] = b_interp


def mk_join(name):
    f = npf(name)

    def b(rng, i):
        k = 2 + i % 2
        if name in ("concatenate", "stack"):
            rank = rank_for(i, 1)
            shape = shape_of(rng, rank)
            ax = rng.randrange(rank)
            parts = [arr(rng, shape) for _ in range(k)]
            roles = {"a%d" % j: p for j, p in enumerate(parts)}
            return S("axis=%d" % ax if i % 2 else "", roles,
                     (lambda **kw: f([kw[r] for r in sorted(kw)], axis=ax)) if i % 2 else
                     (lambda **kw: f([kw[r] for r in sorted(kw)])))
        if name == "column_stack":
            n = rng.randint(1, 4)
            parts = [arr(rng, (n,)) for _ in range(k)]
        elif name == "block" and i % 2:
            n = rng.randint(1, 3)
            parts = [arr(rng, (n, n)) for _ in range(2)]
            roles = {"a%d" % j: p for j, p in enumerate(parts)}
            return S("1x2", roles, lambda a0, a1: np.block([a0, a1]))
        elif name == "block":
            n = rng.randint(1, 3)
            parts = [arr(rng, (n, n)) for _ in range(4)]
            roles = {"a%d" % j: p for j, p in enumerate(parts)}
            return S("2x2", roles, lambda a0, a1, a2, a3: np.block([[a0, a1], [a2, a3]]))
        else:
            shape = shape_of(rng, rank_for(i, 1, 2))
            parts = [arr(rng, shape) for _ in range(k)]
        roles = {"a%d" % j: p for j, p in enumerate(parts)}
        return S("", roles, lambda **kw: f([kw[r] for r in sorted(kw)]))
    return b


for _n in ("concatenate", "stack", "hstack", "vstack", "dstack", "column_stack", "block"):
    BUILDERS[("function", _n)] = mk_join(_n)


def b_append(rng, i):
    rank = rank_for(i, 1, 2)
    shape = shape_of(rng, rank)
    a, vals = arr(rng, shape), arr(rng, shape)
    if i % 2:
        return S("axis=0", {"arr": a, "values": vals}, lambda arr, values: np.append(arr, values, axis=0))
    return S("", {"arr": a, "values": vals}, lambda arr, values: np.append(arr, values))


BUILDERS[("function", "append")] = b_append


def b_insert(rng, i):
    n = rng.randint(1, 4)
    a = arr(rng, (n,))
    pos = rng.randint(0, n)
    if i % 2:
        return S("scalar", {"arr": a, "values": round(rng.uniform(-10, 10), 4)}, lambda arr, values: np.insert(arr, pos, values))
    return S("array", {"arr": a, "values": arr(rng, (2,))}, lambda arr, values: np.insert(arr, [pos, pos], values))


BUILDERS[("function", "insert")] = b_insert


def b_pad(rng, i):
    rank = rank_for(i, 1, 2)
    a = arr(rng, shape_of(rng, rank, 2, 4))
    w = rng.randint(1, 2)
    v = i % 5
    if v == 0:
        return S("constant", {"array": a, "constant_values": round(rng.uniform(-10, 10), 4)},
                 lambda array, constant_values: np.pad(array, w, constant_values=constant_values))
    if v == 1:
        return S("constant-pair", {"array": a, "constant_values0": round(rng.uniform(-10, 10), 4),
                                   "constant_values1": round(rng.uniform(-10, 10), 4)},
                 lambda array, constant_values0, constant_values1: np.pad(array, w, constant_values=(constant_values0,
                                                                                                     constant_values1)))
    if v == 2:
        return S("edge", {"array": a}, lambda array: np.pad(array, w, mode="edge"))
    if v == 3:
        return S("linear_ramp", {"array": a, "end_values": round(rng.uniform(-10, 10), 4)},
                 lambda array, end_values: np.pad(array, w, mode="linear_ramp", end_values=end_values))
    return S("default-zero", {"array": a}, lambda array: np.pad(array, w), no_offset=True)


BUILDERS[("function", "pad")] = b_pad


def b_linspace(rng, i):
    n = rng.randint(2, 5)
    v = i % 3
    if v == 2:
        s = shape_of(rng, 1)
        return S("arrays", {"start": arr(rng, s), "stop": arr(rng, s)}, lambda start, stop: np.linspace(start, stop, n))
    kw = {"endpoint": False} if v == 1 else {}
    return S("endpoint=False" if v else "", {"start": round(rng.uniform(-10, 10), 4), "stop": round(rng.uniform(-10, 10), 4)},
             lambda start, stop: np.linspace(start, stop, n, **kw))


BUILDERS[("function", "linspace")] = b_linspace


def b_full_like(rng, i):
    a = arr(rng, shape_of(rng, rank_for(i)))
    fv = round(rng.uniform(-10, 10), 4)
    if i % 3:
        return S("", {"a": a, "fill_value": fv}, lambda a, fill_value: np.full_like(a, fill_value))
    return S("bare-fill", {"a": a}, lambda a: np.full_like(a, fv), out=None)


BUILDERS[("function", "full_like")] = b_full_like


def b_nan_to_num(rng, i):
    a = arr(rng, shape_of(rng, rank_for(i)))
    flat = np.atleast_1d(a).reshape(-1)
    if i % 2 == 0:
        b = with_nans(rng, a)
        return S("", {"x": b}, lambda x: np.nan_to_num(x), no_offset=True)  # the default replacement 0.0 has no unit
    b = np.array(a)
    fl = b.reshape(-1)
    for j in range(fl.size):
        r = rng.random()
        if r < 0.2:
            fl[j] = np.nan
        elif r < 0.4:
            fl[j] = np.inf
        elif r < 0.6:
            fl[j] = -np.inf
    del flat
    return S("nan,posinf,neginf", {"x": b, "nan": round(rng.uniform(-10, 10), 4), "posinf": 99.5, "neginf": -99.5},
             lambda x, nan, posinf, neginf: np.nan_to_num(x, nan=nan, posinf=posinf, neginf=neginf))


BUILDERS[("function", "nan_to_num")] = b_nan_to_num


def exact_km(rng, n, lo=-9, hi=9):
    """physical values that are exact both in meters and in kilometers"""
    return np.array([1000.0 * rng.randint(lo, hi) for _ in range(n)])


def b_intersect1d(rng, i):
    a, b = exact_km(rng, rng.randint(1, 6)), exact_km(rng, rng.randint(1, 6))
    return S("", {"ar1": a, "ar2": b}, lambda ar1, ar2: np.intersect1d(ar1, ar2), classes={"ar1": "L"},
             units={"L": ["meter", "kilometer"]})


BUILDERS[("function", "intersect1d")] = b_intersect1d


def b_isin(rng, i):
    a, b = exact_km(rng, rng.randint(1, 6)).reshape(-1), exact_km(rng, rng.randint(1, 6))
    if i % 2:
        return S("invert", {"element": a, "test_elements": b}, lambda element, test_elements: np.isin(element, test_elements,
                                                                                                      invert=True),
                 classes={"element": "L"}, units={"L": ["meter", "kilometer"]})
    return S("", {"element": a, "test_elements": b}, lambda element, test_elements: np.isin(element, test_elements),
             classes={"element": "L"}, units={"L": ["meter", "kilometer"]})


BUILDERS[("function", "isin")] = b_isin


def b_searchsorted(rng, i):
    n = rng.randint(1, 6)
    a = np.sort(arr(rng, (n,)))
    v = arr(rng, shape_of(rng, rank_for(i, 0, 2))) + 0.00005  # never ties an element of a
    side = "right" if i % 2 else "left"
    return S(side, {"a": a, "v": v}, lambda a, v: np.searchsorted(a, v, side=side))


BUILDERS[("function", "searchsorted")] = b_searchsorted
BUILDERS[("method", "searchsorted")] = lambda rng, i: dict(b_searchsorted(rng, i), fn=lambda a, v: a.searchsorted(v))


def mk_close(name):
    f = npf(name)

    def b(rng, i):
        shape = shape_of(rng, rank_for(i))
        a = arr(rng, shape)
        noise = np.array([rng.choice((0.0, 1e-3, 0.5)) for _ in range(int(np.prod(shape)))]).reshape(shape)
        bb = a + noise
        v = i % 3
        if v == 0:  # default tolerances: differences are 0, 1e-3 or 0.5, never near the threshold in any unit used
            return S("default-tolerances", {"a": a, "b": bb}, lambda a, b: f(a, b),
                     units={"L": ["meter", "centimeter", "inch", "foot"], "T": ["second", "minute", "hour"],
                            "M": ["gram", "kilogram", "pound"], "V": ["meter/second", "kilometer/hour", "mile/hour"]})
        if v == 1:
            return S("quantity-atol", {"a": a, "b": bb, "atol": 0.01}, lambda a, b, atol: f(a, b, rtol=0, atol=atol),
                     no_bare=("atol",))
        return S("rtol-only", {"a": a, "b": bb}, lambda a, b: f(a, b, rtol=1e-2, atol=0))
    return b


for _n in ("isclose", "allclose"):
    BUILDERS[("function", _n)] = mk_close(_n)


def b_copyto(rng, i):
    shape = shape_of(rng, rank_for(i, 1))
    dst, src = arr(rng, shape), arr(rng, shape if i % 2 else shape[-1:])
    if i % 3 == 2:
        m = np.array([rng.random() < 0.5 for _ in range(int(np.prod(shape)))]).reshape(shape)
        return S("where", {"dst": dst, "src": src}, lambda dst, src: (np.copyto(dst, src, where=m), dst)[1],
                 oracle=lambda dst, src: np.where(m, np.broadcast_to(src, dst.shape), dst), mutates=("dst",))
    return S("", {"dst": dst, "src": src}, lambda dst, src: (np.copyto(dst, src), dst)[1],
             oracle=lambda dst, src: np.broadcast_to(src, dst.shape).copy(), mutates=("dst",))


BUILDERS[("function", "copyto")] = b_copyto


def b_unwrap(rng, i):
    n = rng.randint(2, 6)
    p = np.cumsum(arr(rng, (n,), -5, 5))
    if i % 2:
        p = np.stack([p, p[::-1]])
        return S("axis", {"p": p}, lambda p: np.unwrap(p, axis=1))
    return S("", {"p": p}, lambda p: np.unwrap(p))


BUILDERS[("function", "unwrap")] = b_unwrap


def mk_multi(name):
    f = npf(name)

    def b(rng, i):
        if name == "meshgrid":
            x, y = arr(rng, (rng.randint(1, 4),)), arr(rng, (rng.randint(1, 4),))
            kw = {"indexing": "ij"} if i % 2 else {}
            return S("ij" if kw else "", {"x": x, "y": y}, lambda x, y: f(x, y, **kw))
        if name == "broadcast_arrays":
            s = shape_of(rng, rank_for(i, 1))
            if i % 2:
                return S("same-dimension", {"x": arr(rng, s), "y": arr(rng, s[-1:])}, lambda x, y: f(x, y),
                         classes={"x": DIM_POOL[i % 4], "y": DIM_POOL[i % 4]})
            return S("", {"x": arr(rng, s), "y": arr(rng, s[-1:])}, lambda x, y: f(x, y))
        s1, s2 = shape_of(rng, rank_for(i)), shape_of(rng, rank_for(i + 1))
        if i % 2:
            return S("single", {"x": arr(rng, s1)}, lambda x: f(x), out={"x": 1})
        return S("two", {"x": arr(rng, s1), "y": arr(rng, s2)}, lambda x, y: f(x, y))
    return b


for _n in ("meshgrid", "broadcast_arrays", "atleast_1d", "atleast_2d", "atleast_3d"):
    BUILDERS[("function", _n)] = mk_multi(_n)


def b_result_type(rng, i):
    a = arr(rng, shape_of(rng, rank_for(i)))
    if i % 2:
        return S("two", {"a": a, "b": np.float32(1.5)}, lambda a, b: np.result_type(a, b))
    return S("", {"a": a}, lambda a: np.result_type(a))


BUILDERS[("function", "result_type")] = b_result_type


# ------------------------------------------------------------------------------- rearrangements / selections of one array
def rearr(name, api, minrank, make):
    """make(rng, i, a) -> (variant, callable on one array)"""
    def b(rng, i):
        a = arr(rng, shape_of(rng, rank_for(i, minrank), 1, 4))
        variant, g = make(rng, i, a)
        role = {"flip": "m", "rot90": "m", "tile": "A", "fix": "x", "broadcast_to": "array", "trim_zeros": "filt",
                "delete": "arr", "lib.stride_tricks.sliding_window_view": "x", "isreal": "x", "iscomplex": "x"}.get(name, "a") \
            if api == "function" else "a"
        return S(variant, {role: a}, lambda **kw: g(next(iter(kw.values()))))
    BUILDERS[(api, name)] = b


def _perm(rng, n):
    p = list(range(n))
    rng.shuffle(p)
    return tuple(p)


def _newshape(a):
    return (a.size,) if a.ndim != 1 else (1, a.size)


F = "function"
M = "method"
rearr("copy", F, 0, lambda rng, i, a: ("", lambda x: np.copy(x)))
rearr("expand_dims", F, 0, lambda rng, i, a: ("", lambda x, ax=rng.randint(0, a.ndim): np.expand_dims(x, ax)))
rearr("squeeze", F, 0, lambda rng, i, a: ("", lambda x: np.squeeze(x)))
rearr("ravel", F, 0, lambda rng, i, a: ("", lambda x: np.ravel(x)))
rearr("reshape", F, 0, lambda rng, i, a: ("", lambda x, s=_newshape(a): np.reshape(x, s)))
rearr("resize", F, 1, lambda rng, i, a: ("", lambda x, s=(rng.randint(1, 3), rng.randint(1, 4)): np.resize(x, s)))
rearr("transpose", F, 0, lambda rng, i, a: (("axes", lambda x, p=_perm(rng, a.ndim): np.transpose(x, p)) if i % 2 else
                                            ("", lambda x: np.transpose(x))))
rearr("swapaxes", F, 2, lambda rng, i, a: ("", lambda x: np.swapaxes(x, 0, a.ndim - 1)))
rearr("moveaxis", F, 2, lambda rng, i, a: ("", lambda x: np.moveaxis(x, 0, -1)))
rearr("rollaxis", F, 2, lambda rng, i, a: ("", lambda x: np.rollaxis(x, a.ndim - 1)))
rearr("roll", F, 1, lambda rng, i, a: (("axis", lambda x, k=rng.randint(-3, 3): np.roll(x, k, axis=0)) if i % 2 else
                                       ("", lambda x, k=rng.randint(-3, 3): np.roll(x, k))))
rearr("flip", F, 1, lambda rng, i, a: (("axis", lambda x: np.flip(x, 0)) if i % 2 else ("", lambda x: np.flip(x))))
rearr("rot90", F, 2, lambda rng, i, a: ("", lambda x, k=rng.randint(1, 3): np.rot90(x, k)))
rearr("tile", F, 0, lambda rng, i, a: ("", lambda x, r=rng.randint(1, 3): np.tile(x, r)))
rearr("diagonal", F, 2, lambda rng, i, a: ("", lambda x, k=rng.randint(-1, 1): np.diagonal(x, k)))
rearr("compress", F, 1, lambda rng, i, a: ("", lambda x, c=[rng.random() < 0.6 for _ in range(a.shape[0])]:
                                           np.compress(c, x, axis=0)))
rearr("broadcast_to", F, 0, lambda rng, i, a: ("", lambda x, s=(2,) + a.shape: np.broadcast_to(x, s)))
rearr("delete", F, 1, lambda rng, i, a: ("", lambda x, k=rng.randrange(a.shape[0]): np.delete(x, k, axis=0)))
rearr("sort", F, 1, lambda rng, i, a: (("axis=0", lambda x: np.sort(x, axis=0)) if i % 2 else ("", lambda x: np.sort(x))))
rearr("lib.stride_tricks.sliding_window_view", F, 1,
      lambda rng, i, a: ("", lambda x, w=rng.randint(1, a.shape[-1]): np.lib.stride_tricks.sliding_window_view(x, w, axis=-1)))
rearr("around", F, 0, lambda rng, i, a: ("decimals=%d" % (i % 3), lambda x, d=i % 3: np.around(x, d)))
rearr("round", F, 0, lambda rng, i, a: ("decimals=%d" % (i % 3), lambda x, d=i % 3: np.round(x, d)))
rearr("fix", F, 0, lambda rng, i, a: ("", lambda x: np.fix(x)))
rearr("argsort", F, 1, lambda rng, i, a: (("axis=0", lambda x: np.argsort(x, axis=0)) if i % 2 else ("", lambda x: np.argsort(x))))
rearr("nonzero", F, 1, lambda rng, i, a: ("", lambda x: np.nonzero(x)))
rearr("isreal", F, 0, lambda rng, i, a: ("", lambda x: np.isreal(x)))
rearr("iscomplex", F, 0, lambda rng, i, a: ("", lambda x: np.iscomplex(x)))
rearr("shape", F, 0, lambda rng, i, a: ("", lambda x: np.shape(x)))
rearr("size", F, 0, lambda rng, i, a: (("axis", lambda x: np.size(x, 0)) if (i % 2 and a.ndim) else ("", lambda x: np.size(x))))
rearr("ndim", F, 0, lambda rng, i, a: ("", lambda x: np.ndim(x)))
rearr("ones_like", F, 0, lambda rng, i, a: ("", lambda x: np.ones_like(x)))
rearr("zeros_like", F, 0, lambda rng, i, a: ("", lambda x: np.zeros_like(x)))
rearr("empty_like", F, 0, lambda rng, i, a: ("", lambda x: np.empty_like(x)))

rearr("copy", M, 1, lambda rng, i, a: ("", lambda x: x.copy()))
rearr("compress", M, 1, lambda rng, i, a: ("", lambda x, c=[rng.random() < 0.6 for _ in range(a.shape[0])]: x.compress(c, axis=0)))
rearr("diagonal", M, 2, lambda rng, i, a: ("", lambda x: x.diagonal()))
rearr("ravel", M, 1, lambda rng, i, a: ("", lambda x: x.ravel()))
rearr("flatten", M, 1, lambda rng, i, a: ("", lambda x: x.flatten()))
rearr("repeat", M, 1, lambda rng, i, a: ("", lambda x, k=rng.randint(1, 3): x.repeat(k, axis=0)))
rearr("reshape", M, 1, lambda rng, i, a: ("", lambda x, s=_newshape(a): x.reshape(s)))
rearr("squeeze", M, 1, lambda rng, i, a: ("", lambda x: x.squeeze()))
rearr("swapaxes", M, 2, lambda rng, i, a: ("", lambda x: x.swapaxes(0, 1)))
rearr("take", M, 1, lambda rng, i, a: ("", lambda x, idx=[rng.randrange(a.shape[0]) for _ in range(3)]: x.take(idx, axis=0)))
rearr("transpose", M, 1, lambda rng, i, a: ("", lambda x: x.transpose()))
rearr("T", M, 1, lambda rng, i, a: ("", lambda x: x.T))
rearr("trace", M, 2, lambda rng, i, a: ("", lambda x: x.trace()))
rearr("round", M, 1, lambda rng, i, a: ("decimals=%d" % (i % 3), lambda x, d=i % 3: x.round(d)))
rearr("conj", M, 1, lambda rng, i, a: ("", lambda x: x.conj()))
rearr("conjugate", M, 1, lambda rng, i, a: ("", lambda x: x.conjugate()))
rearr("real", M, 1, lambda rng, i, a: ("", lambda x: x.real))
rearr("imag", M, 1, lambda rng, i, a: ("", lambda x: x.imag))
rearr("flat", M, 1, lambda rng, i, a: ("", lambda x: list(x.flat)))
rearr("tolist", M, 1, lambda rng, i, a: ("", lambda x: x.tolist()))
rearr("astype", M, 1, lambda rng, i, a: ("", lambda x: x.astype(np.float32).astype(float)))
BUILDERS[(M, "astype")] = (lambda b: lambda rng, i: dict(b(rng, i), noninvariant=True, no_offset=True))(BUILDERS[(M, "astype")])
rearr("item", M, 1, lambda rng, i, a: ("", lambda x, k=rng.randrange(a.size): x.item(k)))
rearr("getitem", M, 1, lambda rng, i, a: (("slice", lambda x: x[::-1]) if i % 3 == 0 else
                                          ("index", lambda x, k=rng.randrange(a.shape[0]): x[k]) if i % 3 == 1 else
                                          ("mask", lambda x, m=np.array([rng.random() < 0.5 for _ in range(a.shape[0])]): x[m])))
rearr("argsort", M, 1, lambda rng, i, a: ("", lambda x: x.argsort()))
rearr("nonzero", M, 1, lambda rng, i, a: ("", lambda x: x.nonzero()))
rearr("shape", M, 1, lambda rng, i, a: ("", lambda x: x.shape))
rearr("ndim", M, 1, lambda rng, i, a: ("", lambda x: x.ndim))
rearr("len", M, 1, lambda rng, i, a: ("", lambda x: len(x)))


def _complexify(b):
    def bb(rng, i):
        scn = b(rng, i)
        if i % 2:
            r = next(iter(scn["roles"]))
            a = scn["roles"][r]
            scn["roles"][r] = a + 1j * arr(rng, a.shape)
        return scn
    return bb


for _k in ((M, "conj"), (M, "conjugate"), (M, "real"), (M, "imag"), (F, "isreal"), (F, "iscomplex")):
    BUILDERS[_k] = _complexify(BUILDERS[_k])
for _k in ((F, "nonzero"), (M, "nonzero")):
    BUILDERS[_k] = _zeros_in(BUILDERS[_k])


def b_trim_zeros(rng, i):
    n = rng.randint(1, 4)
    a = np.concatenate([np.zeros(rng.randint(0, 2)), arr(rng, (n,), nz=0.5), np.zeros(rng.randint(0, 2))])
    trim = ("fb", "f", "b")[i % 3]
    return S(trim, {"filt": a}, lambda filt: np.trim_zeros(filt, trim))


BUILDERS[(F, "trim_zeros")] = b_trim_zeros


# ------------------------------------------------------------------------------- explicit in-place forms
def mk_iop(name):
    import operator

    op = getattr(operator, name)
    pure = getattr(operator, name[1:])

    def b(rng, i):
        shape = shape_of(rng, rank_for(i, 1))
        a = arr(rng, shape)
        bshape = shape if i % 2 else shape[-1:]
        bb = arr(rng, bshape, nz=0.5)
        if name in ("imul", "itruediv") and i % 3 == 2:
            k = round(rng.uniform(0.5, 3), 4)
            return S("bare-scalar", {"a": a}, lambda a: op(a, k), oracle=lambda a: pure(a, k), mutates=("a",), out={"a": 1})
        return S("", {"a": a, "b": bb}, lambda a, b: op(a, b), oracle=lambda a, b: pure(a, b), mutates=("a",))
    return b


for _n in ("iadd", "isub", "imul", "itruediv"):
    BUILDERS[("inplace", _n)] = mk_iop(_n)


def _set(a, key, value):
    a[key] = value
    return a


def b_setitem(rng, i):
    shape = shape_of(rng, rank_for(i, 1), 2, 4)
    a = arr(rng, shape)
    v = i % 4
    if v == 0:
        k = rng.randrange(shape[0])
        val = round(rng.uniform(-10, 10), 4) if len(shape) == 1 else arr(rng, shape[1:])
        return S("index", {"a": a, "value": val}, lambda a, value: _set(a, k, value),
                 oracle=lambda a, value: _set(np.array(a), k, value), mutates=("a",))
    if v == 1:
        val = arr(rng, (len(range(shape[0])[::2]),) + shape[1:])
        return S("slice", {"a": a, "value": val}, lambda a, value: _set(a, slice(None, None, 2), value),
                 oracle=lambda a, value: _set(np.array(a), slice(None, None, 2), value), mutates=("a",))
    if v == 2:
        m = np.array([rng.random() < 0.5 for _ in range(int(np.prod(shape)))]).reshape(shape)
        return S("mask", {"a": a, "value": round(rng.uniform(-10, 10), 4)}, lambda a, value: _set(a, m, value),
                 oracle=lambda a, value: _set(np.array(a), m, value), mutates=("a",))
    return S("ellipsis", {"a": a, "value": arr(rng, shape[-1:])}, lambda a, value: _set(a, Ellipsis, value),
             oracle=lambda a, value: _set(np.array(a), Ellipsis, value), mutates=("a",))


BUILDERS[("inplace", "setitem")] = b_setitem


def b_fill(rng, i):
    a = arr(rng, shape_of(rng, rank_for(i, 1)))
    return S("", {"a": a, "value": round(rng.uniform(-10, 10), 4)}, lambda a, value: (a.fill(value), a)[1],
             oracle=lambda a, value: np.full(np.shape(a), value), mutates=("a",), no_error=True)


BUILDERS[("inplace", "fill")] = b_fill


def _put(a, idx, vals):
    a.put(idx, vals)
    return a


def b_put(rng, i):
    a = arr(rng, shape_of(rng, rank_for(i, 1)))
    idx = [rng.randrange(a.size) for _ in range(2)]
    vals = arr(rng, (2,)) if i % 2 else round(rng.uniform(-10, 10), 4)
    return S("", {"a": a, "values": vals}, lambda a, values: _put(a, idx, values),
             oracle=lambda a, values: _put(np.array(a), idx, values), mutates=("a",))


BUILDERS[("inplace", "put")] = b_put


def b_isort(rng, i):
    a = arr(rng, shape_of(rng, rank_for(i, 1)))
    return S("", {"a": a}, lambda a: (a.sort(), a)[1], oracle=lambda a: np.sort(a), mutates=("a",))


BUILDERS[("inplace", "sort")] = b_isort


def b_out(rng, i):
    shape = shape_of(rng, rank_for(i, 1))
    x1, x2 = arr(rng, shape), arr(rng, shape)
    f = (np.add, np.subtract, np.maximum)[i % 3]
    if i % 2:
        return S("%s,out=ndarray" % f.__name__, {"x1": x1, "x2": x2}, lambda x1, x2: f(x1, x2, out=np.zeros(shape)),
                 oracle=lambda x1, x2: f(x1, x2), idname="ufunc-out", no_offset=True)
    return S("%s,out=Quantity" % f.__name__, {"x1": x1, "x2": x2, "out": np.zeros(shape)},
             lambda x1, x2, out: (f(x1, x2, out=out), out)[1], oracle=lambda x1, x2, out: f(x1, x2), mutates=("out",),
             idname="ufunc-out", no_error=True, no_offset=True)


BUILDERS[("inplace", "out")] = b_out



# =============================================================================== driver
def other_class(cls):
    return {"L": "T", "T": "M", "M": "L", "V": "M", "1": "L", "A": "L"}[cls]


def sanitize_bare(V):
    if isinstance(V, np.ndarray):
        V = np.array(V, dtype=float, copy=True)
        V[~np.isfinite(V) | (V == 0)] = 1.5
        return V
    return V if (V == V and V != 0 and abs(V) != float("inf")) else 1.5


def planned_cases(api, name, spec, builder, seed, i, n_combos, do_err, do_off):
    """-> list of (mode, scn, units, role_class, regname) for draw i (deterministic)"""
    rng = random.Random("%s:%s:%s:%d" % (seed, api, name, i))
    scn = builder(rng, i)
    role_class = assign_classes(spec, scn, i)
    out = []
    combos = unit_combos(scn, role_class, rng, n_combos)
    for j, units in enumerate(combos):
        out.append(("valid", scn, units, role_class, "fnl" if (i % 4 == 3 and j == len(combos) - 1) else "default"))
    if scn.get("expect") == "raise":
        return out
    groups = groups_of(spec, scn)
    if do_err and not scn.get("no_error") and "no_error_clause" not in spec:
        root = combos[min(2, len(combos) - 1)]
        for rs in groups:
            cls = role_class[rs[0]]
            if len(rs) >= 2:
                victim = rs[-1] if (i % 2 == 0 or api in ("method", "inplace")) else rs[0]
                u = dict(root)
                u[victim] = CLASSES[other_class(cls)]["units"][i % 2][0]
                out.append(("incompatible", scn, u, role_class, "default"))
                if cls not in ("1", "A"):
                    victim = rs[-1] if (i % 4 < 2 or api != "ufunc") else rs[0]  # NumPy dispatches non-ufuncs on some arguments only
                    if victim in scn.get("no_bare", ()):
                        victim = [r for r in rs if r not in scn["no_bare"]][-1]
                    scn2 = dict(scn)
                    scn2["roles"] = dict(scn["roles"])
                    scn2["roles"][victim] = sanitize_bare(scn["roles"][victim])
                    u = dict(root)
                    u[victim] = "bare"
                    out.append(("bare", scn2, u, role_class, "default"))
            if cls in ("1", "A"):
                for r in rs:
                    u = dict(root)
                    u[r] = ("meter", "second", "kilogram")[i % 3]
                    out.append(("needs", scn, u, role_class, "default"))
    if do_off and spec.get("offset", "n/a") != "n/a" and not scn.get("no_offset"):
        rs = groups[0]
        if role_class[rs[0]] not in ("1", "A") and not any(np.iscomplexobj(scn["roles"][r]) for r in rs):
            scn2 = dict(scn)
            scn2["roles"] = dict(scn["roles"])
            rc = dict(role_class)
            u = {r: CLASSES[role_class[r]]["units"][0][0] for r in scn["roles"]}
            for j, r in enumerate(rs):
                V = scn["roles"][r]
                scn2["roles"][r] = (np.asarray(V, dtype=float) + 283.15) if isinstance(V, np.ndarray) else float(V) + 283.15
                rc[r] = "K"
                u[r] = "degC" if j == 0 else ("degF", "degC", "kelvin")[(i + j) % 3]
            out.append(("offset", scn2, u, rc, "default"))
    return out


def execute(col, stats, api, name, spec, seed, i, mode, scn, units, role_class, regname):
    example = {"api": api, "func": name, "draw": i, "mode": mode, "units": dict(units), "reg": regname, "seed": seed,
               "variant": scn.get("variant", "")}
    if mode == "valid":
        run_valid(col, stats, regname, api, name, spec, scn, units, role_class, example)
    elif mode == "offset":
        run_offset(col, stats, regname, api, name, spec, scn, units, role_class, example)
    else:
        why = {"incompatible": "operands of different dimensions", "bare": "bare non-zero numbers with a dimensional quantity",
               "needs": "dimensional argument where a pure number / angle is needed"}[mode]
        run_must_raise(col, stats, regname, api, name, spec, scn, units, example, why)


def check_function(col, stats, api, name, seed, n_draws, n_combos, n_err, n_off):
    spec = regs()["specs"][api][name]
    builder = BUILDERS[(api, name)]
    for i in range(n_draws):
        try:
            for mode, scn, units, rc, regname in planned_cases(api, name, spec, builder, seed, i, n_combos, i < n_err,
                                                               i < n_off):
                execute(col, stats, api, name, spec, seed, i, mode, scn, units, rc, regname)
        except Exception as e:  # harness failure: add the location and re-raise (never a violation)
            e.add_note("while checking %s%s draw %d" % (PREFIX[api], name, i))
            raise


def inventory():
    """every key pint handles -> (api, name) with a spec row and a builder, or a no_spec reason"""
    from pint.facets.numpy.numpy_func import HANDLED_FUNCTIONS, HANDLED_UFUNCS

    specs = regs()["specs"]
    todo, nospec = [], {}
    for k in sorted(HANDLED_UFUNCS):
        if isinstance(getattr(np, k, None), np.ufunc):
            key = ("ufunc", k)
        else:
            key = ("method", k)
            if "method:" + k in specs["no_spec"]:
                nospec["method:" + k] = specs["no_spec"]["method:" + k]
                continue
        if key[1] in specs[key[0]] and key in BUILDERS:
            todo.append(key)
        else:
            nospec["%s:%s" % key] = "NO ROW in tables/numpy_specs.json or no scenario builder (uncovered)"
        if key[0] == "ufunc" and hasattr(np.ndarray, k) and ("method", k) in BUILDERS and ("method", k) not in todo:
            todo.append(("method", k))
    for k in sorted(HANDLED_FUNCTIONS):
        if k in specs["no_spec"]:
            nospec[k] = specs["no_spec"][k]
        elif k in specs["function"] and ("function", k) in BUILDERS:
            todo.append(("function", k))
        else:
            nospec["function:" + k] = "NO ROW in tables/numpy_specs.json or no scenario builder (uncovered)"
    for api in ("method", "inplace"):
        for k in specs[api]:
            if (api, k) in BUILDERS and (api, k) not in todo:
                todo.append((api, k))
    return todo, nospec, len(HANDLED_UFUNCS), len(HANDLED_FUNCTIONS)


def run(tier: str = "quick", seed: int = 0, **kw) -> dict:
    t0 = time.time()
    regs()
    quick = tier == "quick"
    n_draws, n_combos = (6, 5) if quick else (40, 5)
    n_err, n_off = (3, 2) if quick else (8, 6)
    todo, nospec, n_uf, n_fn = inventory()
    only = kw.get("only")
    col = Collector()
    stats = {"evaluations": 0, "error_cases": 0, "offset_cases": 0, "offset_over_refusals": set()}
    per_func = {}
    for api, name in todo:
        if only and not re.search(only, PREFIX[api] + name):
            continue
        e0 = stats["evaluations"]
        check_function(col, stats, api, name, seed, n_draws, n_combos, n_err, n_off)
        per_func[PREFIX[api] + name] = stats["evaluations"] - e0
    global LAST
    LAST = col
    entries = sorted(col.entries.values(), key=lambda e: e["case"])
    by_class = {}
    for e in entries:
        by_class.setdefault(e["class"], []).append(e)
    funcs_by_class = {c: sorted({e["case"].split(":")[0] for e in es}) for c, es in by_class.items()}
    # at most 25 reported, round robin over (class, function) so every class / function is represented
    buckets = {}
    for e in entries:
        buckets.setdefault((e["class"], e["case"].split(":")[0]), []).append(e)
    chosen, k = [], 0
    prio = ("wrong-result", "accepted-incompatible", "raised-on-valid", "input-modified", "accepted-unrepresentable")
    per_class = {}
    for b in sorted(buckets):
        per_class.setdefault(b[0], []).append(b)
    classes = sorted(per_class, key=lambda c: (prio.index(c) if c in prio else len(prio), c))
    # every function with a wrong numerical result first, then one function of every other class, then the second, ...
    order = list(per_class.get("wrong-result", []))
    rest = [c for c in classes if c != "wrong-result"]
    for j in range(max([len(per_class[c]) for c in rest] or [0])):
        order += [per_class[c][j] for c in rest if j < len(per_class[c])]
    while len(chosen) < 25 and any(k < len(buckets[b]) for b in order):
        for b in order:
            if k < len(buckets[b]) and len(chosen) < 25:
                chosen.append(buckets[b][k])
        k += 1
    chosen.sort(key=lambda e: e["case"])
    samples = [
        "np.sum(Q([[1.,2.],[3.,4.]], 'centimeter'), axis=0) vs np.sum([[.01,.02],[.03,.04]], axis=0) meter",
        "np.multiply(Q(x1, 'inch'), Q(x2, 'minute')) vs (x1*0.0254)*(x2*60) meter*second",
        "np.sin(Q(x, 'degree')) vs np.sin(x*pi/180); np.sin(Q(x, 'meter')) must raise DimensionalityError",
        "np.maximum(Q(t1, 'degC'), Q(t2, 'degF')) vs np.maximum on kelvin values; np.add(degC, degF) must raise",
        "q = Q(a, 'meter'); q[1] = Q(250., 'centimeter') -> q physically a with a[1] = 2.5 m; other inputs untouched",
    ]
    return {
        "name": NAME, "tier": tier, "seed": seed,
        "bound": "%d handled ufunc keys + %d handled function keys of pint enumerated at run time: %d rows checked "
                 "(%d true ufuncs, functions, ndarray methods via Quantity.<method>, in-place forms), %d keys without spec "
                 "(reasons in `no_spec`); per row %d seeded random draws (float arrays of rank 0-3, extents 1-4, variants "
                 "axis/keepdims/where/initial/...) x up to %d unit combinations (all root, all one non-root unit, a different "
                 "unit per argument; classes length/time/mass/speed/pure number/angle), plus per row up to %d draws of the "
                 "error clause (other dimension, bare number, dimensional where pure number/angle needed) and %d of the "
                 "offset clause (degC/degF/kelvin); every 4th draw also in a force_ndarray_like registry; rel. tol. 1e-9"
                 % (n_uf, n_fn, len(per_func), sum(1 for a, _ in todo if a == "ufunc"), len(nospec), n_draws, n_combos,
                    n_err, n_off),
        "evaluations": stats["evaluations"],
        "distinct_nontrivial": stats["evaluations"],
        "rule": "case = (row, draw index, unit combination, clause); arrays from random.Random('<seed>:<api>:<name>:<draw>'); "
                "every executed case calls pint once and is compared with the oracle, so all are non-trivial",
        "exhaustive": False,
        "rows_checked": len(per_func),
        "cases_per_row_min_max": [min(per_func.values()), max(per_func.values())] if per_func else [0, 0],
        "error_clause_cases": stats["error_cases"],
        "offset_clause_cases": stats["offset_cases"],
        "offset_over_refusals": sorted(stats["offset_over_refusals"]),
        "no_spec": nospec,
        "violations": chosen,
        "violation_count": len(entries),
        "violating_evaluations": sum(e["instances"] for e in entries),
        "violation_classes": {c: len(es) for c, es in sorted(by_class.items())},
        "violating_functions_by_class": funcs_by_class,
        "samples": samples,
        "seconds": round(time.time() - t0, 1),
    }


def replay(data: dict) -> bool:
    regs()
    ok = True
    for ex in data.get("examples", [data]):
        api, name, i, seed = ex["api"], ex["func"], ex["draw"], ex.get("seed", 0)
        spec = regs()["specs"][api][name]
        col = Collector()
        stats = {"evaluations": 0, "error_cases": 0, "offset_cases": 0, "offset_over_refusals": set()}
        found = False
        for mode, scn, units, rc, regname in planned_cases(api, name, spec, BUILDERS[(api, name)], seed, i, 5, True, True):
            if mode == ex["mode"] and dict(units) == ex["units"] and regname == ex.get("reg", "default"):
                found = True
                execute(col, stats, api, name, spec, seed, i, mode, scn, units, rc, regname)
        if not found:
            raise HarnessError("recorded case not found in the plan: %r" % (ex,))
        ok = ok and not col.entries
    return ok


if __name__ == "__main__":
    import argparse

    ap = argparse.ArgumentParser()
    ap.add_argument("--tier", default="quick")
    ap.add_argument("--seed", type=int, default=0)
    ap.add_argument("--only", default=None)
    a = ap.parse_args()
    print(json.dumps(run(a.tier, a.seed, only=a.only), indent=1, default=str))
