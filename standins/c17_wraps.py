"""Bounded stand-in for C17 "wraps/check decorators hand over correct magnitudes and enforce dimensions".

Generated programs: Python functions with 1-4 parameters, every parameter one of
    o  positional-only          p  positional-or-keyword          d  positional-or-keyword with a default
    k  keyword-only             kd keyword-only with a default
(all orders Python accepts), called with every legal mix of positional / keyword / omitted (default used) delivery.
The body is a recorder closure: it appends the tuple of the values it received and returns a known number (or a
tuple / list of known numbers).

ureg.wraps(ret, args, strict): one spec letter per parameter from
    N None | m s v  plain units meter, second, meter/second (written as long string, as symbol string 'm', 's', 'm/s',
    or as Unit object) | A B  '=A', '=B' (first occurrence defines the label, a repetition is a dependent argument) |
    A2 AB AoB  the dependent specs '=A**2', '=A*B', '=A/B'
(all 9**n tuples; the ones that reference an undefined label belong to the decoration-time clause), `ret` from a catalogue
of 13 scalar / tuple / list specs (None, plain, '=A', '=A**2', '=A*B', '=A/B', '=B' and mixtures), strict on / off.
Argument values: a base scenario where every argument is a quantity in a *different but compatible* unit (cm, inch, foot,
km, hour, minute, ms, km/hour, ...) and single-fault scenarios replacing one argument by: the declared unit itself, an
incompatible quantity, a bare number, a zero magnitude, a quantity in an offset unit (degC / degF; label definitions
only).  Magnitudes are ints and Fractions; registries are built with non_int_type=Fraction.

Oracle (written from docs/advanced/wrapping.rst and the property statement, with its own unit table -- no pint code):
  * a parameter with a plain unit receives magnitude * factor(argument unit) / factor(declared unit); an argument of
    another dimensionality raises DimensionalityError; a bare number raises ValueError when strict and is handed over
    unchanged (same object) otherwise;
  * '=A' (first occurrence) receives the magnitude as given, and the argument's unit is bound to A; dependent
    parameters receive the argument converted to the unit expression with the labels substituted (bare number bound to a
    label: dimensionless); bare numbers at label positions are refused in strict mode (ValueError or
    DimensionalityError accepted) and handed over unchanged in non-strict mode;
  * None: the very same object is handed over;
  * defaults and keyword arguments are treated exactly like positional ones;
  * the result is re-wrapped: scalar or element-wise (same container type) as Quantity of the registry with the declared
    unit / the unit expression over the *given* units of the label arguments; None leaves the element untouched;
  * a spec count different from the parameter count raises TypeError at decoration time (before any call);
  * a spec or ret that references a label no argument defines must be rejected at decoration time (the code has a
    ValueError for it that is unreachable: reported with the case id "dead-missing-token-check").
ureg.check(*dims): specs from {None, '[length]', '[time]', '[length]/[time]'}: DimensionalityError exactly when the
dimensionality of the argument (bare number: dimensionless) differs; otherwise the function receives the very same objects
and its result is returned untouched; count mismatch -> TypeError at decoration.
ureg.with_context(name, **kw): the context is active exactly during the call (observed by a conversion that only the
context allows, before / inside / after, also when the function raises and when nested), arguments and result untouched.

Comparison: exact (value and not a float) in the registry that only ever sees Unit-object specs and quantities built
from unit dicts; the cases with *string* plain specs run in a second Fraction registry, with the argument quantities built
from unit strings as user code does, and are compared with relative tolerance 1e-12: pint's wraps parses string specs
without the registry into float-typed containers, and dividing a Fraction-exponent container by one of those gives float
exponents, float conversion factors and a poisoned conversion cache (a separate deterministic sub-check in a registry of
its own reports that under "frac-registry-float:...").

Known classes of disagreement on the pinned tree (see `violation_classes`):
  wraps:bare-accepted-in-strict   strict=True accepts a bare number at a '=A' / dependent position
  wraps:nonstrict-bare-refused    strict=False raises DimensionalityError for a bare number at a dependent position
  wraps:not-passed-through        strict=False rescales a bare number at a dependent position whose derived unit is a
                                  dimensionless ratio such as inch/centimeter
  wraps:zero-magnitude-label      '=A' bound to a zero magnitude and used with a negative exponent: ZeroDivisionError
                                  (the implementation multiplies whole quantities, not units)
  wraps:offset-unit-label         '=A' bound to degC / degF and used by another spec or by ret: OffsetUnitCalculusError
  dead-missing-token-check        undefined labels are accepted at decoration, KeyError at call time
  frac-registry-float             float (or inexact Fraction) handed over in a non_int_type=Fraction registry
"""
from __future__ import annotations

import itertools
import json
import multiprocessing as mp
import random
import time
from fractions import Fraction

NAME = "c17_wraps"
NWORKERS = 16
RTOL = Fraction(1, 10 ** 12)
F = Fraction


def _cpu_total():
    import resource

    a = resource.getrusage(resource.RUSAGE_SELF)
    b = resource.getrusage(resource.RUSAGE_CHILDREN)
    return a.ru_utime + a.ru_stime + b.ru_utime + b.ru_stime


def _exc_text(e):
    try:
        return str(e)[:160]
    except Exception:  # noqa: BLE001
        return "<str() of the exception failed>"


# =============================================================================== the oracle's own unit table
# name -> (factor to the coherent unit of its dimension, dimension exponents).  Hand-written from the SI / international
# yard-and-pound definitions, not read from pint.
UNIT_TABLE = {
    "meter": (F(1), {"L": 1}), "centimeter": (F(1, 100), {"L": 1}), "kilometer": (F(1000), {"L": 1}),
    "inch": (F(127, 5000), {"L": 1}), "foot": (F(381, 1250), {"L": 1}),
    "second": (F(1), {"T": 1}), "minute": (F(60), {"T": 1}), "hour": (F(3600), {"T": 1}),
    "millisecond": (F(1, 1000), {"T": 1}),
    "gram": (F(1), {"M": 1}), "kilogram": (F(1000), {"M": 1}), "pound": (F(45359237, 100000), {"M": 1}),
    "percent": (F(1, 100), {}),
    "candela": (F(1), {"J": 1}),
}
# offset units: kelvin = (x + shift) * scale
OFFSET_TABLE = {"degree_Celsius": (F(27315, 100), F(1)), "degree_Fahrenheit": (F(45967, 100), F(5, 9))}
ALT = {"meter": "centimeter", "centimeter": "inch", "inch": "foot", "foot": "kilometer", "kilometer": "meter",
       "second": "hour", "hour": "minute", "minute": "millisecond", "millisecond": "second",
       "gram": "pound", "pound": "kilogram", "kilogram": "gram", "percent": "percent", "candela": "candela"}


def udict(units):
    return {k: v for k, v in units}


def dim_of(units):
    d = {}
    for k, e in units:
        if k in OFFSET_TABLE:
            d["K"] = d.get("K", 0) + e
            continue
        for dk, dv in UNIT_TABLE[k][1].items():
            d[dk] = d.get(dk, 0) + dv * e
    return {k: v for k, v in d.items() if v != 0}


def factor_of(units):
    f = F(1)
    for k, e in units:
        f *= UNIT_TABLE[k][0] ** e
    return f


def umul(*terms):
    """terms: (units tuple, exponent); -> merged units tuple (insertion order, zero exponents dropped)"""
    d = {}
    for units, exp in terms:
        for k, e in units:
            d[k] = d.get(k, 0) + e * exp
    return tuple((k, v) for k, v in d.items() if v != 0)


def alt_units(units, depth=1):
    """a different unit container of the same dimensionality"""
    if not units:
        return (("percent", 1),)
    out = units
    for _ in range(depth):
        out = tuple((ALT[k], e) for k, e in out)
    if udict(out) == udict(units):
        out = tuple((ALT[k], e) for k, e in out)
    return out


def incompatible_units(units):
    """one more power of time: always another dimensionality"""
    return umul((units, 1), ((("minute", 1),), 1))


def is_offset(units):
    return len(units) == 1 and units[0][0] in OFFSET_TABLE and units[0][1] == 1


class Refused(Exception):
    def __init__(self, accept):
        self.accept = accept


def convert(mag, src, dst):
    """exact conversion of a magnitude; raises Refused({'DimensionalityError'})"""
    if is_offset(src) or is_offset(dst):
        if not (is_offset(src) and is_offset(dst)):
            raise Refused({"DimensionalityError"})
        sh, sc = OFFSET_TABLE[src[0][0]]
        kelvin = (F(mag) + sh) * sc
        sh2, sc2 = OFFSET_TABLE[dst[0][0]]
        return kelvin / sc2 - sh2
    if dim_of(src) != dim_of(dst):
        raise Refused({"DimensionalityError"})
    if udict(src) == udict(dst):
        return mag
    return mag * factor_of(src) / factor_of(dst)


# =============================================================================== spec letters
LETTERS = ("N", "m", "s", "v", "A", "B", "A2", "AB", "AoB")
PLAIN_DECL = {"m": (("meter", 1),), "s": (("second", 1),), "v": (("meter", 1), ("second", -1))}
PLAIN_LONG = {"m": "meter", "s": "second", "v": "meter/second"}
PLAIN_SYM = {"m": "m", "s": "s", "v": "m/s"}
SYM_EXPR = {"A": {"A": 1}, "B": {"B": 1}, "A2": {"A": 2}, "AB": {"A": 1, "B": 1}, "AoB": {"A": 1, "B": -1}}
SYM_STR = {"A": "=A", "B": "=B", "A2": "=A**2", "AB": "=A*B", "AoB": "=A/B"}
RET_EXPR = {"=A": {"A": 1}, "=A**2": {"A": 2}, "=A*B": {"A": 1, "B": 1}, "=A/B": {"A": 1, "B": -1}, "=B": {"B": 1}}
RET_CATALOGUE = (
    (None, (None,)), (None, ("m",)), (None, ("v",)), (None, ("=A",)), (None, ("=A**2",)), (None, ("=A*B",)),
    (None, ("=A/B",)), (None, ("=B",)), ("tuple", ("m", None, "=A*B")), ("tuple", ("s", None)),
    ("list", (None, "v")), ("tuple", ("=A", "=A**2")), ("tuple", ("=B", "m", None)),
)
RETURNS = (F(7, 2), 11, F(-3, 4))


def classify(specs):
    """-> (roles, defined labels in order, valid?)"""
    roles, defined = [], []
    for sp in specs:
        if sp == "N":
            roles.append("none")
        elif sp in PLAIN_DECL:
            roles.append("plain")
        elif sp in ("A", "B") and sp not in defined:
            defined.append(sp)
            roles.append("def")
        else:
            roles.append("dep")
    valid = all(set(SYM_EXPR[sp]) <= set(defined) for sp, r in zip(specs, roles) if r == "dep")
    return tuple(roles), tuple(defined), valid


def ret_needs(ret):
    need = set()
    for el in ret[1]:
        if el in RET_EXPR:
            need |= set(RET_EXPR[el])
    return need


def ret_options(specs, defined, offset_labels=()):
    out = []
    for i, ret in enumerate(RET_CATALOGUE):
        if not ret_needs(ret) <= set(defined):
            continue
        if any(el in RET_EXPR and el not in ("=A", "=B") and set(RET_EXPR[el]) & set(offset_labels) for el in ret[1]):
            continue
        out.append(i)
    return out


# =============================================================================== signatures and deliveries
def signatures(n):
    """all parameter-kind sequences o* p* d* (k|kd)* of length n"""
    out = []
    for no in range(n + 1):
        for np_ in range(n + 1 - no):
            for nd in range(n + 1 - no - np_):
                nk = n - no - np_ - nd
                for ks in itertools.product(("k", "kd"), repeat=nk):
                    out.append(("o",) * no + ("p",) * np_ + ("d",) * nd + ks)
    return out


def deliveries(sig):
    """per parameter P (positional) / K (keyword) / O (omitted, default used); positional ones form a prefix"""
    choices = {"o": "P", "p": "PK", "d": "PKO", "k": "K", "kd": "KO"}
    out = []
    for combo in itertools.product(*(choices[k] for k in sig)):
        seen_non_p = False
        ok = True
        for c in combo:
            if c == "P":
                if seen_non_p:
                    ok = False
                    break
            else:
                seen_non_p = True
        if ok:
            out.append(combo)
    return out


_FUNCS = {}
_REC = []
_RET = [None]


def function_for(sig):
    """the recorder function of a signature (defaults are patched per case)"""
    f = _FUNCS.get(sig)
    if f is None:
        n = len(sig)
        parts = []
        for i, k in enumerate(sig):
            if k in ("k", "kd") and (i == 0 or sig[i - 1] not in ("k", "kd")):
                parts.append("*")
            parts.append("p%d" % i + ("=None" if k in ("d", "kd") else ""))
            if k == "o" and (i + 1 == n or sig[i + 1] != "o"):
                parts.append("/")
        src = "def recorder(%s):\n    _REC.append((%s,))\n    return _RET[0]\n" % (
            ", ".join(parts), ", ".join("p%d" % i for i in range(n)))
        ns = {"_REC": _REC, "_RET": _RET}
        exec(src, ns)  # noqa: S102
        f = _FUNCS[sig] = ns["recorder"]
        f.__source_text__ = src
    return f


def set_defaults(f, sig, defaults):
    pos = tuple(defaults[i] for i, k in enumerate(sig) if k == "d")
    f.__defaults__ = pos or None
    kw = {"p%d" % i: defaults[i] for i, k in enumerate(sig) if k == "kd"}
    f.__kwdefaults__ = kw or None


# =============================================================================== registries
_R = {}


def regs():
    if not _R:
        import pint

        _R["pint"] = pint
        _R["U"] = pint.UnitRegistry(non_int_type=Fraction)  # only Unit-object plain specs: exact comparisons
        _R["S"] = pint.UnitRegistry(non_int_type=Fraction)  # string plain specs (float-typed containers inside wraps)
        u = _R["U"]
        ctx = pint.Context("c17ctx", defaults={"k": 3})
        ctx.add_transformation("[length]", "[time]", lambda ureg, x, k: x / (k * ureg.Quantity(1, "meter/second")))
        u.add_context(ctx)
        ctx2 = pint.Context("c17other")
        ctx2.add_transformation("[mass]", "[time]", lambda ureg, x: x / ureg.Quantity(1, "gram/second"))
        u.add_context(ctx2)
    return _R


_QCACHE = {}


def units_str(units):
    return " * ".join(k if e == 1 else "%s**%d" % (k, e) for k, e in units) or "dimensionless"


def mkq(reg, mag, units, parsed=False):
    """quantities are immutable for wraps/check: one object per (registry, magnitude, units, type of the magnitude).
    parsed=True builds the quantity from a unit *string*, as user code does: in a Fraction registry the exponents
    are then Fractions (built from a dict they are ints)"""
    key = (id(reg), mag, type(mag), units, parsed)
    q = _QCACHE.get(key)
    if q is None:
        if parsed:
            q = reg.Quantity(mag, units_str(units))
        else:
            q = reg.Quantity(mag, reg.UnitsContainer(udict(units)))
        _QCACHE[key] = q
    return q


_UCACHE = {}


def unit_obj(reg, letter):
    key = (id(reg), letter)
    u = _UCACHE.get(key)
    if u is None:
        u = _UCACHE[key] = {"m": reg.meter, "s": reg.second, "v": reg.meter / reg.second}[letter]
    return u


# =============================================================================== collector
class Collector:
    def __init__(self):
        self.entries = {}

    def add(self, case, what, example):
        e = self.entries.get(case)
        if e is None:
            e = self.entries[case] = {"case": case, "what": what, "instances": 0, "examples": []}
        e["instances"] += 1
        if len(e["examples"]) < 2:
            e["examples"].append(example)

    def merge(self, entries):
        for case, o in entries.items():
            e = self.entries.get(case)
            if e is None:
                self.entries[case] = {"case": case, "what": o["what"], "instances": o["instances"],
                                      "examples": list(o["examples"][:2])}
            else:
                e["instances"] += o["instances"]
                for ex in o["examples"]:
                    if len(e["examples"]) < 2:
                        e["examples"].append(ex)


# =============================================================================== wraps: case construction
MAGS = (F(7, 3), 5, F(-5, 2), 12, F(1, 8), -3)
DEF_POOL = ((("centimeter", 1),), (("hour", 1),), (("kilometer", 1), ("hour", -1)), (("gram", 1),), (("inch", 1),))
OFFSET_DEF = {"A": (20, (("degree_Celsius", 1),)), "B": (50, (("degree_Fahrenheit", 1),))}
OFFSET_OTHER = {"degree_Celsius": (68, (("degree_Fahrenheit", 1),)), "degree_Fahrenheit": (F(21, 2), (("degree_Celsius", 1),))}


def fault_list(specs, roles):
    """single-fault scenarios: (position, kind)"""
    out = []
    sym = [sp for sp, r in zip(specs, roles) if r == "dep"]
    for i, (sp, r) in enumerate(zip(specs, roles)):
        if r == "plain":
            out += [(i, "s"), (i, "i"), (i, "b"), (i, "z")]
        elif r == "dep":
            out += [(i, "s"), (i, "i"), (i, "b")]
        elif r == "none":
            out += [(i, "b"), (i, "s")]
        else:
            out += [(i, "b"), (i, "z")]
            # offset unit bound to a label: only when every use of the label is the bare label itself
            if all(sp not in SYM_EXPR[d] or d == sp for d in sym):
                out.append((i, "o"))
    return out


def build_values(specs, roles, kinds, var):
    """-> list of value descriptors ('q', mag, units) | ('b', number) | ('t', text), and the label -> units map as given"""
    n = len(specs)
    vals = [None] * n
    label_units = {}
    offset_labels = []
    mags = [MAGS[(var + i) % len(MAGS)] for i in range(n)]
    for i in range(n):
        if roles[i] != "def":
            continue
        lab = specs[i]
        units = DEF_POOL[(var if lab == "A" else var // len(DEF_POOL)) % len(DEF_POOL)]
        k = kinds[i]
        if k == "b":
            vals[i] = ("b", mags[i])
            label_units[lab] = ()
        elif k == "z":
            vals[i] = ("q", 0, units)
            label_units[lab] = units
        elif k == "o":
            m, units = OFFSET_DEF[lab]
            vals[i] = ("q", m, units)
            label_units[lab] = units
            offset_labels.append(lab)
        else:
            vals[i] = ("q", mags[i], units)
            label_units[lab] = units
    for i in range(n):
        r, k = roles[i], kinds[i]
        if r == "def":
            continue
        if r == "none":
            vals[i] = {"c": ("q", mags[i], (("pound", 1),)), "b": ("b", mags[i])}.get(k, ("t", "free text"))
            continue
        if r == "plain":
            decl = PLAIN_DECL[specs[i]]
        else:
            expr = SYM_EXPR[specs[i]]
            if any(lab in offset_labels for lab in expr):
                decl = label_units[specs[i]]
            else:
                decl = umul(*((label_units[lab], e) for lab, e in expr.items()))
        if k == "b":
            vals[i] = ("b", mags[i])
        elif is_offset(decl):
            if k == "s":
                vals[i] = ("q", mags[i], decl)
            elif k == "i":
                vals[i] = ("q", mags[i], (("second", 1),))
            else:
                vals[i] = ("q",) + OFFSET_OTHER[decl[0][0]]
        elif k == "s":
            vals[i] = ("q", mags[i], decl)
        elif k == "i":
            vals[i] = ("q", mags[i], incompatible_units(decl))
        elif k == "z":
            vals[i] = ("q", 0, alt_units(decl, 1 + (var + i) % 3))
        else:
            vals[i] = ("q", mags[i], alt_units(decl, 1 + (var + i) % 3))
    return vals, label_units, offset_labels


def oracle(specs, roles, vals, strict):
    """-> ('ok', expected received list [('same',) | ('val', number)], label units) or ('raise', accept set)"""
    n = len(specs)
    exp = [None] * n
    label_units = {}
    accept = set()
    for i in range(n):
        if roles[i] == "def":
            v = vals[i]
            if v[0] == "b":
                label_units[specs[i]] = ()
                exp[i] = ("same",)
                if strict:
                    accept |= {"ValueError", "DimensionalityError"}
            else:
                label_units[specs[i]] = v[2]
                exp[i] = ("val", v[1])
    for i in range(n):
        r, v = roles[i], vals[i]
        if r == "def":
            continue
        if r == "none":
            exp[i] = ("same",)
            continue
        if r == "plain":
            decl = PLAIN_DECL[specs[i]]
            bare_accept = {"ValueError"}
        else:
            expr = SYM_EXPR[specs[i]]
            offs = [lab for lab in expr if is_offset(label_units[lab])]
            if offs:
                decl = label_units[offs[0]]
            else:
                decl = umul(*((label_units[lab], e) for lab, e in expr.items()))
            bare_accept = {"ValueError", "DimensionalityError"}
        if v[0] == "b":
            exp[i] = ("same",)
            if strict:
                accept |= bare_accept
            continue
        try:
            exp[i] = ("val", convert(v[1], v[2], decl))
        except Refused as rf:
            accept |= rf.accept
    if accept:
        return ("raise", accept)
    return ("ok", exp, label_units)


def expected_return(ret, label_units):
    cont, elems = ret
    out = []
    for j, el in enumerate(elems):
        val = RETURNS[j]
        if el is None:
            out.append(("same", val))
        elif el in PLAIN_DECL:
            out.append(("q", val, udict(PLAIN_DECL[el])))
        else:
            expr = RET_EXPR[el]
            offs = [lab for lab in expr if is_offset(label_units[lab])]
            units = label_units[offs[0]] if offs else umul(*((label_units[lab], e) for lab, e in expr.items()))
            out.append(("q", val, udict(units)))
    return cont, out


def render_spec(reg, letter, render):
    if letter == "N" or letter is None:
        return None
    if letter in PLAIN_DECL:
        if render == 0:
            return PLAIN_LONG[letter]
        if render == 1:
            return PLAIN_SYM[letter]
        return unit_obj(reg, letter)
    if letter in SYM_STR:
        return SYM_STR[letter]
    return letter  # '=A...' of the ret catalogue


def spec_text(x):
    return "None" if x is None else (repr(x) if isinstance(x, str) else "ureg." + "/".join(
        k if e == 1 else "%s**%s" % (k, e) for k, e in x._units.items()).replace("/second**-1", "/second"))


def val_text(v):
    if v[0] == "b":
        return repr(v[1])
    if v[0] == "t":
        return repr(v[1])
    return "Q(%r, %r)" % (v[1], units_str(v[2]))


def close(a, b):
    if isinstance(a, (str, type(None))) or isinstance(b, (str, type(None))):
        return False
    try:
        if a == b:
            return True
        fa, fb = F(a), F(b)
    except (TypeError, ValueError, OverflowError):
        return False
    return abs(fa - fb) <= RTOL * max(abs(fa), abs(fb))


def wraps_case(desc, col):
    """desc = (sig, deliv, specs, render, strict, ret index, kinds, var); -> (evaluated?, nontrivial?)"""
    sig, deliv, specs, render, strict, ret_i, kinds, var = desc
    R = regs()
    reg = R["U"] if render == 2 else R["S"]
    exact = render == 2
    n = len(sig)
    roles, defined, valid = classify(specs)
    assert valid
    vals, _lu, _offs = build_values(specs, roles, kinds, var)
    ret = RET_CATALOGUE[ret_i]
    objs = []
    for v in vals:
        objs.append(mkq(reg, v[1], v[2], not exact) if v[0] == "q" else v[1])
    sentinel = mkq(reg, 12345, (("candela", 1),))
    f = function_for(sig)
    set_defaults(f, sig, [objs[i] if deliv[i] == "O" else sentinel for i in range(n)])
    pos = [objs[i] for i in range(n) if deliv[i] == "P"]
    kw = {"p%d" % i: objs[i] for i in range(n) if deliv[i] == "K"}
    cont, elems = ret
    _RET[0] = RETURNS[0] if cont is None else (tuple if cont == "tuple" else list)(RETURNS[:len(elems)])
    returned = _RET[0]
    a_specs = tuple(render_spec(reg, sp, render) for sp in specs)
    r_specs = [render_spec(reg, el, render) for el in elems]
    r_spec = r_specs[0] if cont is None else (tuple(r_specs) if cont == "tuple" else r_specs)
    ex = {"kind": "wraps", "desc": [list(sig), list(deliv), list(specs), render, strict, ret_i, list(kinds), var]}
    fault = next(((i, k) for i, k in enumerate(kinds) if k != "c"), None)
    ident = "%s|strict=%s|%s" % (",".join(specs), int(strict),
                                 "base" if fault is None else "%s@%d" % (fault[1], fault[0]))
    def text():
        return "wraps(%s, (%s,), strict=%s) on f(%s) called with pos=%s kw=%s%s" % (
            "None" if r_spec is None else (spec_text(r_spec) if cont is None else
                                           ("(%s)" if cont == "tuple" else "[%s]") % ", ".join(map(spec_text, r_specs))),
            ", ".join(map(spec_text, a_specs)), strict, ",".join(sig),
            [val_text(vals[i]) for i in range(n) if deliv[i] == "P"],
            {"p%d" % i: val_text(vals[i]) for i in range(n) if deliv[i] == "K"},
            "".join(" default p%d=%s" % (i, val_text(vals[i])) for i in range(n) if deliv[i] == "O"))

    expect = oracle(specs, roles, vals, strict)
    del _REC[:]
    try:
        wrapped = reg.wraps(r_spec, a_specs if n > 1 or var % 2 else a_specs[0], strict)(f)
    except Exception as e:  # noqa: BLE001
        col.add("wraps:decoration-raised:%s" % ",".join(specs),
                "%s: decoration raised %s: %s" % (text(), type(e).__name__, _exc_text(e)), ex)
        return True
    try:
        result = wrapped(*pos, **kw)
        raised = None
    except Exception as e:  # noqa: BLE001
        raised = e
    if expect[0] == "raise":
        if raised is None:
            cls = "bare-accepted-in-strict" if fault and fault[1] == "b" and strict else "accepted"
            col.add("wraps:%s:%s" % (cls, ident), "%s: expected %s, but the call succeeded; function received %r"
                    % (text(), " or ".join(sorted(expect[1])), _REC[-1] if _REC else None), ex)
        elif type(raised).__name__ not in expect[1]:
            col.add("wraps:wrong-exception:%s:%s" % (type(raised).__name__, ident),
                    "%s: expected %s, got %s: %s" % (text(), " or ".join(sorted(expect[1])), type(raised).__name__,
                                                     _exc_text(raised)), ex)
        elif _REC:
            col.add("wraps:called-before-refusal:%s" % ident, "%s: raised %s but the function had been called"
                    % (text(), type(raised).__name__), ex)
        return True
    _, exp, label_units = expect
    if raised is not None:
        kind = fault[1] if fault else "base"
        cls = {"z": "zero-magnitude-label", "o": "offset-unit-label"}.get(kind, "raised")
        if kind == "b" and not strict:
            cls = "nonstrict-bare-refused"
        col.add("wraps:%s:%s:%s" % (cls, type(raised).__name__, ident),
                "%s: raised %s: %s; expected the function to receive %s" % (
                    text(), type(raised).__name__, _exc_text(raised),
                    [("<the argument itself>" if e[0] == "same" else e[1]) for e in exp]), ex)
        return True
    if len(_REC) != 1:
        col.add("wraps:call-count:%s" % ident, "%s: function called %d times" % (text(), len(_REC)), ex)
        return True
    got = _REC[0]
    for i in range(n):
        e = exp[i]
        if e[0] == "same":
            same = got[i] is objs[i] or (vals[i][0] == "b" and type(got[i]) is type(objs[i]) and got[i] == objs[i])
            if not same:
                col.add("wraps:not-passed-through:%s:arg%d" % (ident, i),
                        "%s: parameter p%d received %r, expected the argument itself (%s)"
                        % (text(), i, got[i], val_text(vals[i])), ex)
        else:
            g = got[i]
            good = (not isinstance(g, float) and not isinstance(g, (str, type(None))) and not hasattr(g, "_units")
                    and g == e[1]) if exact else (not hasattr(g, "_units") and close(g, e[1]))
            if not good:
                col.add("wraps:received:%s:arg%d" % (ident, i), "%s: parameter p%d received %r, expected %s"
                        % (text(), i, g, e[1]), ex)
    # ---- return value
    cont, eret = expected_return(ret, label_units)
    if cont is None:
        pairs = [(result, eret[0])]
    else:
        if type(result) is not (tuple if cont == "tuple" else list) or len(result) != len(eret):
            col.add("wraps:return-container:%s:ret%d" % (ident, ret_i), "%s: returned %r" % (text(), result), ex)
            return True
        pairs = list(zip(result, eret))
    for j, (r, e) in enumerate(pairs):
        if e[0] == "same":
            src = returned if cont is None else returned[j]
            if r is not src:
                col.add("wraps:return:%s:ret%d.%d" % (ident, ret_i, j), "%s: element %d of the result is %r, expected "
                        "the returned object %r untouched" % (text(), j, r, src), ex)
        else:
            ok = isinstance(r, reg.Quantity) and not isinstance(r.magnitude, float) and r.magnitude == e[1] \
                and dict(r._units) == e[2]
            if not ok:
                col.add("wraps:return:%s:ret%d.%d" % (ident, ret_i, j), "%s: element %d of the result is %r, expected "
                        "Quantity(%s, %s)" % (text(), j, r, e[1], e[2]), ex)
    return True


# =============================================================================== check(): case construction
CHECK_LETTERS = ("N", "L", "T", "V")
CHECK_SPEC = {"N": None, "L": "[length]", "T": "[time]", "V": "[length]/[time]"}
CHECK_DIM = {"L": {"L": 1}, "T": {"T": 1}, "V": {"L": 1, "T": -1}}
CHECK_GOOD = {"L": ((("inch", 1),), (("kilometer", 1),), (("centimeter", 3), ("foot", -2))),
              "T": ((("hour", 1),), (("millisecond", 1),), (("minute", 2), ("second", -1))),
              "V": ((("kilometer", 1), ("hour", -1)), (("inch", 1), ("millisecond", -1)), (("foot", 2), ("meter", -1), ("minute", -1)))}
CHECK_BAD = ((("gram", 1),), (("meter", 2),), (("second", -1),), (("percent", 1),), ())


def check_case(desc, col):
    """desc = (sig, deliv, specs, kinds, var): kinds per position: g good, x other dimensionality, b bare number"""
    sig, deliv, specs, kinds, var = desc
    R = regs()
    reg = R["U"]
    n = len(sig)
    vals = []
    expect_raise = False
    for i, (sp, k) in enumerate(zip(specs, kinds)):
        m = MAGS[(var + i) % len(MAGS)]
        if k == "b":
            vals.append(("b", m))
            expect_raise |= sp != "N"
        elif k == "x":
            units = CHECK_BAD[(var + i) % len(CHECK_BAD)]
            if sp != "N" and dim_of(units) == CHECK_DIM[sp]:
                units = (("gram", 1),)
            vals.append(("q", m, units))
            expect_raise |= sp != "N"
        else:
            units = CHECK_GOOD[sp][(var + i) % 3] if sp != "N" else (("pound", 1),)
            vals.append(("q", m, units))
    objs = [mkq(reg, v[1], v[2]) if v[0] == "q" else v[1] for v in vals]
    sentinel = mkq(reg, 12345, (("candela", 1),))
    f = function_for(sig)
    set_defaults(f, sig, [objs[i] if deliv[i] == "O" else sentinel for i in range(n)])
    pos = [objs[i] for i in range(n) if deliv[i] == "P"]
    kw = {"p%d" % i: objs[i] for i in range(n) if deliv[i] == "K"}
    _RET[0] = returned = object()
    ex = {"kind": "check", "desc": [list(sig), list(deliv), list(specs), list(kinds), var]}
    fault = next(((i, k) for i, k in enumerate(kinds) if k != "g"), None)
    ident = "%s|%s" % (",".join(specs), "base" if fault is None else "%s@%d" % (fault[1], fault[0]))
    text = "check(%s) on f(%s) called with pos=%s kw=%s%s" % (
        ", ".join(repr(CHECK_SPEC[s]) for s in specs), ",".join(sig),
        [val_text(vals[i]) for i in range(n) if deliv[i] == "P"],
        {"p%d" % i: val_text(vals[i]) for i in range(n) if deliv[i] == "K"},
        "".join(" default p%d=%s" % (i, val_text(vals[i])) for i in range(n) if deliv[i] == "O"))
    del _REC[:]
    try:
        wrapped = reg.check(*(CHECK_SPEC[s] for s in specs))(f)
    except Exception as e:  # noqa: BLE001
        col.add("check:decoration-raised:%s" % ",".join(specs), "%s: decoration raised %s: %s"
                % (text, type(e).__name__, _exc_text(e)), ex)
        return True
    try:
        result = wrapped(*pos, **kw)
        raised = None
    except Exception as e:  # noqa: BLE001
        raised = e
    if expect_raise:
        if raised is None:
            col.add("check:accepted:%s" % ident, "%s: expected DimensionalityError, the call succeeded" % text, ex)
        elif type(raised).__name__ != "DimensionalityError":
            col.add("check:wrong-exception:%s:%s" % (type(raised).__name__, ident), "%s: expected DimensionalityError, "
                    "got %s: %s" % (text, type(raised).__name__, _exc_text(raised)), ex)
        elif _REC:
            col.add("check:called-before-refusal:%s" % ident, "%s: function was called" % text, ex)
        return True
    if raised is not None:
        col.add("check:raised:%s:%s" % (type(raised).__name__, ident), "%s: raised %s: %s"
                % (text, type(raised).__name__, _exc_text(raised)), ex)
        return True
    if len(_REC) != 1 or any(g is not o for g, o in zip(_REC[0], objs)) or result is not returned:
        col.add("check:not-transparent:%s" % ident, "%s: function received %r, result %r" % (text, _REC, result), ex)
    return True


# =============================================================================== decoration-time clauses
def decoration_cases(col):
    """count mismatch -> TypeError at decoration; undefined labels; returns number of evaluations"""
    R = regs()
    reg = R["U"]
    evals = 0
    fill = ("meter", None, "=A", reg.second, "=A**2")
    dims = ("[length]", None, "[time]", "[length]/[time]", "[mass]")
    for n in range(1, 5):
        for sig in signatures(n):
            f = function_for(sig)
            set_defaults(f, sig, [1] * n)
            for k in range(0, 6):
                specs = fill[:k]
                ex = {"kind": "count", "sig": list(sig), "k": k}
                for deco, label, args in (("wraps", "wraps", (None, specs)), ("wraps", "wraps-bare", (None, specs[0] if k == 1 else specs)),
                                          ("check", "check", dims[:k])):
                    evals += 1
                    try:
                        if deco == "wraps":
                            reg.wraps(*args)(f)
                        else:
                            reg.check(*args)(f)
                        raised = None
                    except Exception as e:  # noqa: BLE001
                        raised = e
                    if k != n and not isinstance(raised, TypeError):
                        col.add("%s:count-mismatch-accepted:%s:%d" % (label, ",".join(sig), k),
                                "%s with %d specs on f(%s): expected TypeError at decoration, got %r"
                                % (deco, k, ",".join(sig), raised), ex)
                    if k == n and raised is not None:
                        col.add("%s:count-match-refused:%s:%d" % (label, ",".join(sig), k),
                                "%s with %d specs on f(%s): raised %r" % (deco, k, ",".join(sig), raised), ex)
    # undefined labels: a fixed list of arg / ret specs that reference a label no argument defines
    undefined = [(None, sp) for sp in itertools.product(LETTERS, repeat=1) if not classify(sp)[2]]
    undefined += [(None, ("A", "AB")), (None, ("AoB", "B")), (None, ("m", "A2")), (None, ("A2", "N")), (None, ("B", "A2")),
                  ("=A*B", ("A", "N")), ("=A", ("m", "N")), ("=B", ("A", "A")), (("=A", "=B"), ("A", "m"))]
    for ret, specs in undefined:
        evals += 1
        n = len(specs)
        f = function_for(("p",) * n)
        set_defaults(f, ("p",) * n, [None] * n)
        a = tuple(render_spec(reg, sp, 2) for sp in specs)
        ex = {"kind": "undefined-label", "ret": ret, "specs": list(specs)}
        try:
            reg.wraps(ret, a)(f)
            raised = None
        except Exception as e:  # noqa: BLE001
            raised = e
        if not isinstance(raised, ValueError):
            col.add("dead-missing-token-check:ret=%s,args=(%s)" % (ret, ",".join(specs)),
                    "wraps(%r, (%s)) references a label that no argument defines: expected ValueError at decoration "
                    "('Found a missing token ...'), got %r (the call then fails with KeyError)"
                    % (ret, ", ".join(map(spec_text, a)), raised), ex)
    return evals


def frac_float_cases(col):
    """string plain specs in a Fraction registry: deterministic sub-check in a registry of its own"""
    pint = regs()["pint"]
    reg = pint.UnitRegistry(non_int_type=Fraction)
    evals = 0
    for spec, decl in (("meter", (("meter", 1),)), ("cm", (("centimeter", 1),)), ("meter/second", PLAIN_DECL["v"])):
        for src in ((("inch", 1),), (("foot", 1),), (("kilometer", 1),)):
            for mag in (1, F(1), F(7, 3)):
                if len(decl) == 2:
                    src_units = src + (("hour", -1),)
                else:
                    src_units = src
                evals += 1
                f = function_for(("p",))
                set_defaults(f, ("p",), [None])
                del _REC[:]
                reg.wraps(None, spec)(f)(mkq(reg, mag, src_units, True))
                got = _REC[0][0]
                want = convert(mag, src_units, decl)
                if isinstance(got, float) or got != want:
                    col.add("frac-registry-float:%s:%s:%s" % (spec, src[0][0], type(mag).__name__),
                            "non_int_type=Fraction registry: wraps(None, %r)(f)(Q(%r, %r)) handed over %r, expected "
                            "exactly %s" % (spec, mag, units_str(src_units), got, want),
                            {"kind": "frac-float", "spec": spec, "decl": [list(u) for u in decl],
                             "src": [list(u) for u in src_units], "mag": [mag.numerator, mag.denominator, type(mag).__name__]})
    return evals


# =============================================================================== with_context
def context_cases(col):
    R = regs()
    reg = R["U"]
    pint = R["pint"]
    evals = 0

    def probe(k):
        """-> seconds obtained for 6 m when [length]->[time] is available, else None"""
        try:
            return mkq(reg, 6, (("meter", 1),)).to("second").magnitude
        except pint.DimensionalityError:
            return None

    def probe_other():
        try:
            return mkq(reg, 4, (("gram", 1),)).to("second").magnitude
        except pint.DimensionalityError:
            return None

    for n in range(1, 4):
        for sig in signatures(n):
            for deliv in deliveries(sig):
                for kwargs, inside_expected in (({}, F(2)), ({"k": 2}, F(3))):
                    for mode in ("plain", "raises", "nested-outer", "nested-self"):
                        evals += 1
                        ex = {"kind": "context", "sig": list(sig), "deliv": list(deliv), "kw": kwargs, "mode": mode}
                        ident = "%s|%s|%s|%s" % (",".join(sig), "".join(deliv), sorted(kwargs.items()), mode)
                        seen = []
                        objs = [mkq(reg, MAGS[i], (("pound", 1),)) if i % 2 else MAGS[i] for i in range(n)]
                        sentinel = object()
                        returned = object()

                        class Boom(Exception):
                            pass

                        names = ["p%d" % i for i in range(n)]
                        parts = []
                        for i, kd in enumerate(sig):
                            if kd in ("k", "kd") and (i == 0 or sig[i - 1] not in ("k", "kd")):
                                parts.append("*")
                            parts.append(names[i] + ("=None" if kd in ("d", "kd") else ""))
                            if kd == "o" and (i + 1 == n or sig[i + 1] != "o"):
                                parts.append("/")
                        ns = {"_hook": None}
                        exec("def g(%s):\n    return _hook((%s,))\n" % (", ".join(parts), ", ".join(names)), ns)  # noqa: S102
                        g = ns["g"]

                        def hook(args, mode=mode):
                            seen.append((args, probe(None), probe_other()))
                            if mode == "raises":
                                raise Boom()
                            return returned

                        ns["_hook"] = hook
                        set_defaults(g, sig, [objs[i] if deliv[i] == "O" else sentinel for i in range(n)])
                        wrapped = reg.with_context("c17ctx", **kwargs)(g)
                        pos = [objs[i] for i in range(n) if deliv[i] == "P"]
                        kw = {"p%d" % i: objs[i] for i in range(n) if deliv[i] == "K"}
                        problems = []
                        before = probe(None)
                        result = None
                        try:
                            if mode == "nested-outer":
                                with reg.context("c17other"):
                                    result = wrapped(*pos, **kw)
                                    after_inner = (probe(None), probe_other())
                                if after_inner != (None, F(4)):
                                    problems.append("after the call inside `with context('c17other')`: probes %r, "
                                                    "expected (None, 4)" % (after_inner,))
                            elif mode == "nested-self":
                                with reg.context("c17ctx", k=6):
                                    result = wrapped(*pos, **kw)
                                    after_inner = probe(None)
                                if after_inner != F(1):
                                    problems.append("after the call inside `with context('c17ctx', k=6)`: probe %r, "
                                                    "expected 1" % (after_inner,))
                            else:
                                result = wrapped(*pos, **kw)
                            if mode == "raises":
                                problems.append("exception of the function swallowed")
                        except Boom:
                            if mode != "raises":
                                raise
                        after = (probe(None), probe_other())
                        if before is not None or after != (None, None):
                            problems.append("context active outside the call: before %r, after %r" % (before, after))
                        if len(seen) != 1:
                            problems.append("function called %d times" % len(seen))
                        else:
                            args, inside, inside_other = seen[0]
                            # k=6 of an enclosing activation is inherited when the decorator gives no k (documented)
                            want = F(1) if mode == "nested-self" and not kwargs else inside_expected
                            if inside != want:
                                problems.append("inside the call the probe conversion gave %r, expected %s"
                                                % (inside, want))
                            if inside_other != (F(4) if mode == "nested-outer" else None):
                                problems.append("inside the call the other context's probe gave %r" % (inside_other,))
                            if any(a is not o for a, o in zip(args, objs)):
                                problems.append("arguments not passed through: %r" % (args,))
                        if mode != "raises" and result is not returned:
                            problems.append("result not passed through: %r" % (result,))
                        for p in problems:
                            col.add("with_context:%s" % ident, p, ex)
    return evals


# =============================================================================== enumeration
def valid_spec_tuples(n):
    return [sp for sp in itertools.product(LETTERS, repeat=n) if classify(sp)[2]]


def renders_for(specs, parity):
    """string rendering (long names / symbols alternate with `parity`) and Unit-object rendering"""
    return (parity % 2, 2) if any(sp in PLAIN_DECL for sp in specs) else (2,)


_SD = {}
_SPECS = {}


def tables():
    if not _SD:
        for n in range(1, 5):
            _SD[n] = [(sig, d) for sig in signatures(n) for d in deliveries(sig)]
            _SPECS[n] = valid_spec_tuples(n)
    return _SD, _SPECS


_M64 = (1 << 64) - 1


def mix(*ints):
    """deterministic 64-bit mixing of a few ints (the cycled choices must not be periodic in the enumeration index:
    for a fixed spec tuple the pair index advances by the number of spec tuples, an even number)"""
    h = 0x9E3779B97F4A7C15
    for x in ints:
        h = ((h ^ (x & _M64)) * 0xBF58476D1CE4E5B9) & _M64
        h ^= h >> 29
        h = (h * 0x94D049BB133111EB) & _M64
        h ^= h >> 32
    return h


def wraps_block(n, lo, hi, mode, stride, seed):
    """all (signature, delivery) pairs lo..hi of arity n x all valid spec tuples; mode 'full', 'cycled' (every
    rendering, base + 2 drawn faults) or 'cycled1' (one drawn rendering and one case: the base scenario or a drawn fault);
    stride k keeps a pseudo-random k-th of the (pair, spec tuple) combinations (function of the seed)"""
    SD, SPECS = tables()
    col = Collector()
    evals = nontrivial = 0
    counter = 0
    for sdi in range(lo, hi):
        sig, deliv = SD[n][sdi]
        for spi, specs in enumerate(SPECS[n]):
            pair = sdi * len(SPECS[n]) + spi
            if stride > 1 and mix(seed, 1, n, pair) % stride:
                continue
            roles, defined, _ = classify(specs)
            faults = fault_list(specs, roles)
            base = ("c",) * n
            rets = ret_options(specs, defined)
            renders = renders_for(specs, pair)
            if mode == "cycled1":
                renders = (renders[mix(seed, 2, n, pair) % len(renders)],)
            for render in renders:
                if mode == "full":
                    for strict in (True, False):
                        for ret_i in rets:
                            counter += 1
                            wraps_case((sig, deliv, specs, render, strict, ret_i, base, pair + counter), col)
                            evals += 1
                            nontrivial += 1
                        for pos, kind in faults:
                            counter += 1
                            kinds = base[:pos] + (kind,) + base[pos + 1:]
                            r_ok = ret_options(specs, defined, [specs[pos]] if kind == "o" else ())
                            wraps_case((sig, deliv, specs, render, strict, r_ok[counter % len(r_ok)], kinds,
                                        pair + counter), col)
                            evals += 1
                            nontrivial += 1
                else:
                    h = mix(seed, 3, n, pair, render)
                    strict = bool(h & 1)
                    nf = len(faults)
                    first = (h >> 24) % nf
                    picks = [first]
                    if mode == "cycled" and nf > 1:
                        picks.append((first + 1 + (h >> 36) % (nf - 1)) % nf)
                    if mode == "cycled" or (h >> 48) & 1:
                        wraps_case((sig, deliv, specs, render, strict, rets[(h >> 1) % len(rets)], base,
                                    (h >> 12) % 1000), col)
                        evals += 1
                        nontrivial += 1
                        if mode != "cycled":
                            picks = []
                    for j, fi in enumerate(picks):
                        pos, kind = faults[fi]
                        kinds = base[:pos] + (kind,) + base[pos + 1:]
                        r_ok = ret_options(specs, defined, [specs[pos]] if kind == "o" else ())
                        hj = mix(h, j)
                        wraps_case((sig, deliv, specs, render, (j == 0) if mode == "cycled" else (not strict),
                                    r_ok[hj % len(r_ok)], kinds, (hj >> 12) % 1000), col)
                        evals += 1
                        nontrivial += 1
    return evals, nontrivial, col.entries


def check_block(n, lo, hi, mode, stride, seed):
    """mode 'full': all good + every single fault; 'cycled': all good + 2 drawn single faults"""
    SD, _ = tables()
    col = Collector()
    evals = nontrivial = 0
    counter = 0
    nspec = len(CHECK_LETTERS) ** n
    for sdi in range(lo, hi):
        sig, deliv = SD[n][sdi]
        for spi, specs in enumerate(itertools.product(CHECK_LETTERS, repeat=n)):
            pair = sdi * nspec + spi
            if stride > 1 and mix(seed, 4, n, pair) % stride:
                continue
            faults = [("g",) * i + (k,) + ("g",) * (n - i - 1) for i in range(n) for k in ("x", "b")]
            if mode != "full":
                h = mix(seed, 5, n, pair)
                first = h % len(faults)
                faults = [faults[first], faults[(first + 1 + (h >> 16) % (len(faults) - 1)) % len(faults)]]
            for kinds in [("g",) * n] + faults:
                counter += 1
                check_case((sig, deliv, specs, kinds, pair + counter), col)
                evals += 1
                nontrivial += any(s != "N" for s in specs)
    return evals, nontrivial, col.entries


def _worker(task):
    kind = task[0]
    if kind == "wraps":
        return wraps_block(*task[1:])
    if kind == "check":
        return check_block(*task[1:])
    col = Collector()
    if kind == "decoration":
        e = decoration_cases(col)
    elif kind == "context":
        e = context_cases(col)
    else:
        e = frac_float_cases(col)
    return e, e, col.entries


def run(tier: str = "quick", seed: int = 0, **kw) -> dict:
    t0 = time.time()
    cpu0 = _cpu_total()
    workers = int(kw.get("workers", NWORKERS))
    rng = random.Random(seed)
    quick = tier == "quick"
    regs()
    SD, SPECS = tables()
    plan = {1: ("full", 1), 2: ("full", 1), 3: ("cycled", 1) if quick else ("full", 1),
            4: ("cycled1", 16) if quick else ("cycled1", 1)}
    plan.update(kw.get("plan", {}))
    cplan = {1: ("full", 1), 2: ("full", 1), 3: ("full", 1), 4: ("cycled", 12) if quick else ("cycled", 1)}
    cplan.update(kw.get("check_plan", {}))
    tasks = []
    sub_seed = rng.getrandbits(48)
    for n in range(1, 5):
        mode, stride = plan[n]
        step = max(1, len(SD[n]) // 96)
        for lo in range(0, len(SD[n]), step):
            tasks.append(("wraps", n, lo, min(len(SD[n]), lo + step), mode, stride, sub_seed))
    for n in range(1, 5):
        mode, stride = cplan[n]
        step = max(1, len(SD[n]) // 32)
        for lo in range(0, len(SD[n]), step):
            tasks.append(("check", n, lo, min(len(SD[n]), lo + step), mode, stride, sub_seed))
    tasks += [("decoration",), ("context",), ("fracfloat",)]
    tasks.sort(key=lambda t: -(t[1] if len(t) > 1 else 0))
    if workers > 1:
        with mp.get_context("fork").Pool(workers) as pool:
            results = pool.map(_worker, tasks, chunksize=1)
    else:
        results = [_worker(t) for t in tasks]
    col = Collector()
    evals = nontrivial = 0
    by_part = {}
    for t, (e, nt, entries) in zip(tasks, results):
        evals += e
        nontrivial += nt
        key = t[0] if t[0] not in ("wraps", "check") else "%s-%d" % (t[0], t[1])
        by_part[key] = by_part.get(key, 0) + e
        col.merge(entries)
    entries = sorted(col.entries.values(), key=lambda e: e["case"])
    buckets = {}
    for e in entries:
        parts = e["case"].split(":")
        buckets.setdefault(":".join(parts[:2]) if parts[0] in ("wraps", "check") else parts[0], []).append(e)
    chosen, i = [], 0
    while len(chosen) < 25 and any(i < len(b) for b in buckets.values()):
        for k in sorted(buckets):
            if i < len(buckets[k]) and len(chosen) < 25:
                chosen.append(buckets[k][i])
        i += 1
    chosen.sort(key=lambda e: e["case"])
    nsig = {n: len(signatures(n)) for n in range(1, 5)}
    bound = (
        "functions with 1-4 parameters of kinds o/p/d/k/kd: %s signatures, %s (signature, delivery) pairs for n=1..4; "
        "wraps spec tuples over the 9 letters N,m,s,v,=A,=B,=A**2,=A*B,=A/B: %s valid tuples (n=1..4), plain specs "
        "rendered as long string / symbol string / Unit object; ret from a catalogue of %d specs; strict in {True, False}; "
        "scenarios: base (all arguments compatible, other units) + single faults (same unit, incompatible, bare number, "
        "zero magnitude, offset unit at a label). n=1,2%s: every pair x spec tuple x rendering x strict x (every ret on "
        "the base scenario + every single fault with a cycled ret); %s: every pair x spec tuple with the base scenario "
        "(strict drawn from a hash of seed and index) and drawn single faults (n=3: every rendering, 2 faults, one strict "
        "and one not; n=4: one drawn rendering and one case, the base scenario or one drawn fault)%s. check: "
        "every pair x {None,[length],[time],[length]/[time]}^n x (all good + every single wrong-dimension / "
        "bare-number fault)%s. Decoration: every signature "
        "x 0..5 specs for wraps (tuple and bare form) and check; %d spec tuples with undefined labels. with_context: "
        "every pair with n<=3 x {defaults, k=2} x {plain, raising, nested in another context, nested in itself}. "
        "27 conversions (3 string specs x 3 source units x int / Fraction magnitudes) for the Fraction-registry float "
        "sub-check."
        % ([nsig[n] for n in range(1, 5)], [len(SD[n]) for n in range(1, 5)], [len(SPECS[n]) for n in range(1, 5)],
           len(RET_CATALOGUE), "" if quick else ",3", "n=3,4" if quick else "n=4",
           " (n=4: a pseudo-random %dth of the (pair, spec tuple) combinations, drawn from the seed)" % plan[4][1]
           if plan[4][1] > 1 else "",
           " (n=4: %s (pair, spec tuple) with all good + 2 drawn faults)"
           % ("a pseudo-random %dth of the" % cplan[4][1] if cplan[4][1] > 1 else "every") if cplan[4][0] != "full"
           else "", 12))
    samples = []
    for desc in ((("p", "d"), ("P", "O"), ("m", "v"), 0, True, 1, ("c", "c"), 3),
                 (("p", "p", "kd"), ("P", "K", "O"), ("A", "AB", "B"), 2, True, 5, ("c", "c", "c"), 7),
                 (("o", "p", "d", "k"), ("P", "P", "K", "K"), ("N", "A", "m", "A2"), 2, False, 11, ("c", "c", "b", "c"), 11)):
        c = Collector()
        wraps_case(desc, c)
        sig, deliv, specs, render, strict, ret_i, kinds, var = desc
        roles, _, _ = classify(specs)
        vals, _, _ = build_values(specs, roles, kinds, var)
        o = oracle(specs, roles, vals, strict)
        samples.append({"signature": list(sig), "delivery": list(deliv), "specs": list(specs), "strict": strict,
                        "ret": list(RET_CATALOGUE[ret_i][1]), "values": [val_text(v) for v in vals],
                        "oracle": str(o[1] if o[0] == "raise" else [("same object" if e[0] == "same" else str(e[1])) for e in o[1]]),
                        "agrees": not c.entries})
    return {
        "name": NAME,
        "tier": tier,
        "seed": seed,
        "bound": bound,
        "evaluations": evals,
        "evaluations_by_part": by_part,
        "distinct_nontrivial": nontrivial,
        "rule": "itertools enumeration of signatures x deliveries x spec tuples; every decorated call is counted; "
                "non-trivial: every wraps case (each has at least one converted, bound or passed-through argument and a "
                "checked return), check cases with at least one non-None dimension, all decoration / context cases",
        "exhaustive": not quick,
        "exhaustive_scope": "the product signature x delivery x spec tuple x rendering is complete in the thorough tier; "
                            "units, magnitudes and (for n=4) the fault / ret / strict choice are cycled, as stated in `bound`",
        "violations": chosen,
        "violation_count": len(entries),
        "violating_evaluations": sum(e["instances"] for e in entries),
        "violation_classes": {k: len(b) for k, b in sorted(buckets.items())},
        "violation_class_instances": {k: sum(e["instances"] for e in b) for k, b in sorted(buckets.items())},
        "observations": ["calling a wrapped/checked function without a required argument raises KeyError('<name>') "
                         "instead of TypeError (not a clause of C17; not counted)"],
        "samples": samples,
        "seconds": round(time.time() - t0, 1),
        "cpu_seconds": round(_cpu_total() - cpu0, 1),
    }


def replay(data: dict) -> bool:
    regs()
    ok = True
    for ex in data.get("examples", []):
        col = Collector()
        kind = ex["kind"]
        if kind == "wraps":
            sig, deliv, specs, render, strict, ret_i, kinds, var = ex["desc"]
            wraps_case((tuple(sig), tuple(deliv), tuple(specs), render, bool(strict), ret_i, tuple(kinds), var), col)
        elif kind == "check":
            sig, deliv, specs, kinds, var = ex["desc"]
            check_case((tuple(sig), tuple(deliv), tuple(specs), tuple(kinds), var), col)
        elif kind in ("count", "undefined-label"):
            decoration_cases(col)
            col.entries = {k: v for k, v in col.entries.items() if k == data["case"]}
        elif kind == "context":
            context_cases(col)
            col.entries = {k: v for k, v in col.entries.items() if k == data["case"]}
        elif kind == "frac-float":
            frac_float_cases(col)
            col.entries = {k: v for k, v in col.entries.items() if k == data["case"]}
        else:
            raise ValueError("unknown example kind %r" % kind)
        ok = ok and not col.entries
    return ok


if __name__ == "__main__":
    import argparse

    ap = argparse.ArgumentParser()
    ap.add_argument("--tier", default="quick")
    ap.add_argument("--seed", type=int, default=0)
    ap.add_argument("--workers", type=int, default=NWORKERS)
    a = ap.parse_args()
    print(json.dumps(run(a.tier, a.seed, workers=a.workers), indent=1, default=str))
