#!/usr/bin/env bash
# Offline setup of the verification environment (MANIFEST.setup_cmd).
# Builds /verif/.venv (python 3.12 from /venv + z3-solver, cvc5, jsonschema from the
# offline wheelhouse, with a .pth to /venv's site-packages so that pint and its
# dependencies import), then checks the Lean theory (theory/PintTheory.lean) once.
set -euo pipefail
cd "$(dirname "$0")"
export PIP_NO_INDEX=1
VENV=.venv
if [ ! -x "$VENV/bin/python" ] || ! "$VENV/bin/python" -c 'import z3, cvc5, jsonschema' 2>/dev/null; then
  rm -rf "$VENV"
  /venv/bin/python -m venv "$VENV"
  "$VENV/bin/pip" install -q --no-index --find-links /opt/veriftools/wheels z3-solver cvc5 jsonschema
  SP=$("$VENV/bin/python" -c 'import sysconfig; print(sysconfig.get_paths()["purelib"])')
  echo "import site; site.addsitedir('/venv/lib/python3.12/site-packages')" > "$SP/_venv.pth"
fi
"$VENV/bin/python" -c 'import z3, cvc5, jsonschema, pint, numpy; print("venv ok: z3", z3.get_version_string())'
mkdir -p evidence replays
# Lean theory: generated from theory/axioms.json; proofs checked here.
if [ -f pv/theory_gen.py ]; then
  "$VENV/bin/python" -m pv.theory_gen --check
fi
echo "setup done"
