"""Calls: builtins, container methods, constructors, and modular calls through contracts."""
from __future__ import annotations

import ast

import z3

from . import decl, heapops, ops, source, spec
from .core import (esort, epack, eunpack, BOOL, FN, INT, NONE, NONEV, NUM, NUMTYPE, OTHER, STR, TYPEOBJ, ExcVal, FuncVal, StaleContract, State,
                   TBool, TDict, TInt, TList, TMap, TNone, TNum, TOpaque, TOpt, TRef, TRefLike, TSeq, TSet, TSetV,
                   TStr, TTuple, TUnion, Unsupported, Val, boolv, coerce, compatible, fresh_name, is_numeric, num,
                   parse_type, strv, to_real, val_eq, val_ite)
from .exec import Outcome, PyObj, SuperVal, ViewVal, _short, exc_subclass

NumOfStr = z3.Function("NumOfStr", z3.StringSort(), z3.IntSort(), z3.RealSort())
IntOfStr = z3.Function("IntOfStr", z3.StringSort(), z3.IntSort())
IntStrOK = z3.Function("IntStrOK", z3.StringSort(), z3.BoolSort())
NumStrOK = z3.Function("NumStrOK", z3.StringSort(), z3.BoolSort())
HashNum = z3.Function("HashNum", z3.RealSort(), z3.IntSort())
HashCls = z3.Function("HashCls", z3.IntSort(), z3.IntSort())


def ev_args(ex, node, st):
    """yield (st, args list, kwargs dict)"""

    def rec(i, st, acc):
        if i == len(node.args):
            yield from rec_kw(0, st, acc, {})
            return
        a = node.args[i]
        if isinstance(a, ast.Starred):
            for st1, v in ex.ev(a.value, st):
                if isinstance(v, Val) and isinstance(v.t, TTuple):
                    yield from rec(i + 1, st1, acc + list(v.v))
                else:
                    yield from rec(i + 1, st1, acc + [("*", v)])
            return
        for st1, v in ex.ev(a, st):
            yield from rec(i + 1, st1, acc + [v])

    def rec_kw(j, st, acc, kw):
        if j == len(node.keywords):
            yield st, acc, kw
            return
        k = node.keywords[j]
        for st1, v in ex.ev(k.value, st):
            if k.arg is None:
                yield from rec_kw(j + 1, st1, acc, dict(kw, **{"**": v}))
            else:
                yield from rec_kw(j + 1, st1, acc, dict(kw, **{k.arg: v}))

    yield from rec(0, st, [])


def ev_call(ex, node, st):
    f = node.func
    # ---- syntactic special forms
    if isinstance(f, ast.Name) and f.id not in st.env:
        if f.id == "isinstance" and len(node.args) == 2:
            yield from ev_isinstance(ex, node, st)
            return
        if f.id == "super" and not node.args:
            yield st, SuperVal(ex.owner_cls, st.env["self"])
            return
        if f.id in ("any", "all") and len(node.args) == 1 and isinstance(node.args[0], ast.GeneratorExp):
            yield from ev_anyall(ex, f.id, node.args[0], st)
            return
        if f.id == "check" and len(node.args) == 2 and isinstance(node.args[0], ast.Constant):
            # ghost assertion in lemma code: check("label", "spec expression")
            g = spec.sv_bool(ex.subst(node.args[1].value), ex.scope(st))
            ex.oblige(st, node.args[0].value, g)
            st.assume(g)
            yield st, NONEV
            return
        if f.id == "assume_spec" and len(node.args) == 1:
            raise Unsupported("assume is not allowed")
        if f.id == "partial":
            raise Unsupported("functools.partial")
    for st1, fv in ex.ev(f, st):
        for st2, args, kwargs in ev_args(ex, node, st1):
            yield from apply(ex, fv, args, kwargs, st2, node)


def apply(ex, fv, args, kwargs, st, node):
    if isinstance(fv, FuncVal):
        k = fv.kind
        if k == "builtin":
            yield from builtin_call(ex, fv.name, args, kwargs, st, node)
        elif k == "method":
            yield from call_contract(ex, fv.extra, [fv.recv] + args, kwargs, st, node)
        elif k == "unbound":
            key = ex.find_method(fv.extra, fv.name)
            if key is None:
                raise Unsupported(f"{fv.extra}.{fv.name}: no contract")
            yield from call_contract(ex, key, args, kwargs, st, node)
        elif k == "supermethod":
            key = ex.find_method(fv.recv.t.cls if False else fv.extra, fv.name, after=fv.extra)
            if key is None:
                if fv.name == "__init__":
                    yield st, NONEV
                    return
                raise Unsupported(f"super().{fv.name}: no contract")
            yield from call_contract(ex, key, [fv.recv] + args, kwargs, st, node)
        elif k == "cmethod":
            yield from container_method(ex, fv.recv, fv.name, args, kwargs, st, node)
        elif k == "class":
            yield from construct(ex, fv.name, None, args, kwargs, st, node)
        elif k == "dynclass":
            yield from construct(ex, fv.name, heapops.class_of(st.heap, fv.recv.v), args, kwargs, st, node)
        elif k == "excclass":
            yield st, ExcVal(fv.name, args, node)
        elif k == "func":
            yield from call_contract(ex, fv.extra if fv.extra else fv.name, args, kwargs, st, node)
        elif k == "builtin_unbound":
            yield from builtin_unbound(ex, fv.name, args, kwargs, st, node)
        elif k == "closure":
            fdef, _env = fv.extra
            names = [a.arg for a in fdef.args.args]
            if len(names) != len(args) or kwargs or fdef.args.vararg or fdef.args.kwarg:
                raise Unsupported("closure call shape")
            outer = st.env
            nonlocals = {n for s_ in ast.walk(fdef) if isinstance(s_, ast.Nonlocal) for n in s_.names}
            st.env = dict(outer)
            st.env.update(zip(names, args))
            ex.sinks.append([])
            outs = list(ex.run_block(fdef.body, st))
            outs += ex.sinks.pop()
            for o in outs:
                inner_env = o.st.env
                for n in nonlocals:
                    if n in inner_env and n in outer and inner_env[n] is not outer[n]:
                        raise Unsupported(f"closure assigns nonlocal {n}")
                o.st.env = dict(outer)
                if o.kind == "return":
                    yield o.st, o.val
                elif o.kind == "normal":
                    yield o.st, NONEV
                elif o.kind == "raise":
                    ex.sink_raise(o.st, o.val, o.node)
                else:
                    raise Unsupported("break/continue escaping a closure")
        elif k == "lambda":
            lam, env = fv.extra
            names = [a.arg for a in lam.args.args]
            if len(names) != len(args) or kwargs:
                raise Unsupported("lambda call arity")
            saved = st.env
            st.env = dict(env)
            st.env.update(zip(names, args))
            for st1, v in ex.ev(lam.body, st):
                st1.env = saved
                yield st1, v
        else:
            raise Unsupported(f"call of {fv}")
        return
    if isinstance(fv, Val) and isinstance(fv.t, TOpaque) and fv.t.tag in OP_TAGS:
        if len(args) != 2 or kwargs:
            raise Unsupported("operator call arity")
        yield from ex.compare1(OP_TAGS[fv.t.tag](), args[0], args[1], st, node) if False else _op_call(ex, fv.t.tag, args, st, node)
        return
    if isinstance(fv, Val) and fv.t == NUMTYPE:
        if len(args) != 1:
            raise Unsupported("numeric type call arity")
        a = args[0]
        if isinstance(a, ViewVal) and a.kind == "numstr":
            yield st, Val(NUM, to_real(a.base))  # A1: T(str(x)) denotes the same number
            return
        if is_numeric(a):
            yield st, Val(NUM, to_real(a))  # A1: conversion between numeric types keeps the value
            return
        if isinstance(a.t, TStr):
            tv = z3.simplify(fv.v)
            if z3.is_int_value(tv) and tv.as_long() in (ops.NUMTYPE_IDS["int"], ops.NUMTYPE_IDS["float"]):
                yield from builtin_call(ex, "int" if tv.as_long() == ops.NUMTYPE_IDS["int"] else "float", [a], {}, st, node)
                return
            yield st, Val(NUM, NumOfStr(a.v, fv.v))
            return
        raise Unsupported(f"numeric type applied to {a.t}")
    if isinstance(fv, PyObj):
        yield from pyobj_call(ex, fv, args, kwargs, st, node)
        return
    raise Unsupported(f"call of {fv} (line {node.lineno})")


OP_TAGS = {"OpLt": ast.Lt, "OpLe": ast.LtE, "OpGt": ast.Gt, "OpGe": ast.GtE, "OpEq": ast.Eq, "OpNe": ast.NotEq,
           "OpAdd": ast.Add, "OpSub": ast.Sub, "OpMul": ast.Mult, "OpDiv": ast.Div}
ARITH_TAGS = {"OpAdd": "add", "OpSub": "sub", "OpMul": "mul", "OpDiv": "truediv"}  # the operator module function a parameter of that contract type stands for


def _op_call(ex, tag, args, st, node):
    """call of a parameter that is one of operator.lt/le/gt/ge/eq/ne/add/sub (contract type OpLt, ..., OpAdd, OpSub)"""
    if tag in ARITH_TAGS:
        yield from ex.binop(OP_TAGS[tag](), args[0], args[1], st, node)
        return
    for st1, c in ex.compare1(OP_TAGS[tag](), args[0], args[1], st, node):
        yield st1, boolv(c)


def pyobj_call(ex, fv, args, kwargs, st, node):
    import operator

    table = {operator.iadd: ast.Add(), operator.isub: ast.Sub(), operator.add: ast.Add(), operator.sub: ast.Sub(),
             operator.mul: ast.Mult(), operator.truediv: ast.Div(), operator.pow: ast.Pow(),
             operator.floordiv: ast.FloorDiv(), operator.mod: ast.Mod()}
    if fv.obj in table:
        yield from ex.binop(table[fv.obj], args[0], args[1], st, node)
        return
    raise Unsupported(f"call of python object {fv.name} (line {node.lineno})")


# ------------------------------------------------------------------ isinstance


def ev_isinstance(ex, node, st):
    for st1, x in ex.ev(node.args[0], st):
        for st2, c in ex.ev(node.args[1], st1):
            yield st2, boolv(isinstance_term(ex, x, c, st2))


def isinstance_term(ex, x, c, st):
    import numbers

    if isinstance(c, Val) and isinstance(c.t, TTuple):
        return z3.Or(*[isinstance_term(ex, x, ci, st) for ci in c.v])
    if isinstance(c, PyObj) and isinstance(c.obj, tuple):
        return z3.Or(*[isinstance_term(ex, x, ex.wrap_pyobj(ci, getattr(ci, "__name__", "?")), st) for ci in c.obj])
    if isinstance(x, ExcVal):
        if isinstance(c, FuncVal) and c.kind == "excclass":
            return z3.BoolVal(exc_subclass(x.cls, c.name))
        return z3.BoolVal(False)
    if isinstance(x, (FuncVal, PyObj, ViewVal)):
        raise Unsupported("isinstance on function object")
    t = x.t
    from .core import TExcObj

    if isinstance(t, TExcObj):
        if isinstance(c, FuncVal) and c.kind == "excclass":
            return z3.BoolVal(exc_subclass(t.cls, c.name))
        return z3.BoolVal(False)
    if isinstance(t, TOpt):
        return z3.And(z3.Not(x.v[0]), isinstance_term(ex, x.v[1], c, st))
    if isinstance(t, TUnion):
        return z3.Or(*[z3.And(x.v[0] == i, isinstance_term(ex, alt, c, st)) for i, alt in enumerate(x.v[1])])
    if isinstance(t, TNone):
        return z3.BoolVal(False)
    # classify the class expression
    if isinstance(c, FuncVal) and c.kind == "class":
        if isinstance(t, TRef):
            if heapops._safe_sub(t.cls, c.name):
                return z3.BoolVal(True)
            return heapops.is_instance_term(st.heap, x.v, c.name)
        return z3.BoolVal(False)
    if isinstance(c, FuncVal) and c.kind == "dynclass":
        if isinstance(t, TRef):
            return heapops.subclass_term(heapops.class_of(st.heap, x.v), heapops.class_of(st.heap, c.recv.v))
        return z3.BoolVal(False)
    if isinstance(c, FuncVal) and c.kind == "excclass":
        return z3.BoolVal(False)
    if isinstance(c, Val) and isinstance(c.t, TOpaque) and c.t.tag in ("UnitClass", "QuantityClass"):
        # registry.Unit / registry.Quantity: the classes generated for that registry (subclasses of PlainUnit / PlainQuantity)
        base = "PlainUnit" if c.t.tag == "UnitClass" else "PlainQuantity"
        if isinstance(t, TRef):
            if c.t.tag == "UnitClass" and not any(heapops._safe_sub(d.short, base) and heapops._safe_sub(d.short, t.cls)
                                                  for d in decl.CLASSES.values() if not d.exc):
                return z3.BoolVal(False)  # no declared class is both a `t.cls` and a unit
            return z3.And(heapops.is_instance_term(st.heap, x.v, base), z3.Bool(fresh_name("of_that_registry")))
        return z3.BoolVal(False)
    if isinstance(c, Val) and c.t == NUMTYPE:
        if isinstance(t, TInt):
            return c.v == ops.NUMTYPE_IDS["int"]
        if isinstance(t, TNum):
            return ops.IsInstNum(x.v, c.v)
        if isinstance(t, TBool):
            return c.v == ops.NUMTYPE_IDS["int"]
        return z3.BoolVal(False)
    if isinstance(c, FuncVal) and c.kind == "builtin" and c.name in ("str", "dict", "tuple", "list", "bool", "set", "frozenset"):
        c = PyObj(getattr(__import__("builtins"), c.name), c.name)
    if isinstance(c, PyObj):
        o = c.obj
        if o is numbers.Number or o is numbers.Real or o is numbers.Complex:
            return z3.BoolVal(isinstance(t, (TNum, TInt, TBool)))
        if o is str:
            return z3.BoolVal(isinstance(t, TStr))
        if o is dict:
            return z3.BoolVal(isinstance(t, TDict))
        if o is bool:
            return z3.BoolVal(isinstance(t, TBool))
        if o is tuple:
            return z3.BoolVal(isinstance(t, (TTuple, TSeq)))
        if o is list:
            return z3.BoolVal(isinstance(t, TList))
        if isinstance(o, type):
            # a real class that is not modelled: no modelled value is an instance, unless declared ndarray-like
            if isinstance(t, TRef):
                real = decl.CLASSES[t.cls].real()
                if issubclass(real, o):
                    return z3.BoolVal(True)
                # closed world: is any declared subclass of t.cls a subclass of o?
                subs = [d for d in decl.CLASSES.values() if not d.exc and heapops._safe_sub(d.short, t.cls)
                        and issubclass(d.real(), o)]
                if not subs:
                    return z3.BoolVal(False)
                cid = heapops.class_of(st.heap, x.v)
                return z3.Or(*[cid == d.id for d in subs])
            return z3.BoolVal(False)
    raise Unsupported(f"isinstance({x.t}, {c})")


# ------------------------------------------------------------------ any / all / comprehensions


def iter_domain(ex, it, st):
    """Describe an iterable: returns (kind, bound vars factory) where the generator element is symbolic.
    kind: ('dict', dval, mode) | ('set', sval) | ('seq', seqterm, etype) | ('range', lo, hi)"""
    if isinstance(it, ViewVal):
        return ("dict", it.base, it.kind)
    if isinstance(it, Val):
        t = it.t
        if isinstance(t, TRef):
            for dd in decl.mro_decls(t.cls):
                if dd.mapping_delegate:
                    return ("dict", heapops.read_field(st.heap, it, dd.mapping_delegate), "keys")
        if isinstance(t, TDict):
            return ("dict", it, "keys")
        if isinstance(t, TSet):
            return ("set", Val(TSetV(t.e), heapops.set_arr(st.heap, it)))
        if isinstance(t, TSetV):
            return ("set", it)
        if isinstance(t, TList):
            return ("seq", heapops.list_seq(st.heap, it), t.e)
        if isinstance(t, TSeq):
            return ("seq", it.v, t.e)
        if isinstance(t, TTuple):
            return ("tuple", it)
    raise Unsupported(f"iteration over {getattr(it, 't', it)}")


def element_of(dom, st):
    """fresh element of an iteration domain: returns (value, membership condition, extra bound terms)"""
    kind = dom[0]
    if kind == "dict":
        _, d, mode = dom
        k = d.t.k.fresh("k")
        cond = heapops.dict_has(st.heap, d, k)
        v = heapops.dict_read(st.heap, d, k)
        if mode == "keys":
            return k, cond, k.terms()
        if mode == "values":
            return v, cond, k.terms()
        return Val(TTuple([k.t, v.t]), (k, v)), cond, k.terms()
    if kind == "set":
        _, s = dom
        e = s.t.e.fresh("e")
        return e, z3.Select(s.v, e.v), e.terms()
    if kind == "seq":
        _, seq, et = dom
        i = z3.Int(fresh_name("i"))
        return eunpack(seq[i], et), z3.And(i >= 0, i < z3.Length(seq)), [i]
    raise Unsupported(f"element of {kind}")


def bind_target(target, val, env):
    if isinstance(target, ast.Name):
        env[target.id] = val
    elif isinstance(target, (ast.Tuple, ast.List)) and isinstance(val.t, TTuple) and len(target.elts) == len(val.v):
        for t, v in zip(target.elts, val.v):
            bind_target(t, v, env)
    else:
        raise Unsupported("comprehension target")


def ev_anyall(ex, which, gen, st):
    if len(gen.generators) != 1 or gen.generators[0].is_async:
        raise Unsupported("multi-generator comprehension")
    g = gen.generators[0]
    for st1, it in ex.ev(g.iter, st):
        dom = iter_domain(ex, it, st1)
        if dom[0] == "tuple":
            terms = []
            for item in dom[1].v:
                env = dict(st1.env)
                bind_target(g.target, item, env)
                sc = ex.scope(st1, env)
                conds = [spec.sv_bool(c, sc) for c in g.ifs]
                b = spec.sv_bool(gen.elt, sc)
                terms.append(z3.And(*conds, b) if which == "any" else z3.Implies(z3.And(*conds), b))
            yield st1, boolv(z3.Or(*terms) if which == "any" else z3.And(*terms))
            continue
        elem, member, bvars = element_of(dom, st1)
        env = dict(st1.env)
        bind_target(g.target, elem, env)
        sc = ex.scope(st1, env)
        conds = [member] + [spec.sv_bool(c, sc) for c in g.ifs]
        body = spec.sv_bool(gen.elt, sc)
        if which == "any":
            yield st1, boolv(z3.Exists(bvars, z3.And(*conds, body)))
        else:
            yield st1, boolv(z3.ForAll(bvars, z3.Implies(z3.And(*conds), body)))


def _flatten_and(ifs):
    out = []
    for c in ifs:
        if isinstance(c, ast.BoolOp) and isinstance(c.op, ast.And):
            out += _flatten_and(c.values)
        else:
            out.append(c)
    return out


def ev_comprehension(ex, node, st):
    if len(node.generators) != 1:
        raise Unsupported("multi-generator comprehension")
    g = node.generators[0]
    for st1, it in ex.ev(g.iter, st):
        dom = iter_domain(ex, it, st1)
        if isinstance(node, ast.DictComp) and dom[0] == "dict" and dom[2] == "items" and isinstance(dom[1].t.k, TOpt) \
                and isinstance(g.target, ast.Tuple) and isinstance(g.target.elts[0], ast.Name) \
                and any(isinstance(c, ast.Compare) and isinstance(c.left, ast.Name) and c.left.id == g.target.elts[0].id
                        and len(c.ops) == 1 and isinstance(c.ops[0], ast.IsNot) and isinstance(c.comparators[0], ast.Constant)
                        and c.comparators[0].value is None for c in _flatten_and(g.ifs)):
            # {k: v for k, v in d.items() if k is not None and ...}: keys of the result are the non-None keys
            d = dom[1]
            inner = d.t.k.inner
            s_ = inner.fresh("k")
            kopt = Val(d.t.k, (z3.BoolVal(False), s_))
            v = heapops.dict_read(st1.heap, d, kopt)
            env = dict(st1.env)
            bind_target(g.target, Val(TTuple([kopt.t, v.t]), (kopt, v)), env)
            sc = ex.scope(st1, env)
            keyv = spec.sv(node.key, sc)
            if not (isinstance(keyv.t, TOpt) and z3.eq(z3.simplify(keyv.v[1].v), z3.simplify(s_.v))):
                raise Unsupported("dict comprehension with a computed key")
            conds = [heapops.dict_has(st1.heap, d, kopt)] + [spec.sv_bool(c, sc) for c in g.ifs]
            val = coerce(spec.sv(node.value, sc), d.t.v)
            rt = TDict(inner, d.t.v)
            r = st1.new_ref("dict")
            out = Val(rt, r)
            dflt = d.t.v.default_terms()[0]
            heapops.dict_set_contents(st1.heap, out, z3.Lambda([s_.v], z3.And(*conds)),
                                      [z3.Lambda([s_.v], z3.If(z3.And(*conds), val.v, dflt))])
            yield st1, out
            continue
        if isinstance(node, ast.DictComp) and dom[0] == "dict" and dom[2] == "items":
            d = dom[1]
            k = d.t.k.fresh("k")
            v = heapops.dict_read(st1.heap, d, k)
            env = dict(st1.env)
            bind_target(g.target, Val(TTuple([k.t, v.t]), (k, v)), env)
            sc = ex.scope(st1, env)
            keyv = spec.sv(node.key, sc)
            if not z3.eq(z3.simplify(keyv.v), z3.simplify(k.v)):
                raise Unsupported("dict comprehension with a computed key")
            conds = [heapops.dict_has(st1.heap, d, k)] + [spec.sv_bool(c, sc) for c in g.ifs]
            val = spec.sv(node.value, sc)
            vt = val.t if not compatible(val.t, d.t.v) else d.t.v
            val = coerce(val, vt)
            rt = TDict(d.t.k, vt)
            ex.note_type(rt)
            r = st1.new_ref("dict")
            out = Val(rt, r)
            dflt = vt.default_terms()[0]
            dom_arr = z3.Lambda([k.v], z3.And(*conds))
            val_arr = z3.Lambda([k.v], z3.If(z3.And(*conds), val.v, dflt))
            heapops.dict_set_contents(st1.heap, out, dom_arr, [val_arr])
            yield st1, out
            continue
        if isinstance(node, (ast.ListComp, ast.GeneratorExp)) and dom[0] == "seq" and not g.ifs \
                and isinstance(g.target, ast.Name) and isinstance(node.elt, ast.Attribute) \
                and isinstance(node.elt.value, ast.Name) and node.elt.value.id == g.target.id \
                and isinstance(dom[2], TRef):
            # [x.field for x in seq]: element-wise field read as a sequence-algebra term
            _, seq, et = dom
            d, ft = decl.find_field(et.cls, node.elt.attr)
            if d is not None and ft.simple:
                arr = st1.heap.get(heapops.field_keys(d.short, node.elt.attr, ft)[0], ft.sort())
                out_seq = ops.seq_map_field(arr, seq, ft.sort())
                if isinstance(node, ast.ListComp):
                    r = st1.new_ref("list")
                    out = Val(TList(ft), r)
                    heapops.list_write(st1.heap, out, out_seq)
                    yield st1, out
                else:
                    yield st1, Val(TSeq(ft), out_seq)
                continue
        if isinstance(node, (ast.ListComp, ast.GeneratorExp)) and dom[0] == "seq" and not g.ifs:
            _, seq, et = dom
            i = z3.Int(fresh_name("i"))
            env = dict(st1.env)
            bind_target(g.target, eunpack(seq[i], et), env)
            sc = ex.scope(st1, env)
            body = spec.sv(node.elt, sc)
            if not body.t.simple:
                raise Unsupported("comprehension producing compound values")
            out_seq = z3.Const(fresh_name("comp"), z3.SeqSort(body.t.sort()))
            st1.pc.append(z3.Length(out_seq) == z3.Length(seq))
            st1.pc.append(z3.ForAll([i], z3.Implies(z3.And(i >= 0, i < z3.Length(seq)), out_seq[i] == body.v)))
            if isinstance(node, ast.ListComp):
                r = st1.new_ref("list")
                out = Val(TList(body.t), r)
                heapops.list_write(st1.heap, out, out_seq)
                yield st1, out
            else:
                yield st1, Val(TSeq(body.t), out_seq)
            continue
        if isinstance(node, (ast.SetComp, ast.ListComp, ast.GeneratorExp)) and dom[0] in ("dict", "set"):
            # result as a set value (for a list: an arbitrary-order, duplicate-free listing of that set,
            # valid when the element expression is the key itself)
            elem, member, bvars = element_of(dom, st1)
            env = dict(st1.env)
            bind_target(g.target, elem, env)
            sc = ex.scope(st1, env)
            conds = [member] + [spec.sv_bool(c, sc) for c in g.ifs]
            body = spec.sv(node.elt, sc)
            if len(bvars) != 1 or not z3.eq(z3.simplify(body.v), bvars[0]):
                raise Unsupported("set/list comprehension with a computed element")
            arr = z3.Lambda(bvars, z3.And(*conds))
            if isinstance(node, ast.SetComp):
                r = st1.new_ref("set")
                out = Val(TSet(body.t), r)
                heapops.set_write(st1.heap, out, arr)
                yield st1, out
            else:
                yield st1, ViewVal("setlisting", Val(TSetV(body.t), arr))
            continue
        raise Unsupported(f"comprehension form at line {node.lineno}")


# ------------------------------------------------------------------ builtins


def builtin_call(ex, name, args, kwargs, st, node):
    if name == "len":
        x = args[0]
        if isinstance(x, Val) and isinstance(x.t, TRef):
            for dd in decl.mro_decls(x.t.cls):
                if dd.mapping_delegate:
                    x = heapops.read_field(st.heap, x, dd.mapping_delegate)
                    break
            else:
                key = ex.find_method(x.t.cls, "__len__")
                if key is None:
                    raise Unsupported(f"len of {x.t}")
                yield from call_contract(ex, key, [x], {}, st, node)
                return
        if isinstance(x, ViewVal):
            x = x.base
        yield st, ops.length(heapops, st.heap, x)
        return
    if name == "hash":
        x = args[0]
        if isinstance(x, ViewVal) and x.kind == "frozenitems":
            d = x.base
            vals = heapops.dict_vals(st.heap, d)
            if len(vals) != 1:
                raise Unsupported("hash of compound-valued items")
            yield st, Val(INT, ops.hash_items(heapops.dict_dom(st.heap, d), vals[0]))
            return
        if isinstance(x, Val) and isinstance(x.t, TRef):
            key = ex.find_method(x.t.cls, "__hash__")
            if key is None:
                raise Unsupported(f"hash of {x.t}")
            yield from call_contract(ex, key, [x], {}, st, node)
            return
        if isinstance(x, Val) and is_numeric(x):
            yield st, Val(INT, HashNum(to_real(x)))  # A3: equal numbers of any numeric type hash equal
            return
        if isinstance(x, FuncVal) and x.kind in ("dynclass", "class"):
            cid = heapops.class_of(st.heap, x.recv.v) if x.kind == "dynclass" else z3.IntVal(decl.CLASSES[x.name].id)
            yield st, Val(INT, HashCls(cid))
            return
        if isinstance(x, Val) and isinstance(x.t, TTuple):
            def rec(i, st, acc):
                if i == len(x.v):
                    f = z3.Function(f"HashTup{len(acc)}", *([z3.IntSort()] * len(acc)), z3.IntSort())
                    yield st, Val(INT, f(*acc))
                    return
                for st1, h in builtin_call(ex, "hash", [x.v[i]], {}, st, node):
                    yield from rec(i + 1, st1, acc + [h.v])
            yield from rec(0, st, [])
            return
        raise Unsupported(f"hash of {getattr(x, 't', x)}")
    if name in ("exp", "log") and len(args) == 1 and is_numeric(args[0]):
        from .theory import zf

        ops.USED.add("explog")
        yield st, Val(NUM, zf("Exp" if name == "exp" else "Log")(to_real(args[0])))
        return
    if name == "frozenset":
        x = args[0]
        if isinstance(x, ViewVal) and x.kind == "items":
            yield st, ViewVal("frozenitems", x.base)
            return
        if isinstance(x, Val) and isinstance(x.t, (TSet, TSetV, TSeq, TList)):
            yield from builtin_collect(ex, name, args, kwargs, st, node)
            return
        raise Unsupported("frozenset of non-items")
    if name == "abs":
        x = args[0]
        if isinstance(x.t, TInt):
            yield st, Val(INT, z3.If(x.v >= 0, x.v, -x.v))
            return
        if is_numeric(x):
            yield st, Val(NUM, z3.If(x.v >= 0, x.v, -x.v))
            return
        if isinstance(x.t, TRef):
            key = ex.find_method(x.t.cls, "__abs__")
            if key:
                yield from call_contract(ex, key, [x], {}, st, node)
                return
        raise Unsupported(f"abs of {x.t}")
    if name in ("iter",):
        yield st, args[0]
        return
    if name == "reversed":
        x = args[0]
        if isinstance(x, Val) and isinstance(x.t, (TList, TSeq)):
            seq = heapops.list_seq(st.heap, x) if isinstance(x.t, TList) else x.v
            yield st, Val(TSeq(x.t.e), ops.seq_rev(seq))  # consumed once by its user (list(), for, comprehension)
            return
        if isinstance(x, Val) and isinstance(x.t, TTuple):
            yield st, Val(TTuple(list(reversed(x.t.items))), tuple(reversed(x.v)))
            return
        raise Unsupported(f"reversed({getattr(x, 't', x)})")
    if name in ("list", "tuple", "set", "sorted", "frozenset"):
        yield from builtin_collect(ex, name, args, kwargs, st, node)
        return
    if name in ("dict", "udict", "defaultdict"):
        yield from builtin_dict(ex, name, args, kwargs, st, node)
        return
    if name == "str" and len(args) == 1 and isinstance(args[0], Val) and isinstance(args[0].t, (TUnion, TOpt)):
        # str() of a value that is a number on this path
        x = args[0]
        if isinstance(x.t, TUnion):
            idx = [i for i, a in enumerate(x.t.alts) if isinstance(a, (TNum, TInt)) or (isinstance(a, TOpt) and isinstance(a.inner, (TNum, TInt)))]
            if len(idx) == 1:
                for st1 in ex.guard_exc(st, x.v[0] == idx[0], "TypeError", node):
                    yield from builtin_call(ex, "str", [x.v[1][idx[0]]], kwargs, st1, node)
                return
        elif isinstance(x.t.inner, (TNum, TInt)):
            for st1 in ex.guard_exc(st, z3.Not(x.v[0]), "ArithmeticError", node):
                yield st1, ViewVal("numstr", x.v[1])
            return
    if name in ("str", "repr"):
        if name == "str" and len(args) == 1 and is_numeric(args[0]):
            yield st, ViewVal("numstr", args[0])  # decimal text of a number (only usable by a numeric type call)
            return
        yield st, Val(STR, z3.String(fresh_name("str")))
        return
    if name == "type":
        x = args[0]
        if isinstance(x, Val) and isinstance(x.t, TRef):
            yield st, FuncVal("dynclass", x.t.cls, recv=x)
            return
        yield st, PyObj(None, "type(...)")
        return
    if name in ("min", "max") and len(args) == 2 and all(is_numeric(a) for a in args):
        a, b = args
        if isinstance(a.t, TInt) and isinstance(b.t, TInt):
            c = a.v <= b.v
            yield st, Val(INT, z3.If(c, a.v, b.v) if name == "min" else z3.If(c, b.v, a.v))
        else:
            x, y = to_real(a), to_real(b)
            yield st, Val(NUM, z3.If(x <= y, x, y) if name == "min" else z3.If(x <= y, y, x))
        return
    if name == "getattr" and len(args) == 3 and isinstance(args[1].t, TStr):
        s = z3.simplify(args[1].v)
        if z3.is_string_value(s):
            base = args[0]
            attr = s.as_string()
            if isinstance(base.t, TRef):
                d, _ = decl.find_field(base.t.cls, attr)
                if d is not None:
                    yield st, heapops.read_field(st.heap, base, attr)
                    return
                sub, ft = decl.find_field_down(base.t.cls, attr)
                if sub is not None:
                    # the attribute belongs to a declared subclass: present iff the object is an instance of it
                    ok = heapops.is_instance_term(st.heap, base.v, sub.short)
                    st_yes, st_no = st.copy(), st.copy()
                    st_yes.pc.append(ok)
                    yield st_yes, heapops.read_field(st_yes.heap, Val(TRef(sub.short), base.v), attr)
                    st_no.pc.append(z3.Not(ok))
                    dflt = args[2]
                    if type(dflt).__name__ == "EmptyLit":
                        dflt = ex.materialise_empty(dflt, ft, st_no)
                    yield st_no, dflt
                    return
            if (isinstance(base.t, TOpaque) and base.t.tag == "Other") or isinstance(base.t, (TNum, TInt, TStr, TBool, TNone)):
                if attr.startswith("_") and not attr.startswith("__"):
                    yield st, args[2]  # plain values carry no private pint attributes
                    return
        raise Unsupported("getattr")
    if name == "hasattr" and isinstance(args[1].t, TStr):
        s = z3.simplify(args[1].v)
        base = args[0]
        if z3.is_string_value(s) and isinstance(base, Val):
            attr = s.as_string()
            if isinstance(base.t, TRef):
                real = decl.CLASSES[base.t.cls].real()
                d, _ = decl.find_field(base.t.cls, attr)
                yield st, boolv(d is not None or hasattr(real, attr))
                return
            if isinstance(base.t, (TNum, TInt, TStr, TBool, TNone)) or (isinstance(base.t, TOpaque) and base.t.tag == "Other"):
                if attr.startswith("_") or attr in ("dimensionality", "units", "magnitude", "_REGISTRY"):
                    yield st, boolv(False)
                    return
        raise Unsupported("hasattr")
    if name == "callable":
        x = args[0]
        yield st, boolv(isinstance(x, (FuncVal, PyObj)) or (isinstance(x, Val) and x.t == FN))
        return
    if name == "range":
        ints = [a for a in args]
        if len(ints) == 1:
            yield st, ViewVal("range", None, (z3.IntVal(0), ints[0].v))
        elif len(ints) == 2:
            yield st, ViewVal("range", None, (ints[0].v, ints[1].v))
        else:
            raise Unsupported("range with step")
        return
    if name == "zip":
        yield st, ViewVal("zip", None, args)
        return
    if name == "enumerate":
        yield st, ViewVal("enumerate", None, args)
        return
    if name in ("int", "float") and len(args) == 1 and isinstance(args[0], Val) and isinstance(args[0].t, TStr):
        # int(text) / float(text): ValueError unless the text is a literal of that type; the value is named by an
        # uninterpreted function of the text (IntOfStr / NumOfStr); every int literal is a float literal of the same value
        sv_ = args[0].v
        ok = (IntStrOK if name == "int" else NumStrOK)(sv_)
        st.assume(z3.Implies(IntStrOK(sv_), z3.And(NumStrOK(sv_), NumOfStr(sv_, z3.IntVal(ops.NUMTYPE_IDS["float"])) == z3.ToReal(IntOfStr(sv_)))))
        for st1 in ex.guard_exc(st, ok, "ValueError", node):
            if name == "int":
                yield st1, Val(INT, IntOfStr(sv_))
            else:
                yield st1, Val(NUM, NumOfStr(sv_, z3.IntVal(ops.NUMTYPE_IDS["float"])))
        return
    if name == "int" and len(args) == 1 and is_numeric(args[0]):
        x = to_real(args[0])
        yield st, Val(INT, z3.If(x >= 0, z3.ToInt(x), -z3.ToInt(-x)))
        return
    if name == "float" and len(args) == 1 and is_numeric(args[0]):
        yield st, Val(NUM, to_real(args[0]))
        return
    if name == "bool" and len(args) == 1:
        yield st, boolv(ex.truth(args[0], st))
        return
    raise Unsupported(f"builtin {name} (line {node.lineno})")


def builtin_collect(ex, name, args, kwargs, st, node):
    x = args[0] if args else None
    if name == "list" and x is None:
        raise Unsupported("list() without element type")
    if name in ("list", "tuple") and isinstance(x, Val) and isinstance(x.t, (TList, TSeq)):
        seq = heapops.list_seq(st.heap, x) if isinstance(x.t, TList) else x.v
        if name == "tuple":
            yield st, Val(TSeq(x.t.e), seq)
        else:
            r = st.new_ref("list")
            out = Val(TList(x.t.e), r)
            heapops.list_write(st.heap, out, seq)
            yield st, out
        return
    if name in ("list", "tuple", "sorted") and isinstance(x, Val) and isinstance(x.t, TTuple):
        yield st, x
        return
    if name in ("list", "tuple", "sorted", "set", "frozenset"):
        # listing of a key set / set in arbitrary (or sorted) order: a duplicate-free sequence with that element set
        dom = iter_domain(ex, x, st) if not (isinstance(x, ViewVal) and x.kind == "setlisting") else ("set", x.base)
        if dom[0] == "dict" and dom[2] == "items" and name in ("tuple", "list"):
            # listing of the items of a dict in arbitrary order: a sequence of (key, value) pairs, every key exactly once
            d = dom[1]
            pt = TTuple([d.t.k, d.t.v])
            es = esort(pt)
            seq = z3.Const(fresh_name("itemlisting"), z3.SeqSort(es))
            i, j = z3.Int(fresh_name("i")), z3.Int(fresh_name("j"))
            n = z3.Length(seq)

            def pair(ix):
                p = eunpack(seq[ix], pt)
                return p.v[0], p.v[1]

            ki, vi = pair(i)
            kj, _ = pair(j)
            st.pc.append(z3.ForAll([i], z3.Implies(z3.And(i >= 0, i < n), z3.And(
                heapops.dict_has(st.heap, d, ki), *[a == b for a, b in zip(vi.terms(), heapops.dict_read(st.heap, d, ki).terms())]))))
            st.pc.append(z3.ForAll([i, j], z3.Implies(z3.And(i >= 0, i < j, j < n), z3.Not(val_eq(ki, kj)))))
            k = d.t.k.fresh("k")
            st.pc.append(z3.ForAll(k.terms(), z3.Implies(heapops.dict_has(st.heap, d, k),
                                                         z3.Contains(seq, z3.Unit(epack(Val(pt, (k, heapops.dict_read(st.heap, d, k)))))))))
            ops.USED.add(("card", str(d.t.ksort())))
            st.pc.append(n == heapops.card_fn(d.t.ksort())(heapops.dict_dom(st.heap, d)))
            if name == "tuple":
                yield st, Val(TSeq(pt), seq)
            else:
                r = st.new_ref("list")
                out = Val(TList(pt), r)
                heapops.list_write(st.heap, out, seq)
                yield st, out
            return
        if dom[0] == "dict" and dom[2] == "keys":
            sv_ = Val(TSetV(dom[1].t.k), heapops.dict_dom(st.heap, dom[1]))
        elif dom[0] == "set":
            sv_ = dom[1]
        elif dom[0] == "seq" and name in ("set", "frozenset"):
            # set(sequence): the fresh set of exactly the elements that occur in the sequence
            es = esort(dom[2])
            arr = z3.Const(fresh_name("setof"), z3.ArraySort(es, z3.BoolSort()))
            e = z3.Const(fresh_name("e"), es)
            st.pc.append(z3.ForAll([e], z3.Select(arr, e) == z3.Contains(dom[1], z3.Unit(e)), patterns=[z3.Select(arr, e)]))
            sv_ = Val(TSetV(dom[2]), arr)
        else:
            raise Unsupported(f"{name}() of {dom[0]}")
        if name in ("set", "frozenset"):
            r = st.new_ref("set")
            out = Val(TSet(sv_.t.e), r)
            heapops.set_write(st.heap, out, sv_.v)
            yield st, out
            return
        seq = listing_of_set(st, sv_)
        if name == "tuple":
            yield st, Val(TSeq(sv_.t.e), seq)
        else:
            r = st.new_ref("list")
            out = Val(TList(sv_.t.e), r)
            heapops.list_write(st.heap, out, seq)
            yield st, out
        return
    raise Unsupported(f"{name}(...) at line {node.lineno}")


def listing_of_set(st, sv_):
    """fresh sequence enumerating exactly the elements of set value sv_ without repetition"""
    es = esort(sv_.t.e)
    seq = z3.Const(fresh_name("listing"), z3.SeqSort(es))
    i, j = z3.Int(fresh_name("i")), z3.Int(fresh_name("j"))
    e = z3.Const(fresh_name("e"), es)
    n = z3.Length(seq)
    st.pc.append(z3.ForAll([i], z3.Implies(z3.And(i >= 0, i < n), z3.Select(sv_.v, seq[i]))))
    st.pc.append(z3.ForAll([e], z3.Implies(z3.Select(sv_.v, e), z3.Contains(seq, z3.Unit(e)))))
    st.pc.append(z3.ForAll([i, j], z3.Implies(z3.And(i >= 0, i < j, j < n), seq[i] != seq[j])))
    return seq


def builtin_dict(ex, name, args, kwargs, st, node):
    if name == "defaultdict":
        a = args[0] if args else None
        if not (isinstance(a, Val) and a.t == NUMTYPE) or len(args) != 1:
            raise Unsupported("defaultdict with a factory other than int")
        t = TDict(STR, NUM, flavour="ddict")
        r = st.new_ref("ddict")
        out = Val(t, r)
        heapops.dict_set_contents(st.heap, out, z3.K(t.ksort(), z3.BoolVal(False)), [z3.K(t.ksort(), z3.RealVal(0))])
        yield st, out
        return
    if kwargs:
        raise Unsupported("dict(**kw)")
    if not args:
        raise Unsupported("dict() without type; use a typed context")
    x = args[0]
    if isinstance(x, Val) and isinstance(x.t, TRef):
        for dd in decl.mro_decls(x.t.cls):
            if dd.mapping_delegate:
                x = heapops.read_field(st.heap, x, dd.mapping_delegate)
                break
    if isinstance(x, Val) and isinstance(x.t, TDict):
        t = TDict(x.t.k, x.t.v, flavour=("udict" if name == "udict" else "dict"))
        ex.note_type(t)
        r = st.new_ref("dict")
        out = Val(t, r)
        heapops.dict_set_contents(st.heap, out, heapops.dict_dom(st.heap, x), heapops.dict_vals(st.heap, x))
        yield st, out
        return
    raise Unsupported(f"{name}({getattr(x, 't', x)})")


def builtin_unbound(ex, name, args, kwargs, st, node):
    if name == "dict.__eq__":
        a, b = args
        if isinstance(a.t, TDict) and isinstance(b.t, TDict):
            yield st, boolv(ex.dict_eq(a, b, st))
            return
        if isinstance(a.t, TDict):
            # dict.__eq__(d, non-dict) is NotImplemented (truthy): modelled as unknown Bool
            if isinstance(b.t, TOpaque) or is_numeric(b) or isinstance(b.t, (TStr, TNone)):
                yield st, PyObj(NotImplemented, "NotImplemented")
                return
        raise Unsupported("dict.__eq__ operands")
    if name == "object.__new__":
        c = args[0]
        if isinstance(c, FuncVal) and c.kind == "dynclass":
            r = st.new_ref("obj")
            st.heap.set(heapops.CLASSKEY, z3.Store(st.heap.get(heapops.CLASSKEY, z3.IntSort()), r,
                                                   heapops.class_of(st.heap, c.recv.v)))
            yield st, Val(TRef(c.name), r)
            return
        if isinstance(c, FuncVal) and c.kind == "class":
            r = st.new_ref("obj")
            st.heap.set(heapops.CLASSKEY, z3.Store(st.heap.get(heapops.CLASSKEY, z3.IntSort()), r,
                                                   z3.IntVal(decl.CLASSES[c.name].id)))
            yield st, Val(TRef(c.name), r)
            return
        raise Unsupported("object.__new__ argument")
    raise Unsupported(f"{name}")


# ------------------------------------------------------------------ container methods


def container_method(ex, recv, name, args, kwargs, st, node):
    t = recv.t
    if isinstance(t, TDict):
        yield from dict_method(ex, recv, name, args, kwargs, st, node)
    elif isinstance(t, TSet):
        yield from set_method(ex, recv, name, args, kwargs, st, node)
    elif isinstance(t, TList):
        yield from list_method(ex, recv, name, args, kwargs, st, node)
    elif isinstance(t, TStr):
        yield from str_method(ex, recv, name, args, kwargs, st, node)
    else:
        raise Unsupported(f"method .{name} on {t}")


def dict_method(ex, d, name, args, kwargs, st, node):
    t = d.t
    if name == "copy":
        r = st.new_ref("dict")
        out = Val(t, r)
        heapops.dict_set_contents(st.heap, out, heapops.dict_dom(st.heap, d), heapops.dict_vals(st.heap, d))
        yield st, out
    elif name in ("items", "keys", "values"):
        yield st, ViewVal(name, d)
    elif name == "get":
        k = coerce(args[0], t.k)
        has = heapops.dict_has(st.heap, d, k)
        v = heapops.dict_read(st.heap, d, k)
        dflt = args[1] if len(args) > 1 else NONEV
        yield st, val_ite(has, v, dflt)
    elif name == "pop":
        k = coerce(args[0], t.k)
        has = heapops.dict_has(st.heap, d, k)
        if len(args) > 1:
            v = val_ite(has, heapops.dict_read(st.heap, d, k), args[1])
            heapops.dict_delete(st.heap, d, k)  # deleting an absent key leaves the model unchanged
            yield st, v
        else:
            for st1 in ex.guard_exc(st, has, "KeyError", node):
                v = heapops.dict_read(st1.heap, d, k)
                heapops.dict_delete(st1.heap, d, k)
                yield st1, v
    elif name == "setdefault":
        k = coerce(args[0], t.k)
        has = heapops.dict_has(st.heap, d, k)
        dflt = coerce(args[1], t.v)
        v = val_ite(has, heapops.dict_read(st.heap, d, k), dflt)
        heapops.dict_store(st.heap, d, k, v)
        yield st, v
    elif name == "clear":
        heapops.dict_set_contents(st.heap, d, z3.K(t.ksort(), z3.BoolVal(False)),
                                  [z3.K(t.ksort(), x) for x in t.v.default_terms()])
        yield st, NONEV
    elif name == "update" and len(args) == 1 and isinstance(args[0].t, TDict) and args[0].t.k == t.k and args[0].t.v == t.v:
        o = args[0]
        odom = heapops.dict_dom(st.heap, o)
        k = z3.Const(fresh_name("k"), t.ksort())
        dom = z3.SetUnion(heapops.dict_dom(st.heap, d), odom)
        vals = [z3.Lambda([k], z3.If(z3.Select(odom, k), z3.Select(ov, k), z3.Select(dv, k)))
                for dv, ov in zip(heapops.dict_vals(st.heap, d), heapops.dict_vals(st.heap, o))]
        heapops.dict_set_contents(st.heap, d, dom, vals)
        yield st, NONEV
    else:
        raise Unsupported(f"dict.{name}")


def set_method(ex, s, name, args, kwargs, st, node):
    t = s.t
    arr = heapops.set_arr(st.heap, s)
    if name == "add":
        heapops.set_write(st.heap, s, z3.Store(arr, epack(coerce(args[0], t.e)), z3.BoolVal(True)))
        yield st, NONEV
    elif name == "discard":
        heapops.set_write(st.heap, s, z3.Store(arr, epack(coerce(args[0], t.e)), z3.BoolVal(False)))
        yield st, NONEV
    elif name == "remove":
        e = coerce(args[0], t.e)
        for st1 in ex.guard_exc(st, z3.Select(arr, e.v), "KeyError", node):
            heapops.set_write(st1.heap, s, z3.Store(heapops.set_arr(st1.heap, s), e.v, z3.BoolVal(False)))
            yield st1, NONEV
    elif name == "copy":
        r = st.new_ref("set")
        out = Val(t, r)
        heapops.set_write(st.heap, out, arr)
        yield st, out
    elif name in ("update", "union", "difference", "intersection", "difference_update", "__or__"):
        cur = arr
        for a in args:
            other = as_set_array(ex, a, st, t.e)
            if name in ("update", "union", "__or__"):
                cur = z3.SetUnion(cur, other)
            elif name in ("difference", "difference_update"):
                cur = z3.SetDifference(cur, other)
            else:
                cur = z3.SetIntersect(cur, other)
        if name in ("update", "difference_update"):
            heapops.set_write(st.heap, s, cur)
            yield st, NONEV
        else:
            r = st.new_ref("set")
            out = Val(t, r)
            heapops.set_write(st.heap, out, cur)
            yield st, out
    elif name == "clear":
        heapops.set_write(st.heap, s, z3.K(esort(t.e), z3.BoolVal(False)))
        yield st, NONEV
    else:
        raise Unsupported(f"set.{name}")


def as_set_array(ex, a, st, et):
    if isinstance(a, ViewVal) and a.kind == "keys":
        return heapops.dict_dom(st.heap, a.base)
    if isinstance(a, ViewVal) and a.kind == "setlisting":
        return a.base.v
    if isinstance(a, Val):
        if isinstance(a.t, TSet):
            return heapops.set_arr(st.heap, a)
        if isinstance(a.t, TSetV):
            return a.v
        if isinstance(a.t, TDict):
            return heapops.dict_dom(st.heap, a)
        if isinstance(a.t, (TList, TSeq)):
            seq = heapops.list_seq(st.heap, a) if isinstance(a.t, TList) else a.v
            e = z3.Const(fresh_name("e"), esort(et))
            return z3.Lambda([e], z3.Contains(seq, z3.Unit(e)))
        if isinstance(a.t, TTuple):
            arr = z3.K(esort(et), z3.BoolVal(False))
            for it in a.v:
                arr = z3.Store(arr, coerce(it, et).v, z3.BoolVal(True))
            return arr
    raise Unsupported(f"set operand {getattr(a, 't', a)}")


def list_method(ex, l, name, args, kwargs, st, node):
    t = l.t
    seq = heapops.list_seq(st.heap, l)
    if name == "append":
        heapops.list_write(st.heap, l, z3.Concat(seq, z3.Unit(epack(coerce(args[0], t.e)))))
        yield st, NONEV
    elif name == "extend" and isinstance(args[0].t, (TList, TSeq)):
        o = args[0]
        oseq = heapops.list_seq(st.heap, o) if isinstance(o.t, TList) else o.v
        heapops.list_write(st.heap, l, z3.Concat(seq, oseq))
        yield st, NONEV
    elif name == "copy":
        r = st.new_ref("list")
        out = Val(t, r)
        heapops.list_write(st.heap, out, seq)
        yield st, out
    elif name == "pop" and not args:
        n = z3.Length(seq)
        for st1 in ex.guard_exc(st, n > 0, "IndexError", node):
            s1 = heapops.list_seq(st1.heap, l)
            heapops.list_write(st1.heap, l, z3.SubSeq(s1, 0, z3.Length(s1) - 1))
            yield st1, eunpack(s1[z3.Length(s1) - 1], t.e)
    elif name == "insert" and z3.is_int_value(z3.simplify(args[0].v)) and z3.simplify(args[0].v).as_long() == 0:
        heapops.list_write(st.heap, l, z3.Concat(z3.Unit(epack(coerce(args[1], t.e))), seq))
        yield st, NONEV
    else:
        raise Unsupported(f"list.{name}")


def str_format_fn(n):
    """'{} {}'.format(a, b) on strings: an uninterpreted function of the format string and the arguments"""
    return z3.Function(f"StrFormat{n}", *([z3.StringSort()] * (n + 1)), z3.StringSort())


StrLower = z3.Function("StrLower", z3.StringSort(), z3.StringSort())
StrIsIdent = z3.Function("StrIsIdent", z3.StringSort(), z3.BoolSort())


def str_method(ex, s, name, args, kwargs, st, node):
    if name == "startswith" and isinstance(args[0].t, TStr):
        yield st, boolv(z3.PrefixOf(args[0].v, s.v))
    elif name == "endswith" and isinstance(args[0].t, TStr):
        yield st, boolv(z3.SuffixOf(args[0].v, s.v))
    elif name == "lower":
        ops.USED.add("strlower")
        yield st, Val(STR, StrLower(s.v))
    elif name == "isidentifier":
        yield st, boolv(StrIsIdent(s.v))
    elif name in ("isdigit", "isdecimal", "isnumeric", "isalpha", "isalnum", "isspace", "isupper", "islower") and not args:
        # character-class predicates: uninterpreted (nothing is assumed about how they relate to int()/float())
        yield st, boolv(z3.Function("Str_" + name, z3.StringSort(), z3.BoolSort())(s.v))
    elif name == "format" and args and all(isinstance(a, Val) and isinstance(a.t, TStr) for a in args) and not kwargs:
        yield st, Val(STR, str_format_fn(len(args))(s.v, *[a.v for a in args]))
    elif name == "format":
        yield st, Val(STR, z3.String(fresh_name("fmt")))
    elif name == "replace" and len(args) == 2:
        yield st, Val(STR, z3.Replace(s.v, args[0].v, args[1].v)) if False else Val(STR, z3.String(fresh_name("repl")))
    elif name == "split" and len(args) == 2 and isinstance(args[0].t, TStr) and z3.is_int_value(z3.simplify(args[1].v)) \
            and z3.simplify(args[1].v).as_long() == 1:
        # s.split(sep, 1): one part if sep does not occur, else (before, after) the first occurrence
        sep = args[0].v
        i = z3.IndexOf(s.v, sep, 0)
        has = z3.Contains(s.v, sep)
        before = z3.SubString(s.v, 0, i)
        after = z3.SubString(s.v, i + z3.Length(sep), z3.Length(s.v) - i - z3.Length(sep))
        seq = z3.If(has, z3.Concat(z3.Unit(before), z3.Unit(after)), z3.Unit(s.v))
        r = st.new_ref("list")
        out = Val(TList(STR), r)
        heapops.list_write(st.heap, out, seq)
        yield st, out
    elif name == "join":
        yield st, Val(STR, z3.String(fresh_name("join")))
    elif name == "strip":
        yield st, Val(STR, z3.String(fresh_name("strip")))
    else:
        raise Unsupported(f"str.{name}")


# ------------------------------------------------------------------ constructors and contract calls


def construct(ex, cls_short, dyn_class_term, args, kwargs, st, node):
    d = decl.CLASSES[cls_short]
    key = ex.find_method(cls_short, "__init__")
    if key is None:
        # classes built by __new__: an assumed contract keyed Class.__new__, whose first parameter (`cls`) stands for the new object
        key = ex.find_method(cls_short, "__new__")
        if key is None or not decl.CONTRACTS[key].trusted:
            raise Unsupported(f"constructor of {cls_short}: no __init__ contract")
    r = st.new_ref("obj")
    cid = dyn_class_term if dyn_class_term is not None else z3.IntVal(d.id)
    st.heap.set(heapops.CLASSKEY, z3.Store(st.heap.get(heapops.CLASSKEY, z3.IntSort()), r, cid))
    selfv = Val(TRef(cls_short), r)
    for st1, _ in call_contract(ex, key, [selfv] + args, kwargs, st, node, ctor_self=selfv):
        yield st1, selfv


def signature_of(c):
    import os

    if c.trusted and not os.path.exists(source.module_path(c.module)):
        # an assumed contract on a function outside /repo (standard library): positional parameters as the contract names them
        return ast.parse(f"def {c.qual.split('.')[-1]}({', '.join(c.params)}): pass").body[0]
    fnode, _, _ = source.find_def(c.module, c.qual)
    return fnode


def bind_args(ex, c, fnode, args, kwargs, st):
    """Return dict param -> Val following Python's binding rules (subset)."""
    a = fnode.args
    pos = [x.arg for x in a.posonlyargs + a.args]
    bound = {}
    rest = list(args)
    if any(isinstance(x, tuple) and x[0] == "*" for x in rest):
        # f(*seq): allowed only if the callee takes *args at that position
        idx = next(i for i, x in enumerate(rest) if isinstance(x, tuple))
        if a.vararg is None or idx != len(pos) or idx != len(rest) - 1:
            raise Unsupported("star-args call shape")
        bound[a.vararg.arg] = rest[idx][1]
        rest = rest[:idx]
    for name, v in zip(pos, rest):
        bound[name] = v
    extra = rest[len(pos):]
    if extra:
        if a.vararg is None:
            raise Unsupported(f"too many positional arguments for {c.key}")
        et = c.params[a.vararg.arg].e
        seq = z3.Empty(z3.SeqSort(esort(et)))
        for x in extra:
            seq = z3.Concat(seq, z3.Unit(coerce(x, et).v))
        bound[a.vararg.arg] = Val(TSeq(et), seq)
    elif a.vararg is not None and a.vararg.arg not in bound:
        t = c.params.get(a.vararg.arg)
        if t is not None:
            bound[a.vararg.arg] = t.make(t.default_terms())
    kw = dict(kwargs)
    if "**" in kw:
        if a.kwarg is None:
            raise Unsupported("**kwargs call into a function without **kwargs")
        bound[a.kwarg.arg] = kw.pop("**")  # forwarded unchanged (opaque keyword bundle)
    for name, v in kw.items():
        if name in bound:
            raise Unsupported(f"duplicate argument {name}")
        if name not in pos and name not in [x.arg for x in a.kwonlyargs]:
            if a.kwarg is None:
                raise Unsupported(f"unexpected keyword {name} for {c.key}")
            raise Unsupported("**kwargs collection")
        bound[name] = v
    # defaults
    defaults = dict(zip(pos[len(pos) - len(a.defaults):], a.defaults))
    for x, dv in zip(a.kwonlyargs, a.kw_defaults):
        if dv is not None:
            defaults[x.arg] = dv
    for name in pos + [x.arg for x in a.kwonlyargs]:
        if name not in bound:
            if name not in defaults:
                raise Unsupported(f"missing argument {name} for {c.key}")
            saved_mod, saved_env = ex.module, st.env
            ex.module, st.env = c.module, {}
            try:
                vals = list(ex.ev(defaults[name], st))
            finally:
                ex.module, st.env = saved_mod, saved_env
            if len(vals) != 1:
                raise Unsupported("forking default value")
            bound[name] = vals[0][1]
    if a.kwarg is not None and a.kwarg.arg in c.params and a.kwarg.arg not in bound:
        t = c.params[a.kwarg.arg]
        bound[a.kwarg.arg] = t.make(t.default_terms())
    return bound


def pick_case(c, bound):
    """Choose parameter types: the contract's `params`, overridden by the first compatible case."""
    def fits(types):
        for name, v in bound.items():
            t = types.get(name)
            if t is None:
                continue
            if not fits_type(v, t):
                return False
        return True

    if c.cases:
        for case in c.cases:
            cc = c.for_case(case)
            if fits(cc.params):
                return cc
        raise Unsupported(f"{c.key}: no case fits argument types "
                          f"{ {k: getattr(v, 't', v) for k, v in bound.items()} }")
    if not fits(c.params):
        raise Unsupported(f"{c.key}: argument types {[(k, getattr(v, 't', v)) for k, v in bound.items()]} "
                          f"do not fit {c.params}")
    return c


def fits_type(v, t):
    if not isinstance(v, Val):
        return isinstance(t, TOpaque) and t.tag in ("Fn", "Opaque", "Exc")
    if compatible(v.t, t):
        if isinstance(t, TRef) and isinstance(v.t, TRef):
            return heapops._safe_sub(v.t.cls, t.cls) or heapops._safe_sub(t.cls, v.t.cls)
        return True
    if isinstance(t, TOpt):
        return isinstance(v.t, TNone) or fits_type(v, t.inner) or (isinstance(v.t, TOpt) and compatible(v.t.inner, t.inner))
    if isinstance(v.t, TOpt) and not isinstance(v.t.inner, TOpt):
        return fits_type(v.v[1], t)  # passed under an `is not None` guard: obligation at the call
    if isinstance(t, TUnion):
        return any(fits_type(v, a) for a in t.alts)
    if isinstance(t, TTuple) and isinstance(v.t, TTuple) and len(t.items) == len(v.v):
        return all(fits_type(x, y) for x, y in zip(v.v, t.items))
    return False


def call_contract(ex, key, args, kwargs, st, node, ctor_self=None):
    c = decl.CONTRACTS.get(key)
    if c is None:
        raise Unsupported(f"call to {key}: no contract")
    fnode = signature_of(c)
    bound = bind_args(ex, c, fnode, args, kwargs, st)
    c = pick_case(c, bound)
    types = c.params
    env = {}
    for name, v in bound.items():
        t = types.get(name)
        if t is None:
            raise Unsupported(f"{c.key}: parameter {name} has no declared type")
        if isinstance(v, Val) and isinstance(v.t, TOpt) and not isinstance(t, (TOpt, TUnion)):
            ex.oblige(st, f"arg-not-None[{c.qual}.{name}]@{_short(node)}", z3.Not(v.v[0]))
            st.assume(z3.Not(v.v[0]))
            v = v.v[1]
        if isinstance(v, Val):
            if isinstance(t, TRef) and isinstance(v.t, TRef):
                env[name] = Val(t if heapops._safe_sub(t.cls, v.t.cls) else v.t, v.v)
            else:
                env[name] = coerce(v, t)
        else:
            env[name] = v
    tag = _short(node)
    pre_heap = st.heap.copy()
    pre_alloc = st.alloc
    sc_pre = spec.Scope(env, pre_heap, pre_heap, env, pre_alloc, pre_alloc, st.ghost)
    # class constraints of refs are facts, not obligations (closed world)
    for label, text in c.requires.items():
        g = spec.sv_bool(text, sc_pre)
        ex.oblige(st, f"pre[{c.qual}].{label}@{tag}", g, info={"callee": c.key})
        st.assume(g)
    # exceptional exits
    conds = {}
    for ename, text in c.raises.items():
        conds[ename] = spec.sv_bool(text, sc_pre)
    for ename, cond in conds.items():
        if z3.is_false(z3.simplify(cond)):
            continue
        bad = st.copy()
        bad.assume(cond)
        bad.trace.append(f"L{getattr(node, 'lineno', '?')}: {c.qual} raises {ename}")
        if c.exc_modifies:
            do_havoc(ex, c, c.exc_modifies, env, bad, sc_pre)
        if c.expost:
            sc_x = spec.Scope(env, bad.heap, pre_heap, env, bad.alloc, pre_alloc, bad.ghost)
            for label, text in c.expost.items():
                if not isinstance(text, dict):
                    bad.assume(spec.sv_bool(text, sc_x))
        if not bad.infeasible():
            ex.sink_raise(bad, ExcVal(ename, [], node), node)
    for ename in c.allow_exc:
        # "may raise": unconstrained exceptional exit (state after it is havoc'd per `modifies`)
        bad = st.copy()
        bad.trace.append(f"L{getattr(node, 'lineno', '?')}: {c.qual} may raise {ename}")
        do_havoc(ex, c, c.exc_modifies if c.exc_modifies is not None else c.modifies, env, bad, sc_pre)
        xp = c.expost.get(ename) if isinstance(c.expost.get(ename), dict) else None
        if xp:
            sc_x = spec.Scope(env, bad.heap, pre_heap, env, bad.alloc, pre_alloc, bad.ghost)
            for label, text in xp.items():
                bad.assume(spec.sv_bool(text, sc_x))
        xv = ExcVal(ename, [], node)
        # the classes with an exact (`raises`, iff) clause are raised on their own paths above: this one is none of them
        xv.excluded = set(c.raises)
        ex.sink_raise(bad, xv, node)
    for cond in conds.values():
        st.assume(z3.Not(cond))
    if st.infeasible():
        return
    # normal exit: havoc the frame, allocate, assume the postcondition
    do_havoc(ex, c, c.modifies, env, st, sc_pre, ctor_self)
    if any("fresh(" in t for t in c.ensures.values()) or c.qual.endswith("__init__"):
        new_alloc = z3.Const(fresh_name("alloc"), z3.ArraySort(z3.IntSort(), z3.BoolSort()))
        o = z3.Int(fresh_name("o"))
        st.pc.append(z3.ForAll([o], z3.Implies(z3.Select(st.alloc, o), z3.Select(new_alloc, o))))
        st.alloc = new_alloc
    rt = c.returns if c.returns is not None else NONE
    ex.note_type(rt)
    if isinstance(rt, TNone):
        result = NONEV
    else:
        result = rt.fresh("ret")
        assume_type_facts(st, result)
    env2 = dict(env)
    env2["result"] = result
    sc_post = spec.Scope(env2, st.heap, pre_heap, env, st.alloc, pre_alloc, st.ghost)
    pc_ids = None
    for label, text in c.ensures.items():
        node = spec.parse(text)
        if isinstance(node, ast.Call) and isinstance(node.func, ast.Name) and node.func.id == "implies" \
                and isinstance(node.args[0], ast.Call) and isinstance(node.args[0].func, ast.Name) \
                and node.args[0].func.id == "old":
            # conditional frame clause `implies(old(P), P')`: used only when P is literally known in the
            # pre-state (same term); otherwise it is not assumed at all (assuming less is sound) --
            # this keeps irrelevant disjunctions out of the hypotheses.
            ant = z3.simplify(spec.sv_bool(node.args[0], sc_post))
            if pc_ids is None:
                pc_ids = set()
                for h in st.pc:
                    pc_ids.add(h.get_id())
                    if z3.is_and(h):
                        pc_ids.update(ch.get_id() for ch in h.children())
            parts = list(ant.children()) if z3.is_and(ant) else [ant]
            if ant.get_id() in pc_ids or all(p.get_id() in pc_ids for p in parts):
                st.assume(spec.sv_bool(node.args[1], sc_post))
            continue
        st.assume(spec.sv_bool(text, sc_post))
    if not st.infeasible():
        yield st, result


def assume_type_facts(st, v):
    """Closed-world typing facts for fresh symbolic values."""
    if not isinstance(v, Val):
        return
    t = v.t
    if isinstance(t, TRef):
        st.pc.append(heapops.is_instance_term(st.heap, v.v, t.cls))
        st.pc.append(v.v > 0)
    elif isinstance(t, TRefLike) and not isinstance(t, TOpaque):
        st.pc.append(v.v > 0)
    elif isinstance(t, TTuple):
        for x in v.v:
            assume_type_facts(st, x)
    elif isinstance(t, TOpt):
        inner = v.v[1]
        if isinstance(inner.t, TRef):
            st.pc.append(z3.Implies(z3.Not(v.v[0]), heapops.is_instance_term(st.heap, inner.v, inner.t.cls)))
    elif isinstance(t, TUnion):
        for i, alt in enumerate(v.v[1]):
            if isinstance(alt.t, TRef):
                st.pc.append(z3.Implies(v.v[0] == i, heapops.is_instance_term(st.heap, alt.v, alt.t.cls)))
        st.pc.append(z3.And(v.v[0] >= 0, v.v[0] < len(v.v[1])))
    elif isinstance(t, TOpaque) and t.tag == "NumType":
        st.pc.append(z3.And(v.v >= 1, v.v <= 3))


def resolve_targets(texts, sc, ex=None):
    """modifies targets: 'x.f' | 'contents(x)' | 'fields(x)' evaluated in scope sc."""
    out = []
    for text in texts:
        node = spec.parse(text)
        if isinstance(node, ast.Call) and isinstance(node.func, ast.Name) and node.func.id == "allof" \
                and isinstance(node.args[0], ast.Attribute) and isinstance(node.args[0].value, ast.Name):
            # allof(Class.field): that field of *every* object of the class may change (e.g. lazily cached hashes)
            out.append(("fieldarray", node.args[0].value.id, node.args[0].attr))
        elif isinstance(node, ast.Call) and isinstance(node.func, ast.Name) and node.func.id == "allof" \
                and isinstance(node.args[0], ast.Subscript):
            # allof(Set[Str]) / allof(List[Str]): the contents of *every* set/list object of that element type may change
            from .core import parse_type

            t = parse_type(ast.unparse(node.args[0]))
            if not isinstance(t, (TSet, TList)):
                raise Unsupported(f"modifies target `{text}`")
            out.append(("contentsarray", t))
        elif isinstance(node, ast.Call) and isinstance(node.func, ast.Name) and node.func.id in ("contents", "fields"):
            base = spec.sv(node.args[0], sc)
            if isinstance(base.t, TOpt):
                base = base.v[1]
            out.append((node.func.id, base))
        elif isinstance(node, ast.Attribute):
            base = spec.sv(node.value, sc)
            if isinstance(base.t, TOpt):
                base = base.v[1]
            out.append(("field", base, node.attr))
        else:
            raise Unsupported(f"modifies target `{text}`")
    return out


def do_havoc(ex, c, texts, env, st, sc_pre, ctor_self=None):
    targets = resolve_targets(texts, sc_pre)
    if ctor_self is not None:
        targets.append(("fields", ctor_self))
    for tg in targets:
        heapops.havoc_target(st, tg)
