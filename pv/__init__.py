"""pv -- a small deductive verifier for a subset of Python, driven by sidecar
contracts, working on the real source of /repo (re-read with `ast` on every run).

See /verif/DESIGN.md section 2.
"""
import os

REPO = os.environ.get("PV_REPO", "/repo")
VERIF = os.path.dirname(os.path.dirname(os.path.abspath(__file__)))
