"""Locate the real source of functions under contract (re-read from /repo on every run)."""
from __future__ import annotations

import ast
import hashlib
import os

from . import REPO
from .core import StaleContract

_cache = {}


def module_path(module: str) -> str:
    p = os.path.join(REPO, *module.split("."))
    if os.path.isdir(p):
        return os.path.join(p, "__init__.py")
    return p + ".py"


def module_ast(module: str):
    path = module_path(module)
    if path not in _cache:
        with open(path, encoding="utf-8") as f:
            src = f.read()
        _cache[path] = (ast.parse(src, filename=path), src)
    return _cache[path]


def find_def(module: str, qual: str):
    """Return (node, path, source_segment) for `qual` ('Class.method', 'func', 'outer.inner')."""
    tree, src = module_ast(module)
    node = tree
    for part in qual.split("."):
        found = None
        body = node.body
        for n in body:
            if isinstance(n, (ast.FunctionDef, ast.ClassDef, ast.AsyncFunctionDef)) and n.name == part:
                found = n  # last definition wins, as in Python
        if found is None and not isinstance(node, ast.Module):
            # nested function anywhere inside the enclosing function body
            for n in ast.walk(node):
                if isinstance(n, (ast.FunctionDef, ast.ClassDef)) and n.name == part and n is not node:
                    found = n
                    break
        if found is None:
            # class-level alias:  __rmul__ = __mul__
            for n in body:
                if isinstance(n, ast.Assign) and len(n.targets) == 1 and isinstance(n.targets[0], ast.Name) \
                        and n.targets[0].id == part and isinstance(n.value, ast.Name):
                    return find_def(module, ".".join(qual.split(".")[:-1] + [n.value.id]))
            raise StaleContract(f"{module}:{qual} not found in {module_path(module)}")
        node = found
    seg = ast.get_source_segment(src, node) or ""
    return node, module_path(module), seg


def sha1(text: str) -> str:
    return hashlib.sha1(text.encode()).hexdigest()


def class_alias(module: str, clsname: str, name: str):
    """If class body contains `name = other`, return other (else None)."""
    tree, _ = module_ast(module)
    for n in tree.body:
        if isinstance(n, ast.ClassDef) and n.name == clsname:
            for s in n.body:
                if isinstance(s, ast.Assign) and len(s.targets) == 1 and isinstance(s.targets[0], ast.Name) \
                        and s.targets[0].id == name and isinstance(s.value, ast.Name):
                    return s.value.id
    return None
