"""Refutation mode: solver model -> JSON descriptor of concrete inputs -> real objects -> run the
real function under the run-time contract monitor (DESIGN.md 2.6)."""
from __future__ import annotations

import importlib
import json
import os
from fractions import Fraction

import z3

from . import decl, heapops, monitor
from .core import (esort, epack, eunpack, TBool, TDict, TInt, TList, TMap, TNone, TNum, TOpaque, TOpt, TRef, TSeq, TSet, TSetV, TStr, TTuple,
                   TUnion, Unsupported, Val)


class CannotConcretise(Exception):
    pass


def _strings_in(expr, out, depth=0):
    if depth > 40:
        return
    try:
        if z3.is_string_value(expr):
            out.add(expr.as_string())
            return
        for ch in expr.children():
            _strings_in(ch, out, depth + 1)
    except Exception:
        pass


def candidate_strings(model):
    out = set()
    for d in model.decls():
        try:
            v = model[d]
            if isinstance(v, z3.FuncInterp):
                for i in range(v.num_entries()):
                    e = v.entry(i)
                    for j in range(e.num_args()):
                        _strings_in(e.arg_value(j), out)
                    _strings_in(e.value(), out)
                _strings_in(v.else_value(), out)
            else:
                _strings_in(v, out)
        except Exception:
            continue
    return sorted(out)


def _ev(model, term):
    return model.eval(term, model_completion=True)


def _num(model, term):
    v = _ev(model, term)
    if z3.is_int_value(v):
        return v.as_long()
    if z3.is_rational_value(v):
        f = v.as_fraction()
        return int(f) if f.denominator == 1 else f"{f.numerator}/{f.denominator}"
    if z3.is_algebraic_value(v):
        return float(v.approx(12).as_fraction())
    raise CannotConcretise(f"non-numeric model value {v}")


class Describer:
    def __init__(self, model, heap_initial):
        self.m = model
        self.h = heap_initial
        self.cands = candidate_strings(model)
        self.memo = {}

    def harr(self, key):
        if key not in self.h:
            raise CannotConcretise(f"heap array {key} not in the model")
        return self.h[key]

    def describe(self, v):
        if not isinstance(v, Val):
            raise CannotConcretise(f"python-level value {v}")
        t = v.t
        m = self.m
        if isinstance(t, (TNum, TInt)):
            return {"num": _num(m, v.v)}
        if isinstance(t, TBool):
            return {"bool": z3.is_true(_ev(m, v.v))}
        if isinstance(t, TStr):
            return {"str": _ev(m, v.v).as_string()}
        if isinstance(t, TNone):
            return {"none": True}
        if isinstance(t, TOpt):
            if z3.is_true(_ev(m, v.v[0])):
                return {"none": True}
            return self.describe(v.v[1])
        if isinstance(t, TTuple):
            return {"tuple": [self.describe(x) for x in v.v]}
        if isinstance(t, TUnion):
            tag = _ev(m, v.v[0]).as_long()
            return self.describe(v.v[1][tag])
        if isinstance(t, TOpaque):
            i = _ev(m, v.v).as_long()
            if t.tag == "NumType":
                return {"numtype": {1: "float", 2: "Fraction", 3: "Decimal", 4: "int"}.get(i, "float")}
            return {"opaque": t.tag, "id": i}
        if isinstance(t, TSeq):
            s = _ev(m, v.v)
            n = _ev(m, z3.Length(v.v)).as_long()
            if n > 8:
                raise CannotConcretise("long sequence")
            return {"seq": [self.describe(eunpack(_ev(m, v.v[i]), t.e)) for i in range(n)]}
        rid = _ev(m, v.v).as_long()
        memo_key = (rid, type(t).__name__)
        if memo_key in self.memo:
            return {"ref": rid}
        if isinstance(t, TRef):
            self.memo[memo_key] = True
            cid = _ev(m, z3.Select(self.h[heapops.CLASSKEY], v.v)).as_long() if heapops.CLASSKEY in self.h else None
            cname = t.cls
            for d in decl.CLASSES.values():
                if d.id == cid and heapops._safe_sub(d.short, t.cls):
                    cname = d.short
            fields = {}
            for f, (d, ft) in heapops.all_fields(cname).items():
                keys = heapops.field_keys(d.short, f, ft)
                if not all(k in self.h for k in keys):
                    fields[f] = {"unset": True}
                    continue
                terms = [z3.Select(self.h[k], v.v) for k in keys]
                fields[f] = self.describe(ft.make(terms))
            return {"ref": rid, "class": cname, "fields": fields}
        if isinstance(t, TDict):
            self.memo[memo_key] = True
            if t.dom_key() not in self.h:
                return {"ref": rid, "dict": {}, "udict": t.udict}
            dom = z3.Select(self.h[t.dom_key()], v.v)
            items = {}
            if not isinstance(t.k, TStr):
                raise CannotConcretise("non-string dict keys")
            for k in self.cands:
                if z3.is_true(_ev(m, z3.Select(dom, z3.StringVal(k)))):
                    terms = [z3.Select(z3.Select(self.h[t.val_key(i)], v.v), z3.StringVal(k))
                             for i in range(len(t.v.sorts()))]
                    items[k] = self.describe(t.v.make(terms))
            return {"ref": rid, "dict": items, "udict": t.udict, "flavour": t.flavour}
        if isinstance(t, TSet):
            self.memo[memo_key] = True
            arr = z3.Select(self.h[t.key()], v.v) if t.key() in self.h else None
            elems = []
            if arr is not None and isinstance(t.e, TStr):
                elems = [k for k in self.cands if z3.is_true(_ev(m, z3.Select(arr, z3.StringVal(k))))]
            return {"ref": rid, "set": elems}
        if isinstance(t, TList):
            self.memo[memo_key] = True
            if t.key() not in self.h:
                return {"ref": rid, "list": []}
            seq = z3.Select(self.h[t.key()], v.v)
            n = _ev(m, z3.Length(seq)).as_long()
            if n > 8:
                raise CannotConcretise("long list")
            return {"ref": rid, "list": [self.describe(eunpack(_ev(m, seq[i]), t.e)) for i in range(n)]}
        raise CannotConcretise(f"type {t}")


def parse_num(x):
    if isinstance(x, str):
        n, d = x.split("/")
        return Fraction(int(n), int(d))
    return x


class Builder:
    def __init__(self):
        self.objs = {}

    def build(self, d):
        if "num" in d:
            return parse_num(d["num"])
        if "bool" in d:
            return d["bool"]
        if "str" in d:
            return d["str"]
        if "none" in d:
            return None
        if "tuple" in d:
            return tuple(self.build(x) for x in d["tuple"])
        if "seq" in d:
            return tuple(self.build(x) for x in d["seq"])
        if "numtype" in d:
            import decimal

            return {"float": float, "Fraction": Fraction, "Decimal": decimal.Decimal, "int": int}[d["numtype"]]
        if "opaque" in d:
            key = ("opaque", d["id"])
            if key not in self.objs:
                self.objs[key] = _Opaque(d["opaque"], d["id"])
            return self.objs[key]
        rid = d.get("ref")
        if "class" in d:
            key = ("obj", rid)
            if key in self.objs:
                return self.objs[key]
            real = decl.CLASSES[d["class"]].real()
            obj = object.__new__(real)
            self.objs[key] = obj
            for f, fd in d["fields"].items():
                if fd.get("unset"):
                    fd = {"num": 1}  # field never read on this path: any value will do
                val = self.build(fd)
                try:
                    object.__setattr__(obj, f, val)
                except Exception:
                    setattr(obj, f, val)
            fix = getattr(decl.CLASSES[d["class"]], "replay_fixup", None)
            for dd in decl.mro_decls(d["class"]):
                fx = getattr(dd, "replay_fixup", None)
                if fx:
                    fx(obj)
            return obj
        if "dict" in d:
            key = ("dict", rid)
            if key in self.objs:
                return self.objs[key]
            util = importlib.import_module("pint.util")
            import collections

            out = (collections.defaultdict(int) if d.get("flavour") == "ddict"
                   else util.udict() if d.get("udict") else {})
            self.objs[key] = out
            for k, v in d["dict"].items():
                out[k] = self.build(v)
            return out
        if "set" in d:
            key = ("set", rid)
            if key not in self.objs:
                self.objs[key] = set(d["set"])
            return self.objs[key]
        if "list" in d:
            key = ("list", rid)
            if key not in self.objs:
                self.objs[key] = [self.build(x) for x in d["list"]]
            return self.objs[key]
        if "ref" in d:
            for kind in ("obj", "dict", "set", "list"):
                if (kind, rid) in self.objs:
                    return self.objs[(kind, rid)]
            raise CannotConcretise(f"dangling reference {rid}")
        raise CannotConcretise(f"descriptor {d}")


class _Opaque:
    def __init__(self, tag, i):
        self.tag, self.i = tag, i

    def __repr__(self):
        return f"<{self.tag}#{self.i}>"


def describe_inputs(ob, model):
    d = Describer(model, ob.heap_initial)
    return {name: d.describe(v) for name, v in ob.params.items() if isinstance(v, Val)}


def run_descriptor(func_key, case_name, inputs):
    """Build real objects from a descriptor and run the real function under the monitor."""
    c = decl.CONTRACTS[func_key]
    if c.cases:
        for case in c.cases:
            if case.get("_name") == case_name:
                c = c.for_case(case)
                break
        else:
            c = c.for_case(c.cases[0])
    b = Builder()
    kwargs = {k: b.build(v) for k, v in inputs.items()}
    return monitor.check_call(c, kwargs)


def write_replay(path, payload):
    os.makedirs(os.path.dirname(path), exist_ok=True)
    with open(path, "w") as f:
        json.dump(payload, f, indent=1, default=str)
