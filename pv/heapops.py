"""Heap access helpers: fields, dict / set / list contents, classes, havoc."""
from __future__ import annotations

import z3

from . import decl
from .core import (esort, epack, eunpack, key_sort, key_term, BOOL, INT, NUM, STR, Heap, State, TDict, TInt, TList, TMap, TOpaque, TOpt, TRef, TRefLike,
                   TSet, TSetV, TTuple, Unsupported, Val, coerce, fresh_name)

CLASSKEY = "__class__"


# ------------------------------------------------------------------ object fields


def field_keys(owner: str, field: str, t):
    return [f"{owner}.{field}#{i}" for i in range(len(t.sorts()))]


def read_field(heap: Heap, ref: Val, field: str) -> Val:
    if not isinstance(ref.t, TRef):
        raise Unsupported(f"attribute .{field} on {ref.t}")
    d, t = decl.find_field(ref.t.cls, field)
    if d is None:
        raise Unsupported(f"field {ref.t.cls}.{field} not declared")
    terms = [heap.select(heap.get(k, s), ref.v) for k, s in zip(field_keys(d.short, field, t), t.sorts())]
    return t.make(terms)


def write_field(heap: Heap, ref: Val, field: str, val: Val):
    d, t = decl.find_field(ref.t.cls, field)
    if d is None:
        raise Unsupported(f"field {ref.t.cls}.{field} not declared")
    val = coerce(val, t)
    for k, s, term in zip(field_keys(d.short, field, t), t.sorts(), val.terms()):
        heap.set(k, z3.Store(heap.get(k, s), ref.v, term))


def all_fields(short):
    out = {}
    for d in reversed(decl.mro_decls(short)):
        for f, t in d.fields.items():
            out[f] = (d, t)
    return out


# ------------------------------------------------------------------ classes (dynamic type of a Ref)


def class_of(heap: Heap, ref_term):
    return z3.Select(heap.get(CLASSKEY, z3.IntSort()), ref_term)


def subclass_ids(short):
    """ids of all declared classes that are subclasses of `short` (closed world)."""
    return [d.id for d in decl.CLASSES.values() if not d.exc and _safe_sub(d.short, short)]


def _safe_sub(a, b):
    try:
        return decl.is_subclass(a, b)
    except Exception:
        return a == b


def is_instance_term(heap, ref_term, short):
    c = class_of(heap, ref_term)
    ids = subclass_ids(short)
    return z3.Or(*[c == i for i in ids]) if ids else z3.BoolVal(False)


def subclass_term(c1, c2):
    """z3 Bool: class id c1 is a subclass of class id c2 (both symbolic)."""
    cases = []
    for a in decl.CLASSES.values():
        for b in decl.CLASSES.values():
            if not a.exc and not b.exc and _safe_sub(a.short, b.short):
                cases.append(z3.And(c1 == a.id, c2 == b.id))
    return z3.Or(*cases) if cases else z3.BoolVal(False)


# ------------------------------------------------------------------ dict contents


def dict_dom(heap: Heap, d: Val):
    t = d.t
    return z3.Select(heap.get(t.dom_key(), z3.ArraySort(t.ksort(), z3.BoolSort())), d.v)


def dict_vals(heap: Heap, d: Val):
    t = d.t
    return [z3.Select(heap.get(t.val_key(i), z3.ArraySort(t.ksort(), s)), d.v) for i, s in enumerate(t.v.sorts())]


def dict_read(heap: Heap, d: Val, k: Val) -> Val:
    return d.t.v.make([z3.Select(a, key_term(k)) for a in dict_vals(heap, d)])


def dict_has(heap: Heap, d: Val, k: Val):
    return z3.Select(dict_dom(heap, d), key_term(k))


def dict_set_contents(heap: Heap, d: Val, dom, vals):
    t = d.t
    heap.set(t.dom_key(), z3.Store(heap.get(t.dom_key(), z3.ArraySort(t.ksort(), z3.BoolSort())), d.v, dom))
    for i, (s, a) in enumerate(zip(t.v.sorts(), vals)):
        heap.set(t.val_key(i), z3.Store(heap.get(t.val_key(i), z3.ArraySort(t.ksort(), s)), d.v, a))


def dict_store(heap: Heap, d: Val, k: Val, v: Val):
    v = coerce(v, d.t.v)
    dom = z3.Store(dict_dom(heap, d), key_term(k), z3.BoolVal(True))
    vals = [z3.Store(a, key_term(k), term) for a, term in zip(dict_vals(heap, d), v.terms())]
    dict_set_contents(heap, d, dom, vals)


def dict_delete(heap: Heap, d: Val, k: Val):
    dom = z3.Store(dict_dom(heap, d), key_term(k), z3.BoolVal(False))
    vals = [z3.Store(a, key_term(k), dflt) for a, dflt in zip(dict_vals(heap, d), d.t.v.default_terms())]
    dict_set_contents(heap, d, dom, vals)


def dict_as_map(heap: Heap, d: Val) -> Val:
    if len(d.t.v.sorts()) != 1:
        raise Unsupported("map view of a dict with compound values")
    return Val(TMap(d.t.k, d.t.v), (dict_dom(heap, d), dict_vals(heap, d)[0]))


def normalisation_axiom(heap: Heap, t: TDict):
    """forall r, k: not dom[r][k] => val[r][k] == default  (representation choice of the model:
    `del`/`pop` store the default; initial heaps are assumed normalised)."""
    r = z3.Int("r!n")
    k = z3.Const("k!n", t.ksort())
    dom = heap.initial_get(t.dom_key(), z3.ArraySort(t.ksort(), z3.BoolSort()))
    out = []
    for i, (s, dflt) in enumerate(zip(t.v.sorts(), t.v.default_terms())):
        val = heap.initial_get(t.val_key(i), z3.ArraySort(t.ksort(), s))
        out.append(z3.ForAll([r, k], z3.Implies(z3.Not(z3.Select(z3.Select(dom, r), k)),
                                                 z3.Select(z3.Select(val, r), k) == dflt)))
    return out


# ------------------------------------------------------------------ cardinality of key sets

_card_fns = {}


def card_fn(ksort):
    key = str(ksort)
    if key not in _card_fns:
        _card_fns[key] = z3.Function(f"Card_{key}", z3.ArraySort(ksort, z3.BoolSort()), z3.IntSort())
    return _card_fns[key]


def card_axioms(ksort):
    f = card_fn(ksort)
    a = z3.Const("a!c", z3.ArraySort(ksort, z3.BoolSort()))
    k = z3.Const("k!c", ksort)
    empty = z3.K(ksort, z3.BoolVal(False))
    return [
        z3.ForAll([a], f(a) >= 0),
        z3.ForAll([a], (f(a) == 0) == (a == empty)),
        z3.ForAll([a, k], f(z3.Store(a, k, z3.BoolVal(True))) == f(a) + z3.If(z3.Select(a, k), 0, 1)),
        z3.ForAll([a, k], f(z3.Store(a, k, z3.BoolVal(False))) == f(a) - z3.If(z3.Select(a, k), 1, 0)),
    ]


# ------------------------------------------------------------------ sets and lists (heap objects)


def set_arr(heap: Heap, s: Val):
    t = s.t
    return z3.Select(heap.get(t.key(), z3.ArraySort(esort(t.e), z3.BoolSort())), s.v)


def set_write(heap: Heap, s: Val, arr):
    t = s.t
    heap.set(t.key(), z3.Store(heap.get(t.key(), z3.ArraySort(esort(t.e), z3.BoolSort())), s.v, arr))


def list_seq(heap: Heap, l: Val):
    t = l.t
    return z3.Select(heap.get(t.key(), z3.SeqSort(esort(t.e))), l.v)


def list_write(heap: Heap, l: Val, seq):
    t = l.t
    heap.set(t.key(), z3.Store(heap.get(t.key(), z3.SeqSort(esort(t.e))), l.v, seq))


# ------------------------------------------------------------------ havoc of objects (loop cuts and calls)


def havoc_target(st: State, target):
    """target = ('field', ref Val, fieldname) | ('contents', container Val) | ('fields', ref Val)"""
    heap = st.heap
    kind = target[0]
    if kind == "field":
        _, ref, field = target
        d, t = decl.find_field(ref.t.cls, field)
        write_field(heap, ref, field, t.fresh(f"hv_{field}"))
    elif kind == "fields":
        _, ref = target
        for f, (d, t) in all_fields(ref.t.cls).items():
            write_field(heap, ref, f, t.fresh(f"hv_{f}"))
    elif kind == "fieldarray":
        _, cname, field = target
        d, t = decl.find_field(cname, field)
        for k, s_ in zip(field_keys(d.short, field, t), t.sorts()):
            heap.set(k, z3.Const(fresh_name(f"hv_{field}_all"), z3.ArraySort(z3.IntSort(), s_)))
    elif kind == "contentsarray":
        t = target[1]
        sort = z3.ArraySort(esort(t.e), z3.BoolSort()) if isinstance(t, TSet) else z3.SeqSort(esort(t.e))
        heap.set(t.key(), z3.Const(fresh_name("hv_contents_all"), z3.ArraySort(z3.IntSort(), sort)))
    elif kind == "contents":
        _, c = target
        t = c.t
        if isinstance(t, TDict):
            dom = z3.Const(fresh_name("hv_dom"), z3.ArraySort(t.ksort(), z3.BoolSort()))
            vals = [z3.Const(fresh_name("hv_val"), z3.ArraySort(t.ksort(), s)) for s in t.v.sorts()]
            k = z3.Const(fresh_name("k"), t.ksort())
            # keep the representation normalised
            for a, dflt in zip(vals, t.v.default_terms()):
                st.pc.append(z3.ForAll([k], z3.Implies(z3.Not(z3.Select(dom, k)), z3.Select(a, k) == dflt)))
            dict_set_contents(heap, c, dom, vals)
        elif isinstance(t, TSet):
            set_write(heap, c, z3.Const(fresh_name("hv_set"), z3.ArraySort(esort(t.e), z3.BoolSort())))
        elif isinstance(t, TList):
            list_write(heap, c, z3.Const(fresh_name("hv_list"), z3.SeqSort(esort(t.e))))
        else:
            raise Unsupported(f"contents of {t}")
    else:
        raise Unsupported(f"havoc target {target}")


def target_locations(target):
    """(heap key, ref term) pairs covered by a modifies target (for frame obligations)."""
    kind = target[0]
    out = []
    if kind == "fieldarray":
        _, cname, field = target
        d, t = decl.find_field(cname, field)
        out += [(k, None) for k in field_keys(d.short, field, t)]  # None: every object
    elif kind == "contentsarray":
        out.append((target[1].key(), None))
    elif kind == "field":
        _, ref, field = target
        d, t = decl.find_field(ref.t.cls, field)
        out += [(k, ref.v) for k in field_keys(d.short, field, t)]
    elif kind == "fields":
        _, ref = target
        for f, (d, t) in all_fields(ref.t.cls).items():
            out += [(k, ref.v) for k in field_keys(d.short, f, t)]
    elif kind == "contents":
        _, c = target
        t = c.t
        if isinstance(t, TDict):
            out.append((t.dom_key(), c.v))
            out += [(t.val_key(i), c.v) for i in range(len(t.v.sorts()))]
        elif isinstance(t, (TSet, TList)):
            out.append((t.key(), c.v))
    return out
