"""Spec-mode evaluation of contract expressions (restricted Python expression syntax)
to z3 terms.  Deterministic, side-effect free, no implicit exceptions."""
from __future__ import annotations

import ast

import z3

from . import decl, heapops, ops
from .core import (esort, epack, eunpack, BOOL, INT, NONEV, NUM, STR, TBool, TDict, TInt, TList, TMap, TNone, TNum, TOpaque, TOpt, TRef,
                   TRefLike, TSeq, TSet, TSetV, TStr, TTuple, TUnion, Unsupported, Val, boolv, coerce, fresh_name,
                   is_numeric, num, parse_type, strv, to_real, val_eq, val_ite)

_parse_cache = {}


def parse(text):
    if isinstance(text, ast.AST):
        return text
    if text not in _parse_cache:
        _parse_cache[text] = ast.parse("(" + text.strip() + ")", mode="eval").body
    return _parse_cache[text]


class Scope:
    def __init__(self, env, heap, old_heap, old_env, alloc, alloc0, ghost=None):
        self.env, self.heap, self.old_heap, self.old_env = env, heap, old_heap, old_env
        self.alloc, self.alloc0 = alloc, alloc0
        self.ghost = ghost or {}
        self.qdepth = 0
        self.locals = {}  # names bound by quantifiers / predicate parameters (values, valid in any state)

    def with_env(self, env, deeper=False, local=None):
        s = Scope(env, self.heap, self.old_heap, self.old_env, self.alloc, self.alloc0, self.ghost)
        s.qdepth = self.qdepth + (1 if deeper else 0)
        s.locals = dict(self.locals)
        if local:
            s.locals.update(local)
        return s

    def as_old(self):
        env = dict(self.old_env)
        env.update(self.locals)
        s = Scope(env, self.old_heap, self.old_heap, self.old_env, self.alloc0, self.alloc0, self.ghost)
        s.qdepth = self.qdepth
        s.locals = dict(self.locals)
        return s


_specfn_cache = {}


def specfn_apply(name, args):
    d = decl.SPECFNS[name]
    if name not in _specfn_cache:
        sorts = [s for t in d.args for s in t.sorts()]
        _specfn_cache[name] = z3.Function(name, *sorts, d.ret.sorts()[0])
    if len(args) != len(d.args):
        raise Unsupported(f"spec function {name}: arity")
    terms = []
    for a, t in zip(args, d.args):
        terms += coerce_spec(a, t).terms()
    return d.ret.make([_specfn_cache[name](*terms)])


def coerce_spec(a, t):
    return coerce(a, t)


def sbool(v: Val, sc):
    if isinstance(v.t, TBool):
        return v.v
    return ops.truth(heapops, sc.heap, v)


def sv(node, sc: Scope) -> Val:
    node = parse(node)
    m = _DISPATCH.get(type(node))
    if m is None:
        raise Unsupported(f"spec: {type(node).__name__} in `{ast.unparse(node)}`")
    return m(node, sc)


def sv_bool(node, sc):
    return sbool(sv(node, sc), sc)


def _constant(node, sc):
    v = node.value
    if v is None:
        return NONEV
    if isinstance(v, bool):
        return boolv(v)
    if isinstance(v, int):
        return num(v)
    if isinstance(v, float):
        from fractions import Fraction

        return Val(NUM, z3.RealVal(str(Fraction(repr(v)))))
    if isinstance(v, str):
        return strv(v)
    raise Unsupported(f"spec constant {v!r}")


def _name(node, sc):
    n = node.id
    if n in sc.env:
        return sc.env[n]
    if n in sc.ghost:
        return sc.ghost[n]
    if n in ("float", "Fraction", "Decimal", "int"):
        from .core import NUMTYPE

        return Val(NUMTYPE, z3.IntVal(ops.NUMTYPE_IDS[n]))
    raise Unsupported(f"spec: unknown name {n}")


def _attribute(node, sc):
    base = sv(node.value, sc)
    return attr_of(base, node.attr, sc)


def _pure_property(cls_short, attr):
    """A property whose contract is `pure` with ensures {"def": "result == EXPR"}: returns EXPR's AST."""
    real = decl.CLASSES[cls_short].real()
    for c in real.__mro__:
        if attr in c.__dict__:
            key = f"{c.__module__}:{c.__qualname__}.{attr}"
            con = decl.CONTRACTS.get(key)
            if con is not None and con.pure and "def" in con.ensures:
                node = parse(con.ensures["def"])
                if isinstance(node, ast.Compare) and isinstance(node.left, ast.Name) and node.left.id == "result" \
                        and len(node.ops) == 1 and isinstance(node.ops[0], ast.Eq):
                    return node.comparators[0]
            return None
    return None


def attr_of(base, attr, sc):
    if isinstance(base.t, TOpt):
        base = base.v[1]  # spec-level: caller guards with `is not None`
    if isinstance(base.t, TRef):
        d, _ = decl.find_field(base.t.cls, attr)
        if d is None:
            pc = _pure_property(base.t.cls, attr)
            if pc is not None:
                return sv(pc, sc.with_env({"self": base}))
            sub, _ = decl.find_field_down(base.t.cls, attr)
            if sub is not None:  # spec-level downcast (the spec guards it with is_a)
                return heapops.read_field(sc.heap, Val(TRef(sub.short), base.v), attr)
        return heapops.read_field(sc.heap, base, attr)
    raise Unsupported(f"spec: attribute .{attr} on {base.t}")


def _subscript(node, sc):
    base = sv(node.value, sc)
    t = base.t
    if isinstance(node.slice, ast.Slice):
        lo = sv(node.slice.lower, sc).v if node.slice.lower else z3.IntVal(0)
        if isinstance(t, TList):
            seq = heapops.list_seq(sc.heap, base)
            t2 = TSeq(t.e)
        elif isinstance(t, TSeq):
            seq, t2 = base.v, t
        elif isinstance(t, TStr):
            seq, t2 = base.v, t
        else:
            raise Unsupported(f"spec: slice of {t}")
        n = z3.Length(seq)
        hi = sv(node.slice.upper, sc).v if node.slice.upper else n
        lo, hi = clip_index(lo, n), clip_index(hi, n)
        return Val(t2, z3.SubSeq(seq, lo, z3.If(hi > lo, hi - lo, 0)))
    idx = sv(node.slice, sc)
    if isinstance(t, TMap):
        from .core import key_term

        return t.v.make([z3.Select(base.v[1], key_term(spec_key(idx, t.k, sc)))])
    if isinstance(t, TDict):
        return heapops.dict_read(sc.heap, base, spec_key(idx, t.k, sc))
    if isinstance(t, TSetV):
        return boolv(z3.Select(base.v, idx.v))
    if isinstance(t, TList):
        seq = heapops.list_seq(sc.heap, base)
        return eunpack(seq[norm_index(idx.v, z3.Length(seq))], t.e)
    if isinstance(t, TSeq):
        return eunpack(base.v[norm_index(idx.v, z3.Length(base.v))], t.e)
    if isinstance(t, TStr):
        return Val(STR, z3.SubString(base.v, norm_index(idx.v, z3.Length(base.v)), 1))
    if isinstance(t, TTuple):
        i = z3.simplify(idx.v)
        if z3.is_int_value(i):
            return base.v[i.as_long()]
        raise Unsupported("spec: tuple index must be literal")
    raise Unsupported(f"spec: subscript on {t}")


def spec_key(idx, kt, sc):
    from .core import compatible

    if compatible(idx.t, kt):
        return coerce(idx, kt)
    if isinstance(kt, TMap) and isinstance(idx.t, TRef):
        for dd in decl.mro_decls(idx.t.cls):
            if dd.mapping_delegate:
                return heapops.dict_as_map(sc.heap, heapops.read_field(sc.heap, idx, dd.mapping_delegate))
    if isinstance(kt, TTuple) and isinstance(idx.t, TTuple):
        return Val(kt, tuple(spec_key(x, t, sc) for x, t in zip(idx.v, kt.items)))
    if isinstance(kt, TOpt):
        return coerce(idx, kt)
    raise Unsupported(f"spec: key {idx.t} for {kt}")


def norm_index(i, n):
    i_s = z3.simplify(i)
    if z3.is_int_value(i_s):
        return i_s if i_s.as_long() >= 0 else n + i_s
    return z3.If(i >= 0, i, n + i)


def clip_index(i, n):
    i = norm_index(i, n)
    return z3.If(i < 0, 0, z3.If(i > n, n, i))


def _compare(node, sc):
    left = sv(node.left, sc)
    terms = []
    for op, rn in zip(node.ops, node.comparators):
        right = sv(rn, sc)
        if isinstance(op, (ast.In, ast.NotIn)):
            if isinstance(right.t, (TMap, TDict)):
                left = spec_key(left, right.t.k, sc)
            c = ops.contains(heapops, sc.heap, right, left)
            terms.append(c if isinstance(op, ast.In) else z3.Not(c))
        elif isinstance(op, (ast.Eq, ast.NotEq)) and isinstance(left.t, (TMap,)) and isinstance(right.t, TMap):
            e = z3.And(left.v[0] == right.v[0], left.v[1] == right.v[1])
            terms.append(e if isinstance(op, ast.Eq) else z3.Not(e))
        elif isinstance(op, (ast.Eq, ast.NotEq)) and isinstance(left.t, TSetV) and isinstance(right.t, TSetV):
            e = left.v == right.v
            terms.append(e if isinstance(op, ast.Eq) else z3.Not(e))
        elif isinstance(op, (ast.Eq, ast.NotEq)) and isinstance(left.t, TRefLike) and isinstance(right.t, TRefLike) \
                and not isinstance(left.t, TOpaque):
            # spec-level == on references is identity
            e = left.v == right.v
            terms.append(e if isinstance(op, ast.Eq) else z3.Not(e))
        else:
            terms.append(ops.compare(op, left, right))
        left = right
    return boolv(z3.And(*terms) if len(terms) > 1 else terms[0])


def _boolop(node, sc):
    vals = [sv_bool(v, sc) for v in node.values]
    return boolv(z3.And(*vals) if isinstance(node.op, ast.And) else z3.Or(*vals))


def _unaryop(node, sc):
    v = sv(node.operand, sc)
    if isinstance(node.op, ast.Not):
        return boolv(z3.Not(sbool(v, sc)))
    if isinstance(node.op, ast.USub):
        if isinstance(v.t, TInt):
            return Val(INT, -v.v)
        return Val(NUM, -to_real(v))
    if isinstance(node.op, ast.UAdd):
        return v
    raise Unsupported("spec unary op")


def _binop(node, sc):
    return ops.arith(node.op, sv(node.left, sc), sv(node.right, sc))


def _ifexp(node, sc):
    return val_ite(sv_bool(node.test, sc), sv(node.body, sc), sv(node.orelse, sc))


def _tuple(node, sc):
    items = tuple(sv(e, sc) for e in node.elts)
    return Val(TTuple([i.t for i in items]), items)


def _bound_var(argname, tname, depth):
    """Bound variables get deterministic names (argument name + quantifier nesting depth, which
    excludes capture), so that the same predicate evaluated twice on the same state yields the
    *identical* term (boolean-level reasoning then suffices for `implies(old(P), P')` clauses)."""
    t = parse_type(tname)
    consts = [z3.Const(f"{argname}?{depth}.{i}", so) for i, so in enumerate(t.sorts())]
    return t.make(consts), t


def _call(node, sc):
    f = node.func
    # forall[T](lambda x: ...)
    if isinstance(f, ast.Subscript) and isinstance(f.value, ast.Name) and f.value.id in ("forall", "exists"):
        tnames = f.slice.elts if isinstance(f.slice, ast.Tuple) else [f.slice]
        lam = node.args[0]
        if not isinstance(lam, ast.Lambda) or len(lam.args.args) != len(tnames):
            raise Unsupported("spec: forall[T](lambda x: ...) expected")
        env = dict(sc.env)
        bvars = []
        for a, tn in zip(lam.args.args, tnames):
            v, t = _bound_var(a.arg, ast.unparse(tn), sc.qdepth)
            env[a.arg] = v
            bvars += v.terms()
        sc2 = sc.with_env(env, deeper=True, local={a.arg: env[a.arg] for a in lam.args.args})
        body = sv_bool(lam.body, sc2)
        q = z3.ForAll if f.value.id == "forall" else z3.Exists
        pats = []
        for pnode in node.args[1:]:  # optional triggers: forall[T](lambda x: body, "term", ("t1", "t2") ...)
            if isinstance(pnode, ast.Constant):
                pats.append(sv(pnode.value, sc2).terms()[0])
            elif isinstance(pnode, ast.Tuple):
                pats.append(z3.MultiPattern(*[sv(e.value, sc2).terms()[0] for e in pnode.elts]))
        if pats:
            return boolv(q(bvars, body, patterns=pats))
        return boolv(q(bvars, body))
    if isinstance(f, ast.Subscript) and isinstance(f.value, ast.Name) and f.value.id == "empty_map":
        t = parse_type("Map[" + ast.unparse(f.slice).strip("()") + "]")
        return t.make(t.default_terms())
    if isinstance(f, ast.Subscript) and isinstance(f.value, ast.Name) and f.value.id == "empty_set":
        t = parse_type("SetV[" + ast.unparse(f.slice) + "]")
        return t.make(t.default_terms())
    if isinstance(f, ast.Attribute):
        # method-style helpers on spec values
        base = sv(f.value, sc)
        args = [sv(a, sc) for a in node.args]
        return _method(base, f.attr, args, sc, node)
    if not isinstance(f, ast.Name):
        raise Unsupported(f"spec call `{ast.unparse(node)}`")
    name = f.id
    if name == "old":
        return sv(node.args[0], sc.as_old())
    if name == "at_head":  # value of an expression at the head of the current loop iteration
        hs = sc.ghost.get("__head__")
        if hs is None:
            raise Unsupported("at_head() outside a loop hint")
        sc_h = Scope(hs.env, hs.heap, sc.old_heap, sc.old_env, hs.alloc, sc.alloc0, sc.ghost)
        sc_h.qdepth = sc.qdepth
        return sv(node.args[0], sc_h)
    if name == "implies":
        return boolv(z3.Implies(sv_bool(node.args[0], sc), sv_bool(node.args[1], sc)))
    if name == "iff":
        return boolv(sv_bool(node.args[0], sc) == sv_bool(node.args[1], sc))
    if name == "ite":
        return val_ite(sv_bool(node.args[0], sc), sv(node.args[1], sc), sv(node.args[2], sc))
    args = [sv(a, sc) for a in node.args]
    if name == "fresh":
        x = _deopt(args[0])
        return boolv(z3.And(z3.Not(z3.Select(sc.alloc0, x.v)), z3.Select(sc.alloc, x.v)))
    if name == "allocated":
        x = _deopt(args[0])
        return boolv(z3.Select(sc.alloc, x.v))
    if name == "view":
        x = args[0]
        for dd in decl.mro_decls(x.t.cls):
            if dd.mapping_delegate:
                return heapops.dict_as_map(sc.heap, heapops.read_field(sc.heap, x, dd.mapping_delegate))
        raise Unsupported(f"view() of {x.t}")
    if name == "contents":
        x = args[0]
        if isinstance(x.t, TDict):
            return heapops.dict_as_map(sc.heap, x)
        if isinstance(x.t, TSet):
            return Val(TSetV(x.t.e), heapops.set_arr(sc.heap, x))
        if isinstance(x.t, TList):
            return Val(TSeq(x.t.e), heapops.list_seq(sc.heap, x))
        raise Unsupported(f"contents() of {x.t}")
    if name == "keys":
        x = args[0]
        if isinstance(x.t, TDict):
            return Val(TSetV(x.t.k), heapops.dict_dom(sc.heap, x))
        if isinstance(x.t, TMap):
            return Val(TSetV(x.t.k), x.v[0])
        raise Unsupported(f"keys() of {x.t}")
    if name == "vals":
        from .core import TArr

        x = args[0]
        if isinstance(x.t, TDict):
            x = heapops.dict_as_map(sc.heap, x)
        if isinstance(x.t, TMap):
            return Val(TArr(x.t.k, x.t.v), x.v[1])
        raise Unsupported(f"vals() of {x.t}")
    if name == "len":
        return ops.length(heapops, sc.heap, args[0])
    if name == "isinstance":
        raise Unsupported("spec: use is_a(x, 'Class')")
    if name == "is_a":
        x = _deopt(args[0])
        cname = node.args[1].value
        return boolv(heapops.is_instance_term(sc.heap, x.v, cname))
    if name == "exact_class":
        x = _deopt(args[0])
        cname = node.args[1].value
        return boolv(heapops.class_of(sc.heap, x.v) == decl.CLASSES[cname].id)
    if name == "same_class":
        return boolv(heapops.class_of(sc.heap, args[0].v) == heapops.class_of(sc.heap, args[1].v))
    if name == "subclass_of":  # class of a is subclass of class of b
        return boolv(heapops.subclass_term(heapops.class_of(sc.heap, args[0].v), heapops.class_of(sc.heap, args[1].v)))
    if name == "store":
        m, k, v = args
        if isinstance(m.t, TMap):
            return Val(m.t, (z3.Store(m.v[0], k.v, z3.BoolVal(True)), z3.Store(m.v[1], k.v, coerce(v, m.t.v).v)))
        if isinstance(m.t, TSetV):
            return Val(m.t, z3.Store(m.v, k.v, sbool(v, sc)))
    if name == "remove":
        m, k = args
        if isinstance(m.t, TMap):
            return Val(m.t, (z3.Store(m.v[0], k.v, z3.BoolVal(False)), z3.Store(m.v[1], k.v, m.t.v.default_terms()[0])))
    if name == "restrict":
        m, s = args
        dflt = m.t.v.default_terms()[0]
        k = z3.Const(fresh_name("k"), m.t.k.sort())
        return Val(m.t, (z3.SetIntersect(m.v[0], s.v), z3.Lambda([k], z3.If(z3.Select(s.v, k), z3.Select(m.v[1], k), dflt))))
    if name == "rev":
        x = args[0]
        if isinstance(x.t, TList):
            x = Val(TSeq(x.t.e), heapops.list_seq(sc.heap, x))
        return Val(x.t, ops.seq_rev(x.v))
    if name == "mapf":  # mapf(seq_of_refs, "field")
        x = args[0]
        if isinstance(x.t, TList):
            x = Val(TSeq(x.t.e), heapops.list_seq(sc.heap, x))
        fname = node.args[1].value
        d, ft = decl.find_field(x.t.e.cls, fname)
        arr = sc.heap.get(heapops.field_keys(d.short, fname, ft)[0], ft.sort())
        return Val(TSeq(ft), ops.seq_map_field(arr, x.v, ft.sort()))
    if name in ("exp", "log"):
        from .theory import zf

        return Val(NUM, zf("Exp" if name == "exp" else "Log")(to_real(args[0])))
    if name == "pw":
        return Val(NUM, ops.power(to_real(args[0]), to_real(args[1])))
    if name == "abs":
        x = args[0]
        if isinstance(x.t, TInt):
            return Val(INT, z3.If(x.v >= 0, x.v, -x.v))
        return Val(NUM, z3.If(to_real(x) >= 0, to_real(x), -to_real(x)))
    if name == "floor":
        return Val(INT, z3.ToInt(to_real(args[0])))
    if name == "after_first":  # the part of s after the first occurrence of sep (s.split(sep, 1)[1])
        s_, sep = args[0].v, args[1].v
        i = z3.IndexOf(s_, sep, 0)
        return Val(STR, z3.SubString(s_, i + z3.Length(sep), z3.Length(s_) - i - z3.Length(sep)))
    if name == "fmt":  # fmt(fstring, a, b, ...): python's fstring.format(a, b, ...) on strings
        from .calls import str_format_fn

        return Val(STR, str_format_fn(len(args) - 1)(*[a.v for a in args]))
    if name == "hash_num":
        from .calls import HashNum

        return Val(INT, HashNum(to_real(args[0])))
    if name == "hash_tuple3":  # hash((type(q), number, unit)) as computed by the engine's model of hash()
        from .calls import HashCls, HashNum

        f = z3.Function("HashTup3", z3.IntSort(), z3.IntSort(), z3.IntSort(), z3.IntSort())
        return Val(INT, f(HashCls(heapops.class_of(sc.heap, args[0].v)), HashNum(to_real(args[1])), args[2].v))
    if name == "hash_items_kv":  # hash of the item set given as (keys, values)
        return Val(INT, ops.hash_items(args[0].v, args[1].v))
    if name == "hash_items":
        m = args[0]
        return Val(INT, ops.hash_items(m.v[0], m.v[1]))
    if name == "is_none":
        x = args[0]
        return boolv(val_eq(x, NONEV))
    if name == "some":  # value of an Opt known to be non-None
        return _deopt(args[0])
    if name == "is_exc":  # union value holds an exception object
        from .core import TExcObj

        x = args[0]
        if isinstance(x.t, TUnion):
            return boolv(z3.Or(*[x.v[0] == i for i, a in enumerate(x.t.alts) if isinstance(a, TExcObj)]))
        return boolv(isinstance(x.t, TExcObj))
    if name == "num_of":  # numeric alternative of a union
        x = args[0]
        for i, a in enumerate(x.t.alts):
            if isinstance(a, (TNum, TInt)):
                return x.v[1][i]
        raise Unsupported("num_of")
    if name == "tag":  # union tag
        return Val(INT, args[0].v[0])
    if name == "alt":
        i = node.args[1].value
        return args[0].v[1][i]
    if name == "startswith":
        return boolv(z3.PrefixOf(args[1].v, args[0].v))
    if name == "endswith":
        return boolv(z3.SuffixOf(args[1].v, args[0].v))
    if name == "reg_of_class":
        # the registry a Quantity / Unit class was generated for (a class attribute: the same for all instances of one class)
        f = z3.Function("RegOfClass", z3.IntSort(), z3.IntSort())
        return Val(TRef("GenericPlainRegistry"), f(heapops.class_of(sc.heap, args[0].v)))
    if name == "truthy":
        return boolv(ops.truth(heapops, sc.heap, args[0]))
    if name in ("int_str_ok", "num_str_ok", "int_of_str", "num_of_str"):
        from . import calls as _c

        if name == "int_str_ok":
            return boolv(_c.IntStrOK(args[0].v))
        if name == "num_str_ok":
            return boolv(_c.NumStrOK(args[0].v))
        if name == "int_of_str":
            return Val(INT, _c.IntOfStr(args[0].v))
        return Val(NUM, _c.NumOfStr(args[0].v, args[1].v))
    if name == "is_int_typed":
        return boolv(ops.IsIntTyped(to_real(args[0])))
    if name in decl.PREDICATES:
        p = decl.PREDICATES[name]
        if len(args) != len(p.params):
            raise Unsupported(f"predicate {name}: arity")
        env = {}
        for (pn, pt), a in zip(p.params, args):
            env[pn] = coerce(a, pt) if not isinstance(pt, TRef) else a
        return sv(p.node, sc.with_env(env, local=env))
    if name in decl.SPECFNS:
        return specfn_apply(name, args)
    raise Unsupported(f"spec: unknown function {name}")


def _deopt(x):
    return x.v[1] if isinstance(x.t, TOpt) else x


def _method(base, attr, args, sc, node):
    t = base.t
    if isinstance(t, TStr):
        if attr == "startswith":
            return boolv(z3.PrefixOf(args[0].v, base.v))
        if attr == "endswith":
            return boolv(z3.SuffixOf(args[0].v, base.v))
        if attr == "lower" and not args:
            from .calls import StrLower

            ops.USED.add("strlower")
            return Val(STR, StrLower(base.v))
    raise Unsupported(f"spec: method .{attr} on {t}")


_DISPATCH = {
    ast.Constant: _constant,
    ast.Name: _name,
    ast.Attribute: _attribute,
    ast.Subscript: _subscript,
    ast.Compare: _compare,
    ast.BoolOp: _boolop,
    ast.UnaryOp: _unaryop,
    ast.BinOp: _binop,
    ast.IfExp: _ifexp,
    ast.Tuple: _tuple,
    ast.Call: _call,
}
