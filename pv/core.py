"""Types, symbolic values and the symbolic state (heap model of DESIGN.md 2.3)."""
from __future__ import annotations

import itertools
import re

import z3

_counter = itertools.count()


def fresh_name(prefix: str) -> str:
    return f"{prefix}!{next(_counter)}"


class Unsupported(Exception):
    """Construct outside the accepted subset (fail-closed)."""


class StaleContract(Exception):
    """Contract no longer matches the shape of the code."""


# --------------------------------------------------------------------------- types


class T:
    simple = True  # one z3 term

    def sorts(self):
        return [self.sort()]

    def make(self, terms):
        return Val(self, terms[0])

    def fresh(self, prefix="v"):
        return self.make([z3.Const(fresh_name(prefix), s) for s in self.sorts()])

    def default_terms(self):
        raise Unsupported(f"no default for {self}")

    def __repr__(self):
        return self.name

    def __eq__(self, other):
        return repr(self) == repr(other)

    def __hash__(self):
        return hash(repr(self))


class TNum(T):
    name = "Num"

    def sort(self):
        return z3.RealSort()

    def default_terms(self):
        return [z3.RealVal(0)]


class TInt(T):
    name = "Int"

    def sort(self):
        return z3.IntSort()

    def default_terms(self):
        return [z3.IntVal(0)]


class TBool(T):
    name = "Bool"

    def sort(self):
        return z3.BoolSort()

    def default_terms(self):
        return [z3.BoolVal(False)]


class TStr(T):
    name = "Str"

    def sort(self):
        return z3.StringSort()

    def default_terms(self):
        return [z3.StringVal("")]


class TNone(T):
    name = "None"

    def sorts(self):
        return []

    def make(self, terms):
        return Val(self, None)

    def default_terms(self):
        return []


class TRefLike(T):
    """Everything represented by an integer reference."""

    def sort(self):
        return z3.IntSort()

    def default_terms(self):
        return [z3.IntVal(0)]


class TRef(TRefLike):
    def __init__(self, cls):
        self.cls = cls
        self.name = f"Ref[{cls}]"


class TOpaque(TRefLike):
    """A value of which only identity/equality is modelled."""

    def __init__(self, tag="Opaque"):
        self.tag = tag
        self.name = tag


_key_sorts = {}


def key_sort(t):
    """z3 sort used to index dict contents by keys of type t (compound keys become a tuple datatype)."""
    sorts = t.sorts()
    if len(sorts) == 1:
        return sorts[0]
    name = "Key_" + "".join(ch if ch.isalnum() else "_" for ch in repr(t))
    if name not in _key_sorts:
        dt = z3.Datatype(name)
        dt.declare("mk_" + name, *[(f"{name}_f{i}", so) for i, so in enumerate(sorts)])
        _key_sorts[name] = dt.create()
    return _key_sorts[name]


def key_term(v):
    if isinstance(v.t, TOpt):
        # normalise: a None key always carries the default inner value
        inner = v.v[1]
        dflt = v.t.inner.default_terms()
        isnone = z3.simplify(v.v[0]) if not isinstance(v.v[0], bool) else z3.BoolVal(v.v[0])
        if z3.is_false(isnone):
            terms = [isnone] + list(inner.terms())
        elif z3.is_true(isnone):
            terms = [isnone] + list(dflt)
        else:
            terms = [isnone] + [z3.If(isnone, d, x) for x, d in zip(inner.terms(), dflt)]
        return key_sort(v.t).constructor(0)(*terms)
    terms = v.terms()
    if len(terms) == 1:
        return terms[0]
    return key_sort(v.t).constructor(0)(*terms)


def esort(t):
    """z3 sort of an element / key of type t inside a set, sequence or dict (compound -> tuple datatype)"""
    return key_sort(t)


def epack(v):
    return key_term(v)


def eunpack(term, t):
    """inverse of epack: rebuild a value of type t from its element term"""
    sorts = t.sorts()
    if len(sorts) == 1:
        return t.make([term])
    dt = key_sort(t)
    return t.make([dt.accessor(0, i)(term) for i in range(len(sorts))])


class TDict(TRefLike):
    def __init__(self, k, v, udict=False, flavour=None):
        """flavour: python class of the dict object: 'dict', 'udict' (pint.util.udict) or 'ddict'
        (collections.defaultdict(int)).  Objects of different classes are distinct objects, so each
        flavour has its own content arrays (no aliasing across flavours).  udict and ddict return 0
        for missing keys."""
        self.k, self.v = k, v
        self.flavour = flavour or ("udict" if udict else "dict")
        self.udict = self.flavour in ("udict", "ddict")
        self.name = f"{ {'dict': 'Dict', 'udict': 'UDict', 'ddict': 'DDict'}[self.flavour] }[{k},{v}]"

    def ksort(self):
        return key_sort(self.k)

    def dom_key(self):
        return f"dom<{self.k},{self.v}>@{self.flavour}"

    def val_key(self, i):
        return f"val<{self.k},{self.v}>@{self.flavour}#{i}"

    def card_key(self):
        return f"card<{self.k}>"


class TSet(TRefLike):
    def __init__(self, e):
        self.e = e
        self.name = f"Set[{e}]"

    def key(self):
        return f"set<{self.e}>"


class TList(TRefLike):
    def __init__(self, e):
        self.e = e
        self.name = f"List[{e}]"

    def key(self):
        return f"list<{self.e}>"


class TSeq(T):
    """Immutable homogeneous sequence value (tuple of unknown length)."""

    def __init__(self, e):
        self.e = e
        self.name = f"Seq[{e}]"

    def sort(self):
        return z3.SeqSort(esort(self.e))

    def default_terms(self):
        return [z3.Empty(self.sort())]


class TTuple(T):
    simple = False

    def __init__(self, items):
        self.items = list(items)
        self.name = "Tuple[" + ",".join(map(repr, self.items)) + "]"

    def sorts(self):
        return [s for t in self.items for s in t.sorts()]

    def make(self, terms):
        out, i = [], 0
        for t in self.items:
            n = len(t.sorts())
            out.append(t.make(terms[i : i + n]))
            i += n
        return Val(self, tuple(out))

    def default_terms(self):
        return [x for t in self.items for x in t.default_terms()]


class TOpt(T):
    simple = False

    def __init__(self, inner):
        self.inner = inner
        self.name = f"Opt[{inner}]"

    def sorts(self):
        return [z3.BoolSort()] + self.inner.sorts()

    def make(self, terms):
        return Val(self, (terms[0], self.inner.make(terms[1:])))

    def default_terms(self):
        return [z3.BoolVal(True)] + self.inner.default_terms()


class TUnion(T):
    """Tagged union of alternatives (tag i selects alternative i)."""

    simple = False

    def __init__(self, alts):
        self.alts = list(alts)
        self.name = "Union[" + ",".join(map(repr, self.alts)) + "]"

    def sorts(self):
        return [z3.IntSort()] + [s for t in self.alts for s in t.sorts()]

    def make(self, terms):
        out, i = [], 1
        for t in self.alts:
            n = len(t.sorts())
            out.append(t.make(terms[i : i + n]))
            i += n
        return Val(self, (terms[0], tuple(out)))

    def default_terms(self):
        return [z3.IntVal(0)] + [x for t in self.alts for x in t.default_terms()]


class TExc(T):
    """Exception object: python-level (class name, args)."""

    simple = False
    name = "Exc"

    def sorts(self):
        raise Unsupported("exception objects cannot be stored symbolically")


class TExcObj(T):
    """An exception instance used as a value (returned / stored), of a statically known class;
    its arguments are not modelled."""

    simple = False

    def __init__(self, cls):
        self.cls = cls
        self.name = f"Exc[{cls}]"

    def sorts(self):
        return []

    def make(self, terms):
        return Val(self, None)

    def default_terms(self):
        return []


NUM, INT, BOOL, STR, NONE = TNum(), TInt(), TBool(), TStr(), TNone()
NUMTYPE = TOpaque("NumType")  # a numeric type object (float, Fraction, Decimal)
OTHER = TOpaque("Other")  # an arbitrary object of no modelled class
TYPEOBJ = TOpaque("Type")  # a class object
FN = TOpaque("Fn")


def parse_type(s: str) -> T:
    s = s.strip()
    m = re.match(r"^(\w+)\[(.*)\]$", s)
    if not m:
        simple = {
            "Num": NUM,
            "Int": INT,
            "Bool": BOOL,
            "Str": STR,
            "None": NONE,
            "NumType": NUMTYPE,
            "Other": OTHER,
            "Type": TYPEOBJ,
            "Fn": FN,
            "Opaque": TOpaque(),
        }
        if s in simple:
            return simple[s]
        if re.match(r"^\w+$", s):
            return TOpaque(s)
        raise ValueError(f"bad type {s!r}")
    head, body = m.group(1), m.group(2)
    parts, depth, cur = [], 0, ""
    for ch in body:
        if ch == "[":
            depth += 1
        elif ch == "]":
            depth -= 1
        if ch == "," and depth == 0:
            parts.append(cur)
            cur = ""
        else:
            cur += ch
    parts.append(cur)
    if head == "Ref":
        return TRef(body.strip())
    if head == "Exc":
        return TExcObj(body.strip())
    if head in ("Dict", "UDict", "DDict"):
        return TDict(parse_type(parts[0]), parse_type(parts[1]),
                     flavour={"Dict": "dict", "UDict": "udict", "DDict": "ddict"}[head])
    if head == "Set":
        return TSet(parse_type(parts[0]))
    if head == "List":
        return TList(parse_type(parts[0]))
    if head == "Seq":
        return TSeq(parse_type(parts[0]))
    if head == "Tuple":
        return TTuple([parse_type(p) for p in parts])
    if head == "Opt":
        return TOpt(parse_type(body))
    if head == "Map":
        return TMap(parse_type(parts[0]), parse_type(parts[1]))
    if head == "SetV":
        return TSetV(parse_type(parts[0]))
    if head == "Arr":
        return TArr(parse_type(parts[0]), parse_type(parts[1]))
    if head == "Union":
        return TUnion([parse_type(p) for p in parts])
    raise ValueError(f"bad type {s!r}")


# --------------------------------------------------------------------------- values


class Val:
    """A symbolic value: `t` is its static type; `v` is
    - a z3 term for simple types,
    - None for NONE,
    - a tuple of Vals for TTuple,
    - (isnone_term, inner Val) for TOpt,
    - (tag_term, tuple of Vals) for TUnion.
    """

    __slots__ = ("t", "v")

    def __init__(self, t, v):
        self.t, self.v = t, v

    def terms(self):
        t = self.t
        if isinstance(t, (TNone, TExcObj)):
            return []
        if isinstance(t, TTuple):
            return [x for it in self.v for x in it.terms()]
        if isinstance(t, TOpt):
            return [self.v[0]] + self.v[1].terms()
        if isinstance(t, TUnion):
            return [self.v[0]] + [x for it in self.v[1] for x in it.terms()]
        return [self.v]

    def __repr__(self):
        return f"<{self.t}: {self.v}>"


class ExcVal:
    """A raised / constructed exception (python level)."""

    def __init__(self, cls, args=(), node=None):
        self.cls, self.args, self.node = cls, list(args), node
        self.t = TExc()

    def __repr__(self):
        return f"<exc {self.cls}>"


class FuncVal:
    """A python-level callable known to the engine (builtin, class, bound method)."""

    def __init__(self, kind, name, recv=None, extra=None):
        self.kind, self.name, self.recv, self.extra = kind, name, recv, extra
        self.t = FN

    def __repr__(self):
        return f"<fn {self.kind}:{self.name}>"


def num(x):
    if isinstance(x, int):
        return Val(INT, z3.IntVal(x))
    return Val(NUM, z3.RealVal(x))


def boolv(b):
    return Val(BOOL, z3.BoolVal(b) if isinstance(b, bool) else b)


def strv(s):
    return Val(STR, z3.StringVal(s) if isinstance(s, str) else s)


NONEV = Val(NONE, None)


def is_numeric(v):
    return isinstance(v, Val) and isinstance(v.t, (TNum, TInt))


def to_real(v):
    if isinstance(v.t, TInt):
        return z3.ToReal(v.v)
    if isinstance(v.t, TBool):
        return z3.If(v.v, z3.RealVal(1), z3.RealVal(0))
    return v.v


def coerce(v: Val, t: T) -> Val:
    """Convert value v to static type t (for storing / merging); fail-closed."""
    if v.t == t:
        return v
    if isinstance(t, TNum) and isinstance(v.t, (TInt, TBool)):
        return Val(NUM, to_real(v))
    if isinstance(t, TInt) and isinstance(v.t, TBool):
        return Val(INT, z3.If(v.v, z3.IntVal(1), z3.IntVal(0)))
    if isinstance(t, TOpt):
        if isinstance(v.t, TNone):
            return t.make(t.default_terms())
        if isinstance(v.t, TOpt):
            return Val(t, (v.v[0], coerce(v.v[1], t.inner)))
        return Val(t, (z3.BoolVal(False), coerce(v, t.inner)))
    if isinstance(t, TUnion):
        if isinstance(v, ExcVal):
            for i, alt in enumerate(t.alts):
                if isinstance(alt, TExcObj) and alt.cls == v.cls:
                    alts = [a.make(a.default_terms()) for a in t.alts]
                    return Val(t, (z3.IntVal(i), tuple(alts)))
            raise Unsupported(f"cannot coerce exception {v.cls} into {t}")
        if isinstance(v.t, TUnion):
            raise Unsupported(f"union to union coercion {v.t} -> {t}")
        for i, alt in enumerate(t.alts):
            if compatible(v.t, alt):
                alts = [a.make(a.default_terms()) for a in t.alts]
                alts[i] = coerce(v, alt)
                return Val(t, (z3.IntVal(i), tuple(alts)))
        raise Unsupported(f"cannot coerce {v.t} into {t}")
    if isinstance(t, TTuple) and isinstance(v.t, TTuple) and len(t.items) == len(v.t.items):
        return Val(t, tuple(coerce(a, b) for a, b in zip(v.v, t.items)))
    if isinstance(t, TRef) and isinstance(v.t, TRef):
        return Val(t, v.v)  # class relation is tracked dynamically
    if isinstance(t, TDict) and isinstance(v.t, TDict) and t.k == v.t.k and t.v == v.t.v and t.flavour == v.t.flavour:
        return Val(t, v.v)
    if isinstance(t, TRefLike) and isinstance(v.t, TRefLike) and type(t) is type(v.t) and isinstance(t, TOpaque):
        return Val(t, v.v)
    raise Unsupported(f"cannot coerce {v.t} to {t}")


def compatible(a: T, b: T) -> bool:
    if a == b:
        return True
    if isinstance(b, TNum) and isinstance(a, (TInt, TBool)):
        return True
    if isinstance(a, TRef) and isinstance(b, TRef):
        return True
    if isinstance(a, TDict) and isinstance(b, TDict):
        return a.k == b.k and a.v == b.v and a.flavour == b.flavour
    return False


def val_eq(a: Val, b: Val):
    """z3 Bool: python `==` on modelled values of (coercible) equal type; None if not comparable statically."""
    if is_numeric(a) or isinstance(a.t, TBool):
        if is_numeric(b) or isinstance(b.t, TBool):
            if isinstance(a.t, TInt) and isinstance(b.t, TInt):
                return a.v == b.v
            if isinstance(a.t, TBool) and isinstance(b.t, TBool):
                return a.v == b.v
            return to_real(a) == to_real(b)
        if isinstance(b.t, (TOpt, TUnion)):
            return val_eq(b, a)
        return z3.BoolVal(False)
    if isinstance(a.t, TNone):
        if isinstance(b.t, TNone):
            return z3.BoolVal(True)
        if isinstance(b.t, TOpt):
            return b.v[0]
        return z3.BoolVal(False)
    if isinstance(a.t, TOpt):
        if isinstance(b.t, TNone):
            return a.v[0]
        if isinstance(b.t, TOpt):
            return z3.Or(z3.And(a.v[0], b.v[0]), z3.And(z3.Not(a.v[0]), z3.Not(b.v[0]), val_eq(a.v[1], b.v[1])))
        return z3.And(z3.Not(a.v[0]), val_eq(a.v[1], b))
    if isinstance(b.t, (TOpt, TNone)):
        return val_eq(b, a)
    if isinstance(a.t, TUnion):
        if isinstance(b.t, TUnion):
            if a.t != b.t:
                raise Unsupported("== between different unions")
            return z3.And(
                a.v[0] == b.v[0],
                *[z3.Implies(a.v[0] == i, val_eq(x, y)) for i, (x, y) in enumerate(zip(a.v[1], b.v[1]))],
            )
        cs = []
        for i, alt in enumerate(a.v[1]):
            try:
                e = val_eq(alt, b)
            except Unsupported:
                e = z3.BoolVal(False)
            cs.append(z3.And(a.v[0] == i, e))
        return z3.Or(*cs)
    if isinstance(b.t, TUnion):
        return val_eq(b, a)
    if isinstance(a.t, TStr) and isinstance(b.t, TStr):
        return a.v == b.v
    if isinstance(a.t, TTuple) and isinstance(b.t, TTuple):
        if len(a.v) != len(b.v):
            return z3.BoolVal(False)
        return z3.And(*[val_eq(x, y) for x, y in zip(a.v, b.v)]) if a.v else z3.BoolVal(True)
    if isinstance(a.t, TSeq) and isinstance(b.t, TSeq):
        return a.v == b.v
    if isinstance(a.t, TOpaque) and isinstance(b.t, TOpaque):
        return a.v == b.v
    if isinstance(a.t, (TArr, TSetV)) and type(a.t) is type(b.t) and a.t == b.t:
        return a.v == b.v
    if type(a.t) is not type(b.t) and not (isinstance(a.t, TRefLike) and isinstance(b.t, TRefLike)):
        return z3.BoolVal(False)
    raise Unsupported(f"== on {a.t} and {b.t} needs a contract")


def val_ite(c, a: Val, b: Val) -> Val:
    if a.t != b.t:
        if compatible(a.t, b.t):
            a = coerce(a, b.t)
        elif compatible(b.t, a.t):
            b = coerce(b, a.t)
        elif isinstance(a.t, TNone) or isinstance(b.t, TNone):
            inner = b.t if isinstance(a.t, TNone) else a.t
            if isinstance(inner, TOpt):
                t = inner
            else:
                t = TOpt(inner)
            a, b = coerce(a, t), coerce(b, t)
        else:
            raise Unsupported(f"merge of {a.t} and {b.t}")
    t = a.t
    return t.make([z3.If(c, x, y) for x, y in zip(a.terms(), b.terms())])


# --------------------------------------------------------------------------- state


class Heap:
    """SSA heap: key -> z3 array (Int -> sort).  Keys are created lazily; the first
    version of each key is recorded in `initial` (shared between all copies so that
    `old(..)` sees the same symbol)."""

    def __init__(self, initial=None, cur=None, tag="H", fresh=None):
        self.initial = initial if initial is not None else {}
        self.cur = dict(cur) if cur is not None else {}
        self.tag = tag
        # ids of the references allocated since function entry (State.new_ref), shared by all copies of this run:
        # a term built from entry-state symbols only cannot denote one of them (A8)
        self.fresh = fresh if fresh is not None else set()

    def copy(self):
        return Heap(self.initial, self.cur, self.tag, self.fresh)

    def get(self, key, sort):
        if key not in self.cur:
            if key not in self.initial:
                self.initial[key] = z3.Const(f"{self.tag}0_{key}", z3.ArraySort(z3.IntSort(), sort))
            self.cur[key] = self.initial[key]
        return self.cur[key]

    def set(self, key, arr):
        self.cur[key] = arr

    def initial_get(self, key, sort):
        if key not in self.initial:
            self.initial[key] = z3.Const(f"{self.tag}0_{key}", z3.ArraySort(z3.IntSort(), sort))
        return self.initial[key]

    def old(self):
        """Heap as at function entry (shares `initial`)."""
        return Heap(self.initial, dict(self.initial), self.tag, self.fresh)

    def entry_term(self, e, _memo={}):
        """True if `e` is built only from function parameters and entry-state heap arrays (no fresh reference, no
        havoc'd or updated array): it denotes something that existed when the function was entered."""
        k = e.get_id()
        if k in _memo:
            return _memo[k]
        ok = True
        stack, seen = [e], set()
        while stack and ok:
            x = stack.pop()
            if x.get_id() in seen:
                continue
            seen.add(x.get_id())
            if z3.is_quantifier(x) or z3.is_var(x):
                ok = False
            elif z3.is_app(x):
                d = x.decl()
                if x.num_args() == 0 and d.kind() == z3.Z3_OP_UNINTERPRETED:
                    n = d.name()
                    if x.get_id() in self.fresh or not (n in ENTRY_PARAMS or n.startswith(self.tag + "0_")):
                        ok = False
                elif d.kind() not in (z3.Z3_OP_SELECT, z3.Z3_OP_ANUM, z3.Z3_OP_UNINTERPRETED) and x.num_args() > 0:
                    ok = False
                elif d.kind() == z3.Z3_OP_UNINTERPRETED and x.num_args() > 0:
                    ok = False
                else:
                    stack.extend(x.children())
        _memo[k] = ok
        return ok

    def select(self, arr, idx):
        """arr[idx], skipping updates at references that were allocated after function entry when idx is an entry-state term"""
        if self.fresh and self.entry_term(idx):
            while z3.is_store(arr) and arr.arg(1).get_id() in self.fresh:
                arr = arr.arg(0)
        return z3.Select(arr, idx)


ENTRY_PARAMS = set()  # names of the constants created for the parameters of the function under verification


def register_entry_params(env):
    """Record the symbolic constants that make up the parameter values (called once per function, at entry)."""
    ENTRY_PARAMS.clear()
    Heap.entry_term.__defaults__[0].clear()

    def walk(e):
        stack, seen = [e], set()
        while stack:
            x = stack.pop()
            if x.get_id() in seen:
                continue
            seen.add(x.get_id())
            if z3.is_app(x):
                if x.num_args() == 0 and x.decl().kind() == z3.Z3_OP_UNINTERPRETED:
                    ENTRY_PARAMS.add(x.decl().name())
                stack.extend(x.children())

    def terms_of(v):
        if isinstance(v, Val):
            if isinstance(v.v, tuple):
                for y in v.v:
                    if isinstance(y, (Val, tuple, list)):
                        yield from terms_of(y) if isinstance(y, Val) else (t for z in y for t in terms_of(z))
                    elif z3.is_expr(y):
                        yield y
            elif z3.is_expr(v.v):
                yield v.v

    for v in env.values():
        for t in terms_of(v):
            walk(t)


class State:
    def __init__(self):
        self.env = {}
        self.heap = Heap()
        self.pc = []  # path condition: list of z3 Bool
        self.alloc = z3.Const("alloc0", z3.ArraySort(z3.IntSort(), z3.BoolSort()))
        self.alloc0 = self.alloc
        self.ghost = {}
        self.old_env = {}
        self.trace = []  # human-readable branch decisions

    def copy(self):
        s = State.__new__(State)
        s.env = dict(self.env)
        s.heap = self.heap.copy()
        s.pc = list(self.pc)
        s.alloc = self.alloc
        s.alloc0 = self.alloc0
        s.ghost = dict(self.ghost)
        s.old_env = self.old_env
        s.trace = list(self.trace)
        return s

    def assume(self, c):
        c = z3.simplify(c) if not isinstance(c, bool) else z3.BoolVal(c)
        if z3.is_true(c):
            return
        cid = c.get_id()
        if any(h.get_id() == cid for h in self.pc):
            return  # literally the same fact again (e.g. a callee precondition already known)
        self.pc.append(c)

    def infeasible(self):
        return any(z3.is_false(c) for c in self.pc)

    def new_ref(self, prefix="obj"):
        r = z3.Int(fresh_name(prefix))
        self.heap.fresh.add(r.get_id())
        self.pc.append(z3.Not(z3.Select(self.alloc, r)))
        self.pc.append(r > 0)
        self.alloc = z3.Store(self.alloc, r, z3.BoolVal(True))
        return r


# --------------------------------------------------------------------------- pure (spec-level) maps and sets


class TMap(T):
    """Immutable map value: (dom array, val array); val is `default` outside dom."""

    simple = False

    def __init__(self, k, v):
        self.k, self.v = k, v
        self.name = f"Map[{k},{v}]"

    def ksort(self):
        return key_sort(self.k)

    def sorts(self):
        return [z3.ArraySort(self.ksort(), z3.BoolSort()), z3.ArraySort(self.ksort(), self.v.sort())]

    def make(self, terms):
        return Val(self, (terms[0], terms[1]))

    def default_terms(self):
        return [z3.K(self.ksort(), z3.BoolVal(False)), z3.K(self.ksort(), self.v.default_terms()[0])]


class TSetV(T):
    """Immutable set value: characteristic array."""

    def __init__(self, e):
        self.e = e
        self.name = f"SetV[{e}]"

    def sort(self):
        return z3.ArraySort(esort(self.e), z3.BoolSort())

    def default_terms(self):
        return [z3.K(esort(self.e), z3.BoolVal(False))]


class TArr(T):
    """Total function K -> V as a value (a z3 array)."""

    def __init__(self, k, v):
        self.k, self.v = k, v
        self.name = f"Arr[{k},{v}]"

    def sort(self):
        return z3.ArraySort(self.k.sort(), self.v.sort())

    def default_terms(self):
        return [z3.K(self.k.sort(), self.v.default_terms()[0])]


def _val_terms(self):
    t = self.t
    if isinstance(t, TMap):
        return [self.v[0], self.v[1]]
    return _orig_terms(self)


_orig_terms = Val.terms
Val.terms = _val_terms
