"""Orchestration of one property check: generate obligations from /repo's current tree, discharge,
refute/replay what fails, run bounded stand-ins, match known findings, write evidence."""
from __future__ import annotations

import importlib
import json
import os
import re
import sys
import time
import traceback

import z3

from . import REPO, VERIF, decl, monitor, replay, solve, source, verify
from .cli import DROPPED, TRUSTED_BASE
from .core import Unsupported

BASELINE = os.path.join(VERIF, "baseline_obligations.json")
KNOWN = os.path.join(VERIF, "known_findings.json")


def load_known():
    if not os.path.exists(KNOWN):
        return []
    with open(KNOWN) as f:
        return json.load(f)


def load_baseline():
    if not os.path.exists(BASELINE):
        return {}
    with open(BASELINE) as f:
        return json.load(f)


def functions_for(prop):
    keys = [k for k, c in decl.CONTRACTS.items() if prop in c.props]
    lemmas = [n for n, l in decl.LEMMAS.items() if prop in l.props]
    structural = [(n, fn) for n, fn, props in decl.STRUCTURAL if prop in props]
    return keys, lemmas, structural


def witness_matches(entry, inputs_desc):
    """Does the concrete counterexample satisfy the known finding's witness predicate?"""
    pred = entry.get("witness_predicate")
    if not pred:
        return True
    if inputs_desc is None:
        return False
    try:
        b = replay.Builder()
        env = {k: b.build(v) for k, v in inputs_desc.items()}
        uni = {"Str": monitor._str_universe(list(env.values()))}
        return bool(monitor.cv(pred, monitor.CScope(env, env, frozenset(), uni)))
    except Exception:
        return False


def refute(ob, verdict, prop, case_name, model=None):
    """Refutation mode for one failed obligation. Returns dict describing the outcome."""
    out = {"obligation": ob.name, "function": getattr(ob, "func", None), "solver": verdict.raw,
           "backend": verdict.backend, "reason": verdict.reason, "trace": ob.trace[-12:], "inputs": None,
           "replayed": False, "confirmed": False}
    if ob.expect != "valid":
        out["note"] = "vacuity check failed: the contract's assumptions are contradictory on this path"
        return out
    if model is None:
        try:
            r, model, _ = solve.resolve_in_process(ob)
        except Exception as e:  # noqa: BLE001
            r, model = "error", None
            out["note"] = f"re-solve failed: {e}"
        out["solver_inprocess"] = r
    if model is None:
        return out
    try:
        desc = replay.describe_inputs(ob, model)
        out["inputs"] = desc
    except (replay.CannotConcretise, Exception) as e:  # noqa: BLE001
        out["note"] = f"model could not be concretised: {type(e).__name__}: {e}"
        return out
    func = getattr(ob, "func", "")
    if not func or func.startswith("lemma:") or func not in decl.CONTRACTS:
        out["note"] = "lemma obligation: no single real call to replay"
        return out
    try:
        res = replay.run_descriptor(func, case_name, desc)
        out["replayed"] = True
        out["observed"] = res
        out["confirmed"] = bool(res.get("failed"))
    except Exception as e:  # noqa: BLE001
        out["note"] = f"replay failed to run: {type(e).__name__}: {e}"
    return out


def case_of(name):
    m = re.search(r"\[(\w+)\]/", name)
    return m.group(1) if m else None


def run_property(prop, tier="quick", seed=0, write_baseline=False, only=None, verbose=False, no_standins=False):
    t_start = time.time()
    props = importlib.import_module("contracts.props")
    meta = props.PROPS.get(prop)
    if meta is None:
        print(f"unknown property {prop}", file=sys.stderr)
        return 3
    keys, lemmas, structural = functions_for(prop)
    if only:
        keys = [k for k in keys if re.search(only, k)]
        lemmas = [l for l in lemmas if re.search(only, l)]
    results = []
    for k in keys:
        c = decl.CONTRACTS[k]
        if c.trusted:
            continue
        results.append(verify.verify_function(k))
    for l in lemmas:
        results.append(verify.verify_lemma(l))
    struct_results = []
    for n, fn in structural:
        try:
            ok, msg = fn()
        except Exception as e:  # noqa: BLE001
            ok, msg = False, f"{type(e).__name__}: {e}"
        struct_results.append((n, ok, msg))
    gen_count = 0
    for gprop, gname, gfn in decl.GENERATORS:
        if gprop == prop and not only:
            fr = verify.FunctionResult(f"generated:{gname}")
            fr.path, fr.lineno, fr.sha1 = "<data>", 0, ""
            fr.obligations = gfn()
            gen_count += len(fr.obligations)
            results.append(fr)
    undecided = []
    for r in results:
        if r.status != "ok":
            undecided.append(f"{r.key}: {r.status.upper()}: {r.message}")
    obligations = [ob for r in results for ob in r.obligations]
    proof_obs = [ob for ob in obligations if ob.expect == "valid"]
    cover_obs = [ob for ob in obligations if ob.expect != "valid"]
    t_solve = time.time()
    verdicts = solve.solve_all(proof_obs)
    cover_verdicts = solve.solve_all(cover_obs, timeout_ms=4000, use_cvc5=False)
    # unknowns: ground instantiation first (proves or yields a candidate model), then a 4x budget alone
    ground_models = {}
    retry = []
    for ob in proof_obs:
        v = verdicts[ob.name]
        if v.status == "unknown":
            t0 = time.time()
            r, model, note = solve.solve_ground(ob)
            if r == "unsat":
                verdicts[ob.name] = solve.Verdict(ob.name, "proved", "z3-ground" + ("+z3-4.8.12" if "confirmed by" in note else "(single)"),
                                                  v.time_s + time.time() - t0, "unsat", note)
                continue
            if r == "sat":
                ground_models[ob.name] = model
                verdicts[ob.name] = solve.Verdict(ob.name, "failed", "z3-ground", v.time_s + time.time() - t0, "sat",
                                                  f"candidate counterexample from ground instances ({note}); full query: {v.reason}")
                continue
            retry.append(ob)
    baseline_fp = load_baseline().get("_fp", {}).get(prop, {})
    fps = {ob.name: solve.fingerprint(ob) for ob in proof_obs}
    if retry:
        # load-induced flips: a VC that is, up to generated names, the one discharged when the baseline was written and is
        # undecided now is solved again with a tripled budget on half the worker processes (a real solver run; its `unsat`
        # is confirmed by the second solver like any other).  Changed or new VCs already had the full portfolio.
        again = [ob for ob in retry if baseline_fp.get(ob.name) == fps[ob.name] or write_baseline]
        v2s = solve.solve_all(again, timeout_ms=3 * solve.Z3_TIMEOUT_MS, workers=8, lite=True) if again else {}
        for ob in again:
            v2 = v2s[ob.name]
            v2.time_s += verdicts[ob.name].time_s
            verdicts[ob.name] = v2
    solver_time = sum(v.time_s for v in verdicts.values()) + sum(v.time_s for v in cover_verdicts.values())
    wall_solve = time.time() - t_solve
    baseline = load_baseline().get(prop, [])

    def same_problem(ob):
        """the obligation is, up to generated names, the very problem that was discharged when the baseline was written"""
        return baseline_fp.get(ob.name) == fps[ob.name]

    single = []
    known = [e for e in load_known() if e.get("property") == prop]
    violations, known_hits, proved = [], [], []
    by_backend = {}
    for ob in proof_obs:
        v = verdicts[ob.name]
        if v.status == "proved":
            if v.backend.endswith("(single)") and not same_problem(ob) and not write_baseline:
                # one solver's `unsat` that no second solver confirms counts only where that was reviewed on the
                # unchanged tree (baseline); anywhere else it is left undecided (DESIGN 0.4)
                undecided.append(f"{ob.name}: UNDECIDED (unsat from {v.backend} only; not confirmed by z3 4.8.12 / cvc5 and not in the "
                                 "problem recorded in the baseline)")
                continue
            proved.append(ob)
            if v.backend.endswith("(single)"):
                single.append(ob.name)
            by_backend[v.backend] = by_backend.get(v.backend, 0) + 1
            continue
        if ob.info.get("strict"):
            # a statically determined breach of a declared data-structure type: a violation unless the path is dead
            violations.append((ob, {"obligation": ob.name, "function": getattr(ob, "func", None), "solver": v.raw,
                                    "note": ob.info.get("why", ""), "trace": ob.trace[-12:], "inputs": None,
                                    "confirmed": False}))
            continue
        if v.status == "unknown" and (ob.name not in baseline or same_problem(ob)):
            # a new obligation the solvers cannot decide, or the very problem of the baseline running out of budget
            # (machine load): undecided, never a violation
            undecided.append(f"{ob.name}: UNDECIDED ({v.reason})" + (" [identical to the baseline problem]" if same_problem(ob) else ""))
            continue
        info = refute(ob, v, prop, case_of(ob.name), ground_models.get(ob.name))
        if v.backend == "z3-ground" and not info.get("confirmed") and (ob.name not in baseline or same_problem(ob)):
            # a candidate model of the ground relaxation that does not replay proves nothing
            undecided.append(f"{ob.name}: UNDECIDED (ground candidate did not replay; {v.reason})")
            continue
        entry = next((e for e in known if e.get("status") == "known" and e.get("obligation")
                      and re.fullmatch(e["obligation"], ob.name)
                      and witness_matches(e, info.get("inputs"))), None)
        if entry is not None:
            known_hits.append((entry, ob, info))
        else:
            violations.append((ob, info))
    for ob in cover_obs:
        v = cover_verdicts[ob.name]
        if v.status == "failed":
            violations.append((ob, {"obligation": ob.name, "note": "vacuous contract: hypotheses are contradictory",
                                    "solver": v.raw, "inputs": None, "confirmed": False}))
    for n, ok, msg in struct_results:
        if not ok:
            violations.append((None, {"obligation": f"structural/{n}", "note": msg, "inputs": None, "confirmed": False,
                                      "solver": "n/a"}))
    # ---- bounded stand-ins
    standin_reports = []
    if not no_standins:
        for modname, kw in meta.get("standins", []):
            mod = importlib.import_module(modname)
            t0 = time.time()
            rep = mod.run(tier=tier, seed=seed, **kw)
            rep["wall_s"] = round(time.time() - t0, 2)
            rep["module"] = modname
            standin_reports.append(rep)
    # ---- report
    os.makedirs(os.path.join(VERIF, "replays"), exist_ok=True)
    os.makedirs(os.path.join(VERIF, "evidence"), exist_ok=True)
    lines = []
    n_viol = 0
    for entry, ob, info in known_hits:
        lines.append(f"KNOWN-FINDING: property={prop} {entry['what']} [{ob.name}]")
    for ob, info in violations:
        n_viol += 1
        name = info["obligation"]
        path = os.path.join(VERIF, "replays", f"{prop}-{_slug(name)}.json")
        replay.write_replay(path, {"property": prop, "kind": "obligation", **info})
        suffix = "" if info.get("confirmed") else " no-failing-input-found"
        lines.append(f"VIOLATION property={prop} replay={path}{suffix}")
    for rep in standin_reports:
        fresh_viols = []
        for viol in rep.get("violations", []):
            entry = next((e for e in known if e.get("status") == "known" and e.get("standin") == rep["name"]
                          and re.fullmatch(e.get("case", ""), str(viol.get("case", "")))), None)
            if entry is not None:
                line = f"KNOWN-FINDING: property={prop} {entry['what']} [{rep['name']}]"
                if line not in lines:
                    lines.append(line)
                rep.setdefault("known_hits", []).append(viol.get("case"))
            else:
                fresh_viols.append(viol)
        rep["violations"] = fresh_viols
        for i, viol in enumerate(fresh_viols[:10]):
            n_viol += 1
            path = os.path.join(VERIF, "replays", f"{prop}-{_slug(rep['name'])}-{i}.json")
            replay.write_replay(path, {"property": prop, "kind": "bounded-standin", "standin": rep["name"],
                                       "module": rep["module"], **viol})
            lines.append(f"VIOLATION property={prop} replay={path}")
    for ln in lines:
        print(ln)
    if verbose or undecided:
        for u in undecided:
            print("UNDECIDED:", u)
    if verbose:
        for ob in proof_obs:
            print("   ", verdicts[ob.name])
        for ob in cover_obs:
            print("   ", cover_verdicts[ob.name])
    # ---- evidence
    functions = []
    for r in results:
        functions.append({"function": r.key, "file": (r.path or "").replace(REPO + "/", ""), "line": r.lineno,
                          "sha1": r.sha1, "obligations": sum(1 for o in r.obligations if o.expect == "valid"),
                          "paths": r.paths, "status": r.status})
    assumed = [{"function": k, "note": decl.CONTRACTS[k].note} for k in keys if decl.CONTRACTS[k].trusted]
    known_names = {ob.name for _, ob, _ in known_hits}
    n_obl = len([o for o in proof_obs if o.name not in known_names]) + len(struct_results)
    n_dis = len(proved) + sum(1 for _, ok, _ in struct_results if ok)
    samples = []
    for ob in proof_obs[:3] + proof_obs[-2:]:
        v = verdicts[ob.name]
        samples.append({"obligation": ob.name, "status": v.status, "backend": v.backend,
                        "time_s": round(v.time_s, 3), "goal": _clip(str(ob.goal), 400),
                        "hypotheses": len(ob.hyps)})
    cover_summary = {"checked": len(cover_obs),
                     "satisfiable": sum(1 for o in cover_obs if cover_verdicts[o.name].status == "proved"),
                     "no_contradiction_found": sum(1 for o in cover_obs if cover_verdicts[o.name].status == "unknown"),
                     "contradictory": sum(1 for o in cover_obs if cover_verdicts[o.name].status == "failed")}
    level = meta["level"]
    evidence = {
        "property_id": prop,
        "tier": tier if tier in ("quick", "thorough") else "quick",
        "seed": seed,
        "level": level,
        "coverage": {
            "obligations": n_obl,
            "discharged": n_dis,
            "checker_cmd": f"./check {prop} --tier {tier}",
            "trusted_base": TRUSTED_BASE + meta.get("trusted_base", []) + (
                ["Lean 4 kernel + Mathlib (proofs of the spec theory axioms, theory/PintTheory.lean, checked in setup)"]
                if any(getattr(decl.CONTRACTS[k], "theories", ()) for k in keys) else []),
            "explanation": meta.get("explanation", ""),
            "functions_under_contract": functions,
            "assumed_contracts": assumed,
            "lemmas": lemmas,
            "structural_obligations": [{"name": n, "ok": ok, "detail": msg} for n, ok, msg in struct_results],
            "by_backend": by_backend,
            "single_solver_proofs": sorted(single),
            "second_solver_rule": "every unsat of z3 " + solve.z3.get_version_string() + " is re-checked by z3 4.8.12 (CLI) / cvc5; a proof no second "
                                  "solver confirms counts only when the problem is, up to generated names, the one recorded in "
                                  "baseline_obligations.json (fingerprint); a second solver answering sat makes the obligation undecided",
            "solver_time_s": round(solver_time, 2),
            "solver_wall_s": round(wall_solve, 2),
            "vacuity_checks": cover_summary,
            "samples": samples,
            "bounded_standins": standin_reports_public(standin_reports),
            "dropped_by_extraction": DROPPED,
            "known_findings": [{"obligation": ob.name, "what": e["what"]} for e, ob, _ in known_hits],
            "undecided": undecided,
            "exhaustive": False,
        },
        "assumptions": meta.get("assumptions", []) + [f"assumed contract: {a['function']} ({a['note']})" for a in assumed],
        "wall_s": round(time.time() - t_start, 2),
        "violations": n_viol,
    }
    # generic keys as well (accepted for every level)
    ev = sum(r.get("evaluations", 0) for r in standin_reports)
    if ev:
        evidence["coverage"]["evaluations"] = ev
        evidence["coverage"]["distinct_nontrivial"] = sum(r.get("distinct_nontrivial", 0) for r in standin_reports)
        evidence["coverage"]["rule"] = "; ".join(f"{r['name']}: {r.get('rule', '')}" for r in standin_reports)
    if not os.environ.get("PV_NO_EVIDENCE"):
        with open(os.path.join(VERIF, "evidence", f"{prop}.json"), "w") as f:
            json.dump(evidence, f, indent=1, default=str)
    if write_baseline:
        b = load_baseline()
        b[prop] = sorted(ob.name for ob in proved)
        b.setdefault("_single", {})[prop] = sorted(single)
        b.setdefault("_fp", {})[prop] = {ob.name: fps[ob.name] for ob in proved}
        with open(BASELINE, "w") as f:
            json.dump(b, f, indent=0, sort_keys=True)
    print(f"{prop}: {n_dis}/{n_obl} obligations discharged over {len(functions)} functions/lemmas "
          f"({len(known_hits) + sum(len(r.get('known_hits', [])) for r in standin_reports)} known findings, {n_viol} violations, {len(undecided)} undecided); "
          f"stand-ins: {', '.join(r['name'] + '=' + str(r.get('evaluations', 0)) for r in standin_reports) or 'none'}; "
          f"{time.time() - t_start:.1f}s")
    if n_viol:
        return 1
    if undecided:
        return 2
    if n_obl == 0 and not standin_reports:
        print("no obligations generated", file=sys.stderr)
        return 3
    return 0


def standin_reports_public(reps):
    out = []
    for r in reps:
        r2 = {k: v for k, v in r.items() if k not in ("violations", "known")}
        r2["violations"] = len(r.get("violations", []))
        r2["label"] = "bounded (never counted as proved)"
        out.append(r2)
    return out


def _slug(s):
    return re.sub(r"[^A-Za-z0-9_.-]+", "_", s)[:120]


def _clip(s, n):
    s = " ".join(s.split())
    return s if len(s) <= n else s[:n] + "..."


def run_replay(prop, path):
    importlib.import_module("contracts.props")
    with open(path) as f:
        data = json.load(f)
    if data.get("kind") == "bounded-standin":
        mod = importlib.import_module(data["module"])
        ok = mod.replay(data)
        print("replay:", "violation reproduced" if not ok else "not reproduced")
        if not ok:
            print(f"VIOLATION property={prop} replay={path}")
        return 0 if ok else 1
    if not data.get("inputs") or not data.get("function") or data["function"] not in decl.CONTRACTS:
        print("replay file carries no concrete input (no-failing-input-found); obligation:", data.get("obligation"))
        print(json.dumps({k: data.get(k) for k in ("solver", "reason", "note", "trace")}, indent=1))
        return 1
    res = replay.run_descriptor(data["function"], case_of(data["obligation"]), data["inputs"])
    print(json.dumps(res, indent=1, default=str))
    if res.get("failed"):
        print(f"VIOLATION property={prop} replay={path}")
        return 1
    return 0
