"""Generate theory/PintTheory.lean from theory/axioms.py and check it with `lean` (setup step)."""
import hashlib
import os
import subprocess
import sys

from . import VERIF
from .theory import to_lean


def lean_text():
    from theory.axioms import AXIOMS, LEAN_PRELUDE

    out = [LEAN_PRELUDE]
    for group, name, term, proof in AXIOMS:
        out.append(f"theorem ax_{name} : {to_lean(term)} := {proof}\n")
    out.append("end\n")
    return "\n".join(out)


def main():
    sys.path.insert(0, VERIF)
    text = lean_text()
    path = os.path.join(VERIF, "theory", "PintTheory.lean")
    with open(path, "w") as f:
        f.write(text)
    stamp = os.path.join(VERIF, "theory", ".lean_ok")
    digest = hashlib.sha1(text.encode()).hexdigest()
    if "--check" in sys.argv:
        if os.path.exists(stamp) and open(stamp).read().strip() == digest:
            print("lean theory: unchanged since last successful check")
            return 0
        if "sorry" in text or "axiom " in text:
            print("lean theory contains sorry/axiom", file=sys.stderr)
            return 1
        p = subprocess.run(["lean", path], capture_output=True, text=True, cwd="/opt/veriftools/mathlib4")
        sys.stdout.write(p.stdout[-3000:])
        sys.stderr.write(p.stderr[-3000:])
        if p.returncode != 0 or "error" in p.stdout:
            print("lean theory: FAILED", file=sys.stderr)
            return 1
        with open(stamp, "w") as f:
            f.write(digest)
        print("lean theory: all axioms proved")
    return 0


if __name__ == "__main__":
    sys.exit(main())
