"""Forward symbolic execution of the real function ASTs, producing named obligations."""
from __future__ import annotations

import ast
import builtins
import importlib

import z3

from . import decl, heapops, ops, source, spec
from .core import (esort, epack, eunpack, BOOL, FN, INT, NONE, NONEV, NUM, NUMTYPE, OTHER, STR, TYPEOBJ, ExcVal, FuncVal, StaleContract, State,
                   TBool, TDict, TInt, TList, TMap, TNone, TNum, TOpaque, TOpt, TRef, TRefLike, TSeq, TSet, TSetV,
                   TStr, TTuple, TUnion, Unsupported, Val, boolv, coerce, compatible, fresh_name, is_numeric, num,
                   strv, to_real, val_eq, val_ite)


def _has_quantifier(e, _memo={}):
    k = e.get_id()
    if k in _memo:
        return _memo[k]
    stack, seen, found = [e], set(), False
    while stack and not found:
        x = stack.pop()
        if x.get_id() in seen:
            continue
        seen.add(x.get_id())
        if z3.is_quantifier(x):
            found = True
        else:
            stack.extend(x.children())
    _memo[k] = found
    return found


class Obligation:
    def __init__(self, name, hyps, goal, expect="valid", trace=(), info=None):
        self.name, self.hyps, self.goal, self.expect = name, list(hyps), goal, expect
        self.trace = list(trace)
        self.info = info or {}


class Outcome:
    def __init__(self, kind, st, val=None, node=None):
        self.kind, self.st, self.val, self.node = kind, st, val, node


class ViewVal:
    """dict view / iterator objects (python level, never stored)."""

    def __init__(self, kind, base, extra=None):
        self.kind, self.base, self.extra = kind, base, extra
        self.t = TOpaque("View")


class EmptyLit:
    """An empty container literal ({} / [] / set()) whose type comes from where it is stored."""

    def __init__(self, kind):
        self.kind = kind
        self.t = TOpaque("EmptyLit")


class SuperVal:
    def __init__(self, cls_short, selfv):
        self.cls, self.selfv = cls_short, selfv
        self.t = TOpaque("Super")


class PyObj:
    """A module-level python object the engine has no model for (only usable in known patterns)."""

    def __init__(self, obj, name):
        self.obj, self.name = obj, name
        self.t = TOpaque("PyObj")

    def __repr__(self):
        return f"<pyobj {self.name}>"


BUILTIN_FUNCS = {"len", "hash", "frozenset", "abs", "iter", "list", "tuple", "set", "sorted", "reversed", "dict", "str",
                 "repr", "type", "min", "max", "getattr", "hasattr", "callable", "range", "zip", "enumerate", "bool",
                 "isinstance", "any", "all", "sum", "next", "id", "round", "divmod", "pow", "setattr", "super", "object"}


class BodyException(Exception):
    """Stands for an arbitrary exception raised by the body of a with-block."""


def exc_real(name):
    if name == "BodyException":
        return BodyException
    if hasattr(builtins, name):
        return getattr(builtins, name)
    errs = importlib.import_module("pint.errors")
    if hasattr(errs, name):
        return getattr(errs, name)
    raise Unsupported(f"unknown exception class {name}")


def exc_subclass(a, b):
    return issubclass(exc_real(a), exc_real(b))


class Exec:
    """Verifies one function (or lemma) against its contract."""

    def __init__(self, contract, fnode, owner_cls=None, module=None, prefix=None, case=None):
        self.c = contract
        self.fnode = fnode
        self.owner_cls = owner_cls  # short name of the class where the function is defined
        self.module = module or contract.module
        self.prefix = prefix or f"{contract.module.replace('pint.', '')}.{contract.qual}"
        if case:
            self.prefix += f"[{case}]"
        self.obligations = []
        self.sinks = []
        self.axioms = []
        self.try_stack = []
        self.loop_nodes = [n for n in ast.walk(fnode) if isinstance(n, (ast.For, ast.While))] if fnode else []
        self.loop_nodes.sort(key=lambda n: (n.lineno, n.col_offset))
        self.return_nodes = sorted([n for n in ast.walk(fnode) if isinstance(n, ast.Return)],
                                   key=lambda n: (n.lineno, n.col_offset)) if fnode else []
        self.raise_nodes = sorted([n for n in ast.walk(fnode) if isinstance(n, ast.Raise)],
                                  key=lambda n: (n.lineno, n.col_offset)) if fnode else []
        self.bindings = {}
        self.counters = {}
        self.dict_types = set()
        self.paths = 0
        self._resolve_bindings()

    # ------------------------------------------------------------------ helpers

    def _resolve_bindings(self):
        for name, text in (self.c.bind or {}).items():
            want = ast.unparse(ast.parse(text, mode="eval").body)
            found = None
            for n in ast.walk(self.fnode):
                if isinstance(n, ast.Assign) and len(n.targets) == 1 and isinstance(n.targets[0], ast.Name):
                    if ast.unparse(n.value) == want:
                        found = n.targets[0].id
                        break
                if isinstance(n, ast.AnnAssign) and n.value is not None and isinstance(n.target, ast.Name) \
                        and ast.unparse(n.value) == want:
                    found = n.target.id
                    break
            if found is None:
                raise StaleContract(f"{self.c.key}: no local is assigned from `{text}`")
            self.bindings[name] = found

    def subst(self, text, extra=None):
        m = dict(self.bindings)
        if extra:
            m.update(extra)
        for k in sorted(m, key=len, reverse=True):
            text = text.replace("$" + k, m[k])
        if "$" in text:
            raise StaleContract(f"{self.c.key}: unbound $name in `{text}`")
        return text

    def site(self, node):
        """Stable name of an exit site: ordinal of the return / raise statement, or the expression text."""
        if node is None:
            return "end"
        if isinstance(node, ast.Return):
            return f"ret{self.return_nodes.index(node)}" if node in self.return_nodes else "ret?"
        if isinstance(node, ast.Raise):
            return f"raise{self.raise_nodes.index(node)}" if node in self.raise_nodes else "raise?"
        return f"[{_short(node)}]"

    def uniq(self, base):
        n = self.counters.get(base, 0)
        self.counters[base] = n + 1
        return base if n == 0 else f"{base}#{n}"

    def scope(self, st, env=None):
        return spec.Scope(env if env is not None else st.env, st.heap, st.heap.old(), st.old_env, st.alloc, st.alloc0,
                          st.ghost)

    def oblige(self, st, name, goal, expect="valid", info=None, unique=True):
        if unique:
            name = self.uniq(f"{self.prefix}/{name}")
        else:
            name = f"{self.prefix}/{name}"
        try:
            goal = z3.simplify(goal)
        except z3.Z3Exception:
            pass
        self.obligations.append(Obligation(name, st.pc, goal, expect, st.trace, info))

    def sink_raise(self, st, exc, node=None):
        self.sinks[-1].append(Outcome("raise", st, exc, node))

    def note_type(self, t):
        if isinstance(t, TDict):
            self.dict_types.add(t)
        for sub in getattr(t, "items", []) or []:
            self.note_type(sub)
        if isinstance(t, TOpt):
            self.note_type(t.inner)
        if isinstance(t, TUnion):
            for a in t.alts:
                self.note_type(a)

    # ------------------------------------------------------------------ statements

    def run_block(self, stmts, st):
        """yield Outcomes of executing stmts from st."""
        if not stmts:
            yield Outcome("normal", st)
            return
        head, rest = stmts[0], stmts[1:]
        for out in self.run_stmt(head, st):
            if out.kind == "normal":
                yield from self.run_block(rest, out.st)
            else:
                yield out

    def run_stmt(self, stmt, st):
        if st.infeasible():
            return
        self.sinks.append([])
        m = getattr(self, "st_" + type(stmt).__name__, None)
        if m is None:
            raise Unsupported(f"statement {type(stmt).__name__} at line {stmt.lineno}")
        pc_before = list(st.pc)
        try:
            outs = list(m(stmt, st))
        except Unsupported:
            self.sinks.pop()
            if _infeasible_by_solver(pc_before):
                return  # dead path: the unsupported construct is unreachable
            raise
        outs += self.sinks.pop()
        for o in outs:
            if not o.st.infeasible():
                yield o

    def st_Pass(self, s, st):
        yield Outcome("normal", st)

    def st_Expr(self, s, st):
        if isinstance(s.value, ast.Constant):  # docstring
            yield Outcome("normal", st)
            return
        if self._is_dropped_call(s.value):
            yield Outcome("normal", st)
            return
        if isinstance(s.value, ast.Yield):
            # generator used as a context manager (@contextmanager): at the yield the with-body runs; it
            # either completes or raises an arbitrary exception, which is thrown into the generator here.
            for st1, v in (self.ev(s.value.value, st) if s.value.value is not None else [(st, NONEV)]):
                self.yields = getattr(self, "yields", 0) + 1
                st1.ghost = dict(st1.ghost)
                st1.ghost["__yielded__"] = boolv(True)
                bad = st1.copy()
                bad.trace.append(f"L{s.lineno}: with-body raises")
                bad.ghost["__body_raised__"] = boolv(True)
                self.sink_raise(bad, ExcVal("BodyException", [], s), s)
                st1.trace.append(f"L{s.lineno}: with-body completes")
                yield Outcome("normal", st1)
            return
        for st1, _ in self.ev(s.value, st):
            yield Outcome("normal", st1)

    def _is_dropped_call(self, node):
        # logger.*(...) and warnings.warn(...) are dropped by the extraction (DESIGN 2.1)
        if isinstance(node, ast.Call) and isinstance(node.func, ast.Attribute) and isinstance(node.func.value, ast.Name):
            if node.func.value.id in ("logger", "warnings"):
                return True
        return False

    def st_Import(self, s, st):
        yield Outcome("normal", st)

    def st_ImportFrom(self, s, st):
        # `from .x import y` inside a function: bind the names to the real objects
        try:
            pkg = self.module if s.level == 0 else ".".join(self.module.split(".")[: len(self.module.split(".")) - s.level + (0 if not self._is_pkg(self.module) else 1)])
            modname = (pkg + "." + s.module if s.module else pkg) if s.level else s.module
            mod = importlib.import_module(modname)
            for a in s.names:
                if hasattr(mod, a.name):
                    st.env[a.asname or a.name] = self.wrap_pyobj(getattr(mod, a.name), a.name)
        except Exception:  # noqa: BLE001
            pass  # unresolved names surface as `unknown name` (fail-closed) when used
        yield Outcome("normal", st)

    @staticmethod
    def _is_pkg(modname):
        m = importlib.import_module(modname)
        return hasattr(m, "__path__")

    def st_Nonlocal(self, s, st):
        yield Outcome("normal", st)

    def st_Global(self, s, st):
        raise Unsupported("global statement")

    def _typed_empty(self, target, v, st):
        """typed container construction:  name = defaultdict(int) / {} / [] / set()  with the type from the contract"""
        if not (isinstance(target, ast.Name) and target.id in self.c.local_types):
            return False
        t = self.c.local_types[target.id]
        empty = (isinstance(v, ast.Call) and not v.keywords and isinstance(v.func, ast.Name)
                 and ((v.func.id == "defaultdict" and len(v.args) == 1) or (v.func.id in ("dict", "list", "set", "udict") and not v.args))) \
            or (isinstance(v, (ast.Dict, ast.List)) and not (getattr(v, "keys", None) or getattr(v, "elts", None)))
        if not (empty and isinstance(t, (TDict, TList, TSet))):
            return False
        r = st.new_ref("loc")
        out = Val(t, r)
        if isinstance(t, TDict):
            heapops.dict_set_contents(st.heap, out, z3.K(t.ksort(), z3.BoolVal(False)),
                                      [z3.K(t.ksort(), d) for d in t.v.default_terms()])
        elif isinstance(t, TList):
            heapops.list_write(st.heap, out, z3.Empty(z3.SeqSort(esort(t.e))))
        else:
            heapops.set_write(st.heap, out, z3.K(esort(t.e), z3.BoolVal(False)))
        st.env[target.id] = out
        return True

    def st_AnnAssign(self, s, st):
        if s.value is None:
            yield Outcome("normal", st)
            return
        if self._typed_empty(s.target, s.value, st):
            yield Outcome("normal", st)
            return
        for st1, v in self.ev(s.value, st):
            yield from self.assign(s.target, v, st1)

    def st_Assign(self, s, st):
        if len(s.targets) == 1 and self._typed_empty(s.targets[0], s.value, st):
            yield Outcome("normal", st)
            return
        for st1, v in self.ev(s.value, st):
            if len(s.targets) == 1:
                yield from self.assign(s.targets[0], v, st1)
            else:
                cur = [st1]
                for tgt in s.targets:
                    nxt = []
                    for c in cur:
                        for o in self.assign(tgt, v, c):
                            nxt.append(o.st)
                    cur = nxt
                for c in cur:
                    yield Outcome("normal", c)

    def assign(self, target, v, st):
        if isinstance(target, ast.Name):
            st.env[target.id] = v
            yield Outcome("normal", st)
        elif isinstance(target, ast.Attribute):
            for st1, base in self.ev(target.value, st):
                base = self.deopt_or_fail(base, st1, target)
                if not isinstance(base.t, TRef):
                    raise Unsupported(f"attribute store on {base.t} (line {target.lineno})")
                if isinstance(v, EmptyLit):
                    d, ft = decl.find_field(base.t.cls, target.attr)
                    if d is None:
                        raise Unsupported(f"field {base.t.cls}.{target.attr} not declared")
                    v = self.materialise_empty(v, ft, st1)
                heapops.write_field(st1.heap, base, target.attr, v)
                yield Outcome("normal", st1)
        elif isinstance(target, ast.Subscript):
            for st1, base in self.ev(target.value, st):
                for st2, idx in self.ev(target.slice, st1):
                    yield from self.store_subscript(base, idx, v, st2, target)
        elif isinstance(target, (ast.Tuple, ast.List)):
            items = self.unpack(v, len(target.elts), st, target)
            cur = [st]
            for tgt, item in zip(target.elts, items):
                nxt = []
                for c in cur:
                    nxt += [o.st for o in self.assign(tgt, item, c)]
                cur = nxt
            for c in cur:
                yield Outcome("normal", c)
        else:
            raise Unsupported(f"assignment target {type(target).__name__}")

    def unpack(self, v, n, st, node):
        if isinstance(v, Val) and isinstance(v.t, TTuple):
            if len(v.v) != n:
                raise Unsupported(f"unpack arity at line {node.lineno}")
            return list(v.v)
        if isinstance(v, Val) and isinstance(v.t, TSeq):
            self.oblige(st, f"unpack-len[{ast.unparse(node)}]", z3.Length(v.v) == n)
            st.assume(z3.Length(v.v) == n)
            return [eunpack(v.v[i], v.t.e) for i in range(n)]
        raise Unsupported(f"unpack of {getattr(v, 't', v)} at line {node.lineno}")

    def store_subscript(self, base, idx, v, st, node):
        base = self.as_container(base, st)
        t = base.t
        if isinstance(t, TDict):
            idx = self.key_or_violation(idx, t, st, node)
            if idx is None:
                return
            heapops.dict_store(st.heap, base, idx, v)
            yield Outcome("normal", st)
        elif isinstance(t, TList):
            seq = heapops.list_seq(st.heap, base)
            n = z3.Length(seq)
            i = spec.norm_index(idx.v, n)
            ok = z3.And(i >= 0, i < n)
            for st1 in self.guard_exc(st, ok, "IndexError", node):
                new = z3.Concat(z3.SubSeq(seq, 0, i), z3.Unit(epack(coerce(v, t.e))), z3.SubSeq(seq, i + 1, n - i - 1))
                heapops.list_write(st1.heap, base, new)
                yield Outcome("normal", st1)
        else:
            raise Unsupported(f"subscript store on {t} at line {node.lineno}")

    def to_key(self, idx, kt, st):
        """Convert a value used as a dict key to the dict's key type (objects with value equality,
        i.e. UnitsContainers, are keyed by their view)."""
        from .core import TMap

        if isinstance(idx, Val) and compatible(idx.t, kt):
            return coerce(idx, kt)
        if isinstance(kt, TMap) and isinstance(idx, Val) and isinstance(idx.t, TRef):
            for dd in decl.mro_decls(idx.t.cls):
                if dd.mapping_delegate:
                    return heapops.dict_as_map(st.heap, heapops.read_field(st.heap, idx, dd.mapping_delegate))
        if isinstance(kt, TTuple) and isinstance(idx, Val) and isinstance(idx.t, TTuple) and len(kt.items) == len(idx.v):
            items = tuple(self.to_key(x, t, st) for x, t in zip(idx.v, kt.items))
            return Val(kt, items)
        if isinstance(kt, TOpt) and isinstance(idx, Val):
            return coerce(idx, kt)
        raise Unsupported(f"dict key of type {getattr(idx, 't', idx)} for key type {kt}")

    def key_or_violation(self, idx, t, st, node):
        """Key of a declared container: a key of another *modelled* type breaks the container's type invariant
        (the declared key type is part of the data-structure contract) -- an obligation that fails, not an
        unsupported construct."""
        try:
            return self.to_key(idx, t.k, st)
        except Unsupported:
            if isinstance(idx, Val) and not isinstance(idx.t, TOpaque):
                self.oblige(st, f"type-invariant.key[{_short(node)}]", z3.BoolVal(False),
                            info={"why": f"key of type {idx.t} used with a container declared {t}", "strict": True})
                st.assume(z3.BoolVal(False))
                return None
            raise

    def as_container(self, base, st):
        """Objects of mapping-delegate classes act as their dict for reads."""
        return base

    def st_AugAssign(self, s, st):
        load = _as_load(s.target)
        if isinstance(s.op, (ast.BitOr, ast.Sub, ast.BitAnd)):
            # `x |= y` on a (mutable) set updates the object in place and re-binds the same object
            outs = []
            for st1, cur in self.ev(load, st):
                if isinstance(cur, Val) and isinstance(cur.t, TSet):
                    for st2, rhs in self.ev(s.value, st1):
                        if not (isinstance(rhs, Val) and isinstance(rhs.t, (TSet, TSetV)) and rhs.t.e == cur.t.e):
                            raise Unsupported(f"in-place set operator with {getattr(rhs, 't', rhs)}")
                        x = heapops.set_arr(st2.heap, cur)
                        y = heapops.set_arr(st2.heap, rhs) if isinstance(rhs.t, TSet) else rhs.v
                        arr = z3.SetUnion(x, y) if isinstance(s.op, ast.BitOr) else z3.SetDifference(x, y) \
                            if isinstance(s.op, ast.Sub) else z3.SetIntersect(x, y)
                        heapops.set_write(st2.heap, cur, arr)
                        outs.append(Outcome("normal", st2))
                else:
                    outs = None
                    break
            if outs is not None:
                yield from outs
                return
        binop = ast.BinOp(left=load, op=s.op, right=s.value)
        ast.copy_location(binop, s)
        ast.fix_missing_locations(binop)
        tgt = s.target
        if isinstance(tgt, ast.Subscript):
            # evaluate container and index once
            for st1, base in self.ev(tgt.value, st):
                for st2, idx in self.ev(tgt.slice, st1):
                    for st3, cur in self.read_subscript(base, idx, st2, tgt):
                        for st4, rhs in self.ev(s.value, st3):
                            for st5, res in self.binop(s.op, cur, rhs, st4, s):
                                yield from self.store_subscript(base, idx, res, st5, tgt)
            return
        if isinstance(tgt, ast.Attribute):
            for st1, base in self.ev(tgt.value, st):
                cur = heapops.read_field(st1.heap, base, tgt.attr)
                for st2, rhs in self.ev(s.value, st1):
                    for st3, res in self.binop(s.op, cur, rhs, st2, s):
                        heapops.write_field(st3.heap, base, tgt.attr, res)
                        yield Outcome("normal", st3)
            return
        for st1, v in self.ev(binop, st):
            yield from self.assign(s.target, v, st1)

    def st_Delete(self, s, st):
        cur = [st]
        for tgt in s.targets:
            nxt = []
            for c in cur:
                nxt += [o.st for o in self.delete(tgt, c)]
            cur = nxt
        for c in cur:
            yield Outcome("normal", c)

    def delete(self, tgt, st):
        if isinstance(tgt, ast.Name):
            st.env.pop(tgt.id, None)
            yield Outcome("normal", st)
            return
        if not isinstance(tgt, ast.Subscript):
            raise Unsupported("del of non-subscript")
        for st1, base in self.ev(tgt.value, st):
            if isinstance(tgt.slice, ast.Slice):
                if isinstance(base.t, TList):
                    sc = self.scope(st1)
                    seq = heapops.list_seq(st1.heap, base)
                    n = z3.Length(seq)
                    los = [(st1, None)] if tgt.slice.lower is None else list(self.ev(tgt.slice.lower, st1))
                    for st2, lo in los:
                        his = [(st2, None)] if tgt.slice.upper is None else list(self.ev(tgt.slice.upper, st2))
                        for st3, hi in his:
                            lo_t = spec.clip_index(lo.v, n) if lo is not None else z3.IntVal(0)
                            if hi is not None and isinstance(hi.t, TOpt):
                                hi_t = z3.If(hi.v[0], n, spec.clip_index(hi.v[1].v, n))
                            else:
                                hi_t = spec.clip_index(hi.v, n) if hi is not None else n
                            hi_t = z3.If(hi_t < lo_t, lo_t, hi_t)
                            new = z3.Concat(z3.SubSeq(seq, 0, lo_t), z3.SubSeq(seq, hi_t, n - hi_t))
                            heapops.list_write(st3.heap, base, new)
                            yield Outcome("normal", st3)
                    return
                raise Unsupported("del slice on non-list")
            for st2, idx in self.ev(tgt.slice, st1):
                if isinstance(base.t, TDict):
                    idx = coerce(idx, base.t.k)
                    for st3 in self.guard_exc(st2, heapops.dict_has(st2.heap, base, idx), "KeyError", tgt):
                        heapops.dict_delete(st3.heap, base, idx)
                        yield Outcome("normal", st3)
                else:
                    raise Unsupported(f"del item on {base.t}")

    def guard_exc(self, st, ok, excname, node, args=()):
        """Fork: yields the state where `ok` holds; the other path raises excname."""
        ok = z3.simplify(ok)
        if z3.is_true(ok):
            yield st
            return
        bad = st.copy()
        bad.assume(z3.Not(ok))
        bad.trace.append(f"L{getattr(node, 'lineno', '?')}: {excname} in `{_short(node)}`")
        if not bad.infeasible():
            self.sink_raise(bad, ExcVal(excname, args, node), node)
        st.assume(ok)
        if not st.infeasible():
            yield st

    def st_Assert(self, s, st):
        for st1, v in self.ev(s.test, st):
            c = self.truth(v, st1)
            self.oblige(st1, f"assert[{_short(s.test)}]", c)
            st1.assume(c)
            yield Outcome("normal", st1)

    def st_Return(self, s, st):
        if s.value is None:
            yield Outcome("return", st, NONEV, s)
            return
        for st1, v in self.ev(s.value, st):
            yield Outcome("return", st1, v, s)

    def st_Raise(self, s, st):
        if s.exc is None:
            if self.try_stack and self.try_stack[-1] is not None:
                yield Outcome("raise", st, self.try_stack[-1], s)
                return
            raise Unsupported("bare raise outside handler")
        for st1, v in self.ev(s.exc, st):
            if isinstance(v, FuncVal) and v.kind == "excclass":
                v = ExcVal(v.name, [], s)
            from .core import TExcObj

            if isinstance(v, Val) and isinstance(v.t, TUnion):
                # raise of a value that may be an exception object: one path per exception alternative
                for i, alt in enumerate(v.v[1]):
                    if isinstance(alt.t, TExcObj):
                        s2 = st1.copy()
                        s2.assume(v.v[0] == i)
                        s2.trace.append(f"L{s.lineno}: raise {alt.t.cls}")
                        if not s2.infeasible():
                            yield Outcome("raise", s2, ExcVal(alt.t.cls, [], s), s)
                    else:
                        s2 = st1.copy()
                        s2.assume(v.v[0] == i)
                        if not s2.infeasible():
                            yield Outcome("raise", s2, ExcVal("TypeError", [], s), s)
                continue
            if isinstance(v, Val) and isinstance(v.t, TExcObj):
                v = ExcVal(v.t.cls, [], s)
            if not isinstance(v, ExcVal):
                raise Unsupported(f"raise of {v}")
            st1.trace.append(f"L{s.lineno}: raise {v.cls}")
            yield Outcome("raise", st1, v, s)

    def st_If(self, s, st):
        for st1, v in self.ev(s.test, st):
            c = self.truth(v, st1)
            for br, cond, body in ((True, c, s.body), (False, z3.Not(c), s.orelse)):
                cs = z3.simplify(cond)
                if z3.is_false(cs):
                    continue
                st2 = st1.copy()
                st2.assume(cs)
                if self.dead_branch(st2):
                    continue
                st2.trace.append(f"L{s.lineno}: {'if' if br else 'else'} `{_short(s.test)}`")
                yield from self.run_block(body, st2)

    def dead_branch(self, st):
        """Branch pruning: the quantifier-free part of the path condition alone is contradictory (decided by z3 within
        a small budget).  Dropping hypotheses only weakens them, so `unsat` here means the path is infeasible; anything
        else keeps the branch.  (Quantified facts are never used for pruning.)"""
        ground = [c for c in st.pc if not _has_quantifier(c)]
        if len(ground) < 2:
            return False
        key = tuple(c.get_id() for c in ground)
        cache = self.__dict__.setdefault("_dead_cache", {})
        if key not in cache:
            sol = z3.SolverFor("QF_AUFLIRA") if False else z3.Solver()
            sol.set("timeout", 400)
            for c in ground:
                sol.add(c)
            dead = sol.check() == z3.unsat
            if dead:
                from . import solve as _solve

                # same rule as for proofs (DESIGN 0.4): an independent solver build has to agree
                dead = (not _solve.CONFIRM) or _solve._z3_cli(sol.to_smt2(), 5) == "unsat"
            cache[key] = dead
            if cache[key]:
                self.pruned = getattr(self, "pruned", 0) + 1
        return cache[key]

    def st_Try(self, s, st):
        if s.finalbody:
            yield from self._try_finally(s, st)
            return
        yield from self._try_except(s, st)

    def _try_except(self, s, st):
        for out in self.run_block(s.body, st):
            if out.kind == "raise":
                handled = False
                for h in s.handlers:
                    names = self._handler_names(h)
                    if any(exc_subclass(out.val.cls, n) for n in names):
                        st2 = out.st
                        if h.name:
                            st2.env[h.name] = out.val
                        self.try_stack.append(out.val)
                        try:
                            outs = list(self.run_block(h.body, st2))
                        finally:
                            self.try_stack.pop()
                        yield from outs
                        handled = True
                        break
                    if any(exc_subclass(n, out.val.cls) and n not in getattr(out.val, "excluded", ()) for n in names):
                        raise Unsupported("handler for a subclass of a possibly raised class")
                if not handled:
                    yield out
            elif out.kind == "normal" and s.orelse:
                yield from self.run_block(s.orelse, out.st)
            else:
                yield out

    def _handler_names(self, h):
        if h.type is None:
            return ["BaseException"]
        if isinstance(h.type, ast.Tuple):
            return [_exc_name(e) for e in h.type.elts]
        return [_exc_name(h.type)]

    def _try_finally(self, s, st):
        inner = ast.Try(body=s.body, handlers=s.handlers, orelse=s.orelse, finalbody=[])
        ast.copy_location(inner, s)
        src = self._try_except(inner, st) if s.handlers else self.run_block(s.body, st)
        for out in src:
            for fo in self.run_block(s.finalbody, out.st):
                if fo.kind == "normal":
                    yield Outcome(out.kind, fo.st, out.val, out.node)
                else:
                    yield fo

    def st_While(self, s, st):
        yield from self.loop(s, st)

    def st_For(self, s, st):
        yield from self.loop(s, st)

    def st_Break(self, s, st):
        yield Outcome("break", st)

    def st_Continue(self, s, st):
        yield Outcome("continue", st)

    def st_With(self, s, st):
        raise Unsupported("with statement")

    def st_FunctionDef(self, s, st):
        st.env[s.name] = FuncVal("closure", s.name, extra=(s, dict(st.env)))
        yield Outcome("normal", st)

    # ------------------------------------------------------------------ loops

    def loop(self, node, st):
        from .loops import run_loop

        yield from run_loop(self, node, st)

    # ------------------------------------------------------------------ expressions

    def truth(self, v, st):
        if isinstance(v, (FuncVal, PyObj, ViewVal)):
            return z3.BoolVal(True)
        if isinstance(v, ExcVal):
            return z3.BoolVal(True)
        return ops.truth(heapops, st.heap, v)

    def deopt_or_fail(self, v, st, node):
        """Attribute access on an Opt[...] value: None raises AttributeError."""
        if isinstance(v, Val) and isinstance(v.t, TOpt):
            ok = z3.Not(v.v[0])
            sts = list(self.guard_exc(st, ok, "AttributeError", node))
            if not sts:
                st.assume(z3.BoolVal(False))
            return v.v[1]
        return v

    def ev(self, node, st):
        m = getattr(self, "ev_" + type(node).__name__, None)
        if m is None:
            raise Unsupported(f"expression {type(node).__name__} at line {getattr(node, 'lineno', '?')}")
        for st1, v in m(node, st):
            if not st1.infeasible():
                yield st1, v

    def ev_Constant(self, node, st):
        v = node.value
        if v is Ellipsis:
            raise Unsupported("Ellipsis")
        yield st, spec._constant(node, None)

    def ev_Name(self, node, st):
        n = node.id
        if n in st.env:
            yield st, st.env[n]
            return
        yield st, self.global_name(n)

    def global_name(self, n):
        if n in ("True", "False"):
            return boolv(n == "True")
        mod = importlib.import_module(self.module)
        if hasattr(mod, n):
            return self.wrap_pyobj(getattr(mod, n), n)
        if hasattr(builtins, n):
            return self.wrap_pyobj(getattr(builtins, n), n)
        raise Unsupported(f"unknown name {n}")

    def wrap_pyobj(self, obj, name):
        import fractions, decimal, types

        if obj is None:
            return NONEV
        if isinstance(obj, bool):
            return boolv(obj)
        if isinstance(obj, int):
            return num(obj)
        if isinstance(obj, str):
            return strv(obj)
        if isinstance(obj, float):
            if obj != obj:
                return PyObj(obj, "nan")
            return Val(NUM, z3.RealVal(str(fractions.Fraction(repr(obj)))))
        if obj is float or obj is fractions.Fraction or obj is decimal.Decimal or obj is int:
            return Val(NUMTYPE, z3.IntVal(ops.NUMTYPE_IDS[obj.__name__]))
        if getattr(builtins, getattr(obj, "__name__", ""), None) is obj and obj.__name__ in BUILTIN_FUNCS:
            return FuncVal("builtin", obj.__name__)
        import collections
        import math as _math

        try:
            import numpy as _np
        except Exception:  # pragma: no cover
            _np = None
        if obj in (_math.exp, getattr(_np, "exp", None)):
            return FuncVal("builtin", "exp")
        if obj in (_math.log, getattr(_np, "log", None)):
            return FuncVal("builtin", "log")
        if obj is collections.defaultdict:
            return FuncVal("builtin", "defaultdict")
        if isinstance(obj, type) and obj.__name__ == "udict" and obj.__module__ == "pint.util":
            return FuncVal("builtin", "udict")
        if isinstance(obj, type):
            d = decl.class_of_real(obj)
            if d is not None and not d.exc:
                return FuncVal("class", d.short)
            if issubclass(obj, BaseException):
                return FuncVal("excclass", obj.__name__, extra=obj)
            return PyObj(obj, getattr(obj, "__name__", name))
        if isinstance(obj, (types.FunctionType, types.BuiltinFunctionType)) or callable(obj):
            mod = getattr(obj, "__module__", None)
            qual = getattr(obj, "__qualname__", None)
            if mod and qual and f"{mod}:{qual}" in decl.CONTRACTS:
                return FuncVal("func", f"{mod}:{qual}")
            if mod == "builtins" or obj in (getattr(builtins, k) for k in dir(builtins)):
                return FuncVal("builtin", getattr(obj, "__name__", name))
            return PyObj(obj, name)
        return PyObj(obj, name)

    def ev_Attribute(self, node, st):
        for st1, base in self.ev(node.value, st):
            yield from self.attribute(base, node.attr, st1, node)

    def attribute(self, base, attr, st, node):
        if isinstance(base, SuperVal):
            yield st, FuncVal("supermethod", attr, recv=base.selfv, extra=base.cls)
            return
        if isinstance(base, FuncVal) and base.kind in ("class", "dynclass", "excclass") and attr in ("__name__", "__qualname__"):
            yield st, Val(STR, z3.String(fresh_name("clsname")))
            return
        if isinstance(base, FuncVal) and base.kind == "class":
            yield st, FuncVal("unbound", attr, extra=base.name)
            return
        if isinstance(base, PyObj):
            if hasattr(base.obj, attr):
                sub = getattr(base.obj, attr)
                if base.obj in (dict, object, str):
                    yield st, FuncVal("builtin_unbound", f"{base.obj.__name__}.{attr}")
                    return
                yield st, self.wrap_pyobj(sub, f"{base.name}.{attr}")
                return
            raise Unsupported(f"attribute {attr} of {base}")
        if isinstance(base, ExcVal):
            raise Unsupported(f"attribute {attr} of exception value")
        if isinstance(base, FuncVal) and base.kind == "builtin" and base.name in ("object", "dict", "str"):
            yield st, FuncVal("builtin_unbound", f"{base.name}.{attr}")
            return
        if isinstance(base, (ViewVal, FuncVal)):
            raise Unsupported(f"attribute {attr} of {base}")
        if isinstance(base.t, TOpt):
            base = self.deopt_or_fail(base, st, node)
            if st.infeasible():
                return
        t = base.t
        if isinstance(t, TRef):
            if attr == "__class__":
                yield st, FuncVal("dynclass", t.cls, recv=base)
                return
            d, ft = decl.find_field(t.cls, attr)
            if d is not None:
                yield st, heapops.read_field(st.heap, base, attr)
                return
            if attr in ("items", "keys", "values", "get"):
                real = decl.CLASSES[t.cls].real()
                import collections.abc as _abc

                if getattr(real, attr) is getattr(_abc.Mapping, attr):
                    for dd in decl.mro_decls(t.cls):
                        if dd.mapping_delegate:
                            inner = heapops.read_field(st.heap, base, dd.mapping_delegate)
                            yield st, FuncVal("cmethod", attr, recv=inner)
                            return
            sub, _ = decl.find_field_down(t.cls, attr)
            if sub is not None:
                ok = heapops.is_instance_term(st.heap, base.v, sub.short)
                for st1 in self.guard_exc(st, ok, "AttributeError", node):
                    yield st1, heapops.read_field(st1.heap, Val(TRef(sub.short), base.v), attr)
                return
            # property or method
            key = self.find_method(t.cls, attr)
            if key is None:
                raise Unsupported(f"{t.cls}.{attr}: no field / contract (line {node.lineno})")
            if self.is_property(key):
                con = decl.CONTRACTS[key]
                pexpr = spec._pure_property(t.cls, attr) if con.pure and not con.requires and not con.raises else None
                if pexpr is not None:
                    yield st, spec.sv(pexpr, self.scope(st, {"self": base}))
                    return
                yield from self.call_contract(key, [base], {}, st, node)
                return
            yield st, FuncVal("method", attr, recv=base, extra=key)
            return
        if isinstance(t, (TDict, TSet, TList, TStr, TSeq, TTuple)):
            yield st, FuncVal("cmethod", attr, recv=base)
            return
        raise Unsupported(f"attribute .{attr} on {t} (line {node.lineno})")

    def find_method(self, cls_short, name, after=None):
        """Contract key for method `name` looked up along the real MRO of cls_short
        (starting after class `after` for super())."""
        real = decl.CLASSES[cls_short].real()
        mro = list(real.__mro__)
        if after is not None:
            a = decl.CLASSES[after].real()
            mro = mro[mro.index(a) + 1:]
        for c in mro:
            if name in c.__dict__:
                key = f"{c.__module__}:{c.__qualname__}.{name}"
                if key in decl.CONTRACTS:
                    return key
                # alias  __rmul__ = __mul__
                obj = c.__dict__[name]
                q = getattr(obj, "__qualname__", None)
                if q and f"{c.__module__}:{q}" in decl.CONTRACTS:
                    return f"{c.__module__}:{q}"
                return None
        return None

    def is_property(self, key):
        mod, qual = key.split(":")
        obj = importlib.import_module(mod)
        parts = qual.split(".")
        for p in parts[:-1]:
            obj = getattr(obj, p)
        return isinstance(obj.__dict__.get(parts[-1]), property)

    def ev_Subscript(self, node, st):
        for st1, base in self.ev(node.value, st):
            if isinstance(node.slice, ast.Slice):
                yield from self.slice_(base, node.slice, st1, node)
                continue
            for st2, idx in self.ev(node.slice, st1):
                yield from self.read_subscript(base, idx, st2, node)

    def slice_(self, base, sl, st, node):
        if sl.step is not None:
            raise Unsupported("slice step")
        los = [(st, None)] if sl.lower is None else list(self.ev(sl.lower, st))
        for st1, lo in los:
            his = [(st1, None)] if sl.upper is None else list(self.ev(sl.upper, st1))
            for st2, hi in his:
                t = base.t
                if isinstance(t, TList):
                    seq, t2 = heapops.list_seq(st2.heap, base), t
                elif isinstance(t, (TSeq, TStr)):
                    seq, t2 = base.v, t
                elif isinstance(t, TTuple):
                    lo_i = 0 if lo is None else _lit_int(lo)
                    hi_i = len(base.v) if hi is None else _lit_int(hi)
                    items = base.v[lo_i:hi_i]
                    yield st2, Val(TTuple([i.t for i in items]), tuple(items))
                    continue
                else:
                    raise Unsupported(f"slice of {t}")
                n = z3.Length(seq)
                lo_t = spec.clip_index(lo.v, n) if lo is not None else z3.IntVal(0)
                hi_t = spec.clip_index(hi.v, n) if hi is not None else n
                sub = z3.SubSeq(seq, lo_t, z3.If(hi_t > lo_t, hi_t - lo_t, 0))
                if isinstance(t, TList):
                    r = st2.new_ref("list")
                    out = Val(t, r)
                    heapops.list_write(st2.heap, out, sub)
                    yield st2, out
                else:
                    yield st2, Val(t2, sub)

    def read_subscript(self, base, idx, st, node):
        if isinstance(base, Val) and isinstance(base.t, TRef):
            # objects of Mapping classes: __getitem__ delegates (checked structurally)
            for dd in decl.mro_decls(base.t.cls):
                if dd.mapping_delegate:
                    base = heapops.read_field(st.heap, base, dd.mapping_delegate)
                    break
            else:
                key = self.find_method(base.t.cls, "__getitem__")
                if key:
                    yield from self.call_contract(key, [base, idx], {}, st, node)
                    return
                raise Unsupported(f"subscript on {base.t}")
        t = base.t
        if isinstance(t, TDict):
            idx = self.key_or_violation(idx, t, st, node)
            if idx is None:
                return
            if t.flavour == "ddict" and isinstance(t.v, (TSet, TList)):
                # defaultdict(set/list): a missing key is inserted with a fresh empty container, which is returned
                has = heapops.dict_has(st.heap, base, idx)
                st_has, st_miss = st.copy(), st.copy()
                st_has.assume(has)
                if not st_has.infeasible():
                    yield st_has, heapops.dict_read(st_has.heap, base, idx)
                st_miss.assume(z3.Not(has))
                if not st_miss.infeasible():
                    r = st_miss.new_ref("dflt")
                    out = Val(t.v, r)
                    if isinstance(t.v, TSet):
                        heapops.set_write(st_miss.heap, out, z3.K(esort(t.v.e), z3.BoolVal(False)))
                    else:
                        heapops.list_write(st_miss.heap, out, z3.Empty(z3.SeqSort(esort(t.v.e))))
                    heapops.dict_store(st_miss.heap, base, idx, out)
                    yield st_miss, out
                return
            if t.udict:
                if not isinstance(t.v, (TNum, TInt)):
                    raise Unsupported(f"read of {t}: default factory not modelled")
                yield st, heapops.dict_read(st.heap, base, idx)
                return
            for st1 in self.guard_exc(st, heapops.dict_has(st.heap, base, idx), "KeyError", node):
                yield st1, heapops.dict_read(st1.heap, base, idx)
            return
        if isinstance(t, (TList, TSeq)):
            seq = heapops.list_seq(st.heap, base) if isinstance(t, TList) else base.v
            n = z3.Length(seq)
            i = spec.norm_index(idx.v, n)
            for st1 in self.guard_exc(st, z3.And(i >= 0, i < n), "IndexError", node):
                yield st1, eunpack(seq[i], t.e)
            return
        if isinstance(t, TStr):
            n = z3.Length(base.v)
            i = spec.norm_index(idx.v, n)
            for st1 in self.guard_exc(st, z3.And(i >= 0, i < n), "IndexError", node):
                yield st1, Val(STR, z3.SubString(base.v, i, 1))
            return
        if isinstance(t, TTuple):
            i = _lit_int(idx)
            if not -len(base.v) <= i < len(base.v):
                self.sink_raise(st, ExcVal("IndexError", [], node), node)
                return
            yield st, base.v[i]
            return
        if isinstance(t, TMap):
            yield st, t.v.make([z3.Select(base.v[1], idx.v)])
            return
        raise Unsupported(f"subscript on {t} at line {node.lineno}")

    def ev_Tuple(self, node, st):
        yield from self._ev_seq(node.elts, st, lambda items: Val(TTuple([i.t for i in items]), tuple(items)))

    def _ev_seq(self, elts, st, build):
        def rec(i, st, acc):
            if i == len(elts):
                yield st, build(acc)
                return
            e = elts[i]
            if isinstance(e, ast.Starred):
                raise Unsupported("starred element")
            for st1, v in self.ev(e, st):
                yield from rec(i + 1, st1, acc + [v])

        yield from rec(0, st, [])

    def ev_List(self, node, st):
        if not node.elts:
            yield st, EmptyLit("list")
            return

        for st1, tup in self._ev_seq(node.elts, st, lambda items: items):
            items = tup
            if not items:
                raise Unsupported("empty list literal needs a typed context (use contract ghost types)")
            et = items[0].t
            for it in items[1:]:
                if not compatible(it.t, et):
                    raise Unsupported("heterogeneous list literal")
            r = st1.new_ref("list")
            out = Val(TList(et), r)
            seq = z3.Empty(z3.SeqSort(esort(et)))
            for it in items:
                seq = z3.Concat(seq, z3.Unit(coerce(it, et).v))
            heapops.list_write(st1.heap, out, seq)
            yield st1, out

    def ev_Dict(self, node, st):
        if not node.keys:
            yield st, EmptyLit("dict")
            return
        if any(k is None for k in node.keys):
            raise Unsupported("dict literal with ** unpacking")

        def rec(i, st, acc):
            if i == len(node.keys):
                kt, vt = acc[0][0].t, acc[0][1].t
                for k, v in acc[1:]:
                    if not compatible(k.t, kt) or not compatible(v.t, vt):
                        raise Unsupported("heterogeneous dict literal")
                t = TDict(kt, vt)
                r = st.new_ref("dict")
                out = Val(t, r)
                heapops.dict_set_contents(st.heap, out, z3.K(t.ksort(), z3.BoolVal(False)),
                                          [z3.K(t.ksort(), d) for d in vt.default_terms()])
                for k, v in acc:
                    heapops.dict_store(st.heap, out, coerce(k, kt), coerce(v, vt))
                yield st, out
                return
            for st1, k in self.ev(node.keys[i], st):
                for st2, v in self.ev(node.values[i], st1):
                    yield from rec(i + 1, st2, acc + [(k, v)])

        yield from rec(0, st, [])

    def materialise_empty(self, lit, t, st):
        r = st.new_ref("lit")
        out = Val(t, r)
        if isinstance(t, TDict):
            heapops.dict_set_contents(st.heap, out, z3.K(t.ksort(), z3.BoolVal(False)),
                                      [z3.K(t.ksort(), d) for d in t.v.default_terms()])
        elif isinstance(t, TList):
            heapops.list_write(st.heap, out, z3.Empty(z3.SeqSort(esort(t.e))))
        elif isinstance(t, TSet):
            heapops.set_write(st.heap, out, z3.K(esort(t.e), z3.BoolVal(False)))
        else:
            raise Unsupported(f"empty literal stored as {t}")
        return out

    def ev_JoinedStr(self, node, st):
        # f-string: an uninterpreted string (only used for messages)
        yield st, Val(STR, z3.String(fresh_name("fstr")))

    def ev_BoolOp(self, node, st):
        def rec(i, st):
            for st1, v in self.ev(node.values[i], st):
                if i == len(node.values) - 1:
                    yield st1, v
                    continue
                c = z3.simplify(self.truth(v, st1))
                stop = c if isinstance(node.op, ast.Or) else z3.Not(c)
                go = z3.Not(stop)
                if not z3.is_false(z3.simplify(stop)):
                    sa = st1.copy()
                    sa.assume(stop)
                    if not sa.infeasible():
                        yield sa, v
                if not z3.is_false(z3.simplify(go)):
                    sb = st1.copy()
                    sb.assume(go)
                    if not sb.infeasible():
                        yield from rec(i + 1, sb)

        yield from rec(0, st)

    def ev_UnaryOp(self, node, st):
        for st1, v in self.ev(node.operand, st):
            if isinstance(node.op, ast.Not):
                yield st1, boolv(z3.Not(self.truth(v, st1)))
            elif isinstance(node.op, ast.USub):
                if isinstance(v, Val) and isinstance(v.t, TRef):
                    key = self.find_method(v.t.cls, "__neg__")
                    if key is None:
                        raise Unsupported(f"-x on {v.t}")
                    yield from self.call_contract(key, [v], {}, st1, node)
                elif isinstance(v.t, TInt):
                    yield st1, Val(INT, -v.v)
                elif is_numeric(v):
                    yield st1, Val(NUM, -to_real(v))
                else:
                    raise Unsupported(f"unary minus on {v.t}")
            elif isinstance(node.op, ast.UAdd):
                yield st1, v
            else:
                raise Unsupported("unary op")

    _DUNDER = {ast.Add: "add", ast.Sub: "sub", ast.Mult: "mul", ast.Div: "truediv", ast.Pow: "pow",
               ast.FloorDiv: "floordiv", ast.Mod: "mod"}

    def ev_BinOp(self, node, st):
        for st1, a in self.ev(node.left, st):
            for st2, b in self.ev(node.right, st1):
                yield from self.binop(node.op, a, b, st2, node)

    def binop(self, op, a, b, st, node):
        if isinstance(a, Val) and isinstance(a.t, TRef):
            nm = self._DUNDER.get(type(op))
            key = self.find_method(a.t.cls, f"__{nm}__") if nm else None
            if key is None:
                raise Unsupported(f"operator {type(op).__name__} on {a.t}")
            yield from self.call_contract(key, [a, b], {}, st, node)
            return
        if isinstance(b, Val) and isinstance(b.t, TRef):
            nm = self._DUNDER.get(type(op))
            key = self.find_method(b.t.cls, f"__r{nm}__") if nm else None
            if key is None:
                raise Unsupported(f"reflected operator {type(op).__name__} on {b.t}")
            yield from self.call_contract(key, [b, a], {}, st, node)
            return
        if not isinstance(a, Val) or not isinstance(b, Val):
            raise Unsupported(f"operator on {a}, {b}")
        for which, x in (("a", a), ("b", b)):
            if isinstance(x.t, TUnion):
                idx = [i for i, al in enumerate(x.t.alts) if isinstance(al, (TNum, TInt))
                       or (isinstance(al, TOpt) and isinstance(al.inner, (TNum, TInt)))]
                if len(idx) == 1:
                    for st1 in self.guard_exc(st, x.v[0] == idx[0], "TypeError", node):
                        if which == "a":
                            yield from self.binop(op, x.v[1][idx[0]], b, st1, node)
                        else:
                            yield from self.binop(op, a, x.v[1][idx[0]], st1, node)
                    return
            if isinstance(x.t, TOpt) and isinstance(x.t.inner, (TNum, TInt)):
                for st1 in self.guard_exc(st, z3.Not(x.v[0]), "TypeError", node):
                    if which == "a":
                        yield from self.binop(op, x.v[1], b, st1, node)
                    else:
                        yield from self.binop(op, a, x.v[1], st1, node)
                return
        if isinstance(op, (ast.BitOr, ast.Sub, ast.BitAnd)) and isinstance(a.t, (TSet, TSetV)) and isinstance(b.t, (TSet, TSetV)) \
                and a.t.e == b.t.e:
            # set algebra: a fresh set object (the in-place forms |=, -=, &= are handled by st_AugAssign)
            x = heapops.set_arr(st.heap, a) if isinstance(a.t, TSet) else a.v
            y = heapops.set_arr(st.heap, b) if isinstance(b.t, TSet) else b.v
            arr = z3.SetUnion(x, y) if isinstance(op, ast.BitOr) else z3.SetDifference(x, y) if isinstance(op, ast.Sub) \
                else z3.SetIntersect(x, y)
            r = st.new_ref("set")
            out = Val(TSet(a.t.e), r)
            heapops.set_write(st.heap, out, arr)
            yield st, out
            return
        if isinstance(op, ast.Add) and isinstance(a.t, TList) and isinstance(b.t, TList) and a.t == b.t:
            r = st.new_ref("list")
            out = Val(a.t, r)
            heapops.list_write(st.heap, out, z3.Concat(heapops.list_seq(st.heap, a), heapops.list_seq(st.heap, b)))
            yield st, out
            return
        if isinstance(op, (ast.Div, ast.FloorDiv, ast.Mod)) and is_numeric(a) and is_numeric(b):
            nz = to_real(b) != 0
            for st1 in self.guard_exc(st, nz, "ZeroDivisionError", node):
                yield st1, ops.arith(op, a, b)
            return
        if isinstance(op, ast.Mod) and isinstance(a.t, TStr):
            yield st, Val(STR, z3.String(fresh_name("fmt")))
            return
        yield st, ops.arith(op, a, b)

    def ev_Compare(self, node, st):
        def rec(i, st, left, acc):
            if i == len(node.ops):
                yield st, boolv(z3.And(*acc) if len(acc) > 1 else acc[0])
                return
            for st1, right in self.ev(node.comparators[i], st):
                for st2, c in self.compare1(node.ops[i], left, right, st1, node):
                    if len(node.ops) > 1 and i < len(node.ops) - 1:
                        # chained comparison short-circuits; operands here are pure in practice
                        pass
                    yield from rec(i + 1, st2, right, acc + [c])

        for st0, left in self.ev(node.left, st):
            yield from rec(0, st0, left, [])

    def compare1(self, op, a, b, st, node):
        if isinstance(op, (ast.In, ast.NotIn)):
            for st1, c in self.contains(b, a, st, node):
                yield st1, (c if isinstance(op, ast.In) else z3.Not(c))
            return
        if isinstance(op, (ast.Is, ast.IsNot)):
            def _cls_term(x):
                if isinstance(x, FuncVal) and x.kind == "dynclass" and x.recv is not None:
                    return heapops.class_of(st.heap, x.recv.v)
                if isinstance(x, FuncVal) and x.kind == "class" and x.name in decl.CLASSES:
                    return z3.IntVal(decl.CLASSES[x.name].id)
                return None

            ca, cb = _cls_term(a), _cls_term(b)
            if ca is not None and cb is not None:
                # identity of class objects: x.__class__ is y.__class__ / x.__class__ is C
                r = ca == cb
                yield st, (r if isinstance(op, ast.Is) else z3.Not(r))
                return
            if isinstance(a, FuncVal) or isinstance(b, FuncVal) or isinstance(a, PyObj) or isinstance(b, PyObj):
                raise Unsupported("`is` on function objects")
            r = ops.identity(a, b)
            yield st, (r if isinstance(op, ast.Is) else z3.Not(r))
            return
        if isinstance(op, (ast.Eq, ast.NotEq)):
            for st1, c in self.equals(a, b, st, node):
                yield st1, (c if isinstance(op, ast.Eq) else z3.Not(c))
            return
        if isinstance(a, Val) and isinstance(a.t, TRef):
            nm = {ast.Lt: "__lt__", ast.LtE: "__le__", ast.Gt: "__gt__", ast.GtE: "__ge__"}[type(op)]
            key = self.find_method(a.t.cls, nm)
            if key is None:
                raise Unsupported(f"{nm} on {a.t}")
            for st1, r in self.call_contract(key, [a, b], {}, st, node):
                yield st1, self.truth(r, st1)
            return
        yield st, ops.compare(op, a, b)

    def equals(self, a, b, st, node):
        """python == with dispatch to __eq__ contracts for objects."""
        from .calls import ARITH_TAGS

        for x, y in ((a, b), (b, a)):
            if isinstance(x, Val) and isinstance(x.t, TOpaque) and x.t.tag in ARITH_TAGS and isinstance(y, (PyObj, FuncVal)):
                import operator as _op

                obj = getattr(y, "obj", None)
                if obj is not None and getattr(obj, "__module__", "") in ("_operator", "operator"):
                    yield st, z3.BoolVal(obj is getattr(_op, ARITH_TAGS[x.t.tag]))
                    return
        if isinstance(a, Val) and isinstance(a.t, TRef):
            key = self.find_method(a.t.cls, "__eq__")
            if key is None:
                if isinstance(b, Val) and isinstance(b.t, TRef) and self.find_method(b.t.cls, "__eq__") is None:
                    yield st, a.v == b.v  # default identity comparison
                    return
                raise Unsupported(f"== on {a.t} without __eq__ contract")
            for st1, r in self.call_contract(key, [a, b], {}, st, node):
                yield st1, self.truth(r, st1)
            return
        if isinstance(b, Val) and isinstance(b.t, TRef):
            yield from self.equals(b, a, st, node)
            return
        if isinstance(a, Val) and isinstance(b, Val):
            if isinstance(a.t, TDict) and isinstance(b.t, TDict):
                yield st, self.dict_eq(a, b, st)
                return
            if isinstance(a.t, TOpaque) and isinstance(b.t, TOpaque):
                if a.t.tag == "Other" or b.t.tag == "Other":
                    yield st, z3.Bool(fresh_name("other_eq"))
                    return
                yield st, a.v == b.v
                return
            if isinstance(a.t, TOpaque) or isinstance(b.t, TOpaque):
                o, x = (a, b) if isinstance(a.t, TOpaque) else (b, a)
                if o.t.tag == "Other":
                    # arbitrary object compared with a modelled value: unknown result
                    yield st, z3.Bool(fresh_name("other_eq"))
                    return
                yield st, z3.BoolVal(False)
                return
            yield st, val_eq(a, b)
            return
        raise Unsupported(f"== on {a}, {b}")

    def dict_eq(self, a, b, st):
        if a.t.k != b.t.k or a.t.v != b.t.v:
            raise Unsupported("== on dicts of different types")
        conj = [heapops.dict_dom(st.heap, a) == heapops.dict_dom(st.heap, b)]
        conj += [x == y for x, y in zip(heapops.dict_vals(st.heap, a), heapops.dict_vals(st.heap, b))]
        return z3.And(*conj)

    def contains(self, container, item, st, node):
        if isinstance(container, Val) and isinstance(container.t, TRef):
            for dd in decl.mro_decls(container.t.cls):
                if dd.mapping_delegate:
                    container = heapops.read_field(st.heap, container, dd.mapping_delegate)
                    break
            else:
                key = self.find_method(container.t.cls, "__contains__")
                if key is None:
                    raise Unsupported(f"`in` on {container.t}")
                for st1, r in self.call_contract(key, [container, item], {}, st, node):
                    yield st1, self.truth(r, st1)
                return
        if isinstance(container, ViewVal) and container.kind in ("keys",):
            container = container.base
        if isinstance(container.t, TDict) and isinstance(item, Val) and isinstance(item.t, TOpt) \
                and not isinstance(container.t.k, TOpt) and compatible(item.t.inner, container.t.k):
            # None is never a key of such a dict
            inner = coerce(item.v[1], container.t.k)
            yield st, z3.And(z3.Not(item.v[0]), heapops.dict_has(st.heap, container, inner))
            return
        if isinstance(container.t, TDict):
            try:
                item = self.to_key(item, container.t.k, st)
            except Unsupported:
                yield st, z3.BoolVal(False)
                return
        yield st, ops.contains(heapops, st.heap, container, item)

    def ev_IfExp(self, node, st):
        for st1, v in self.ev(node.test, st):
            c = z3.simplify(self.truth(v, st1))
            if not z3.is_false(c):
                sa = st1.copy()
                sa.assume(c)
                yield from self.ev(node.body, sa)
            if not z3.is_true(c):
                sb = st1.copy()
                sb.assume(z3.Not(c))
                yield from self.ev(node.orelse, sb)

    def ev_Lambda(self, node, st):
        yield st, FuncVal("lambda", "<lambda>", extra=(node, dict(st.env)))

    def ev_Call(self, node, st):
        from .calls import ev_call

        yield from ev_call(self, node, st)

    def ev_ListComp(self, node, st):
        from .calls import ev_comprehension

        yield from ev_comprehension(self, node, st)

    ev_SetComp = ev_DictComp = ev_GeneratorExp = ev_ListComp

    def call_contract(self, key, args, kwargs, st, node, ctor_self=None):
        from .calls import call_contract

        yield from call_contract(self, key, args, kwargs, st, node, ctor_self)


def _infeasible_by_solver(pc, timeout_ms=3000):
    s = z3.Solver()
    s.set("timeout", timeout_ms)
    for c in pc:
        s.add(c)
    return s.check() == z3.unsat


def _as_load(node):
    import copy

    n = copy.deepcopy(node)
    for sub in ast.walk(n):
        if hasattr(sub, "ctx"):
            sub.ctx = ast.Load()
    return n


def _short(node):
    try:
        s = ast.unparse(node)
    except Exception:
        s = type(node).__name__
    s = " ".join(s.split())
    return s if len(s) <= 60 else s[:57] + "..."


def _exc_name(node):
    if isinstance(node, ast.Name):
        return node.id
    if isinstance(node, ast.Attribute):
        return node.attr
    raise Unsupported("exception class expression")


def _lit_int(v):
    s = z3.simplify(v.v)
    if z3.is_int_value(s):
        return s.as_long()
    raise Unsupported("index must be a literal")
