"""Contract declarations (the sidecar specification language of DESIGN.md section 3).

Contract modules under /verif/contracts call the functions below at import time.
Nothing here touches /repo.
"""
from __future__ import annotations

import ast
import importlib

from .core import parse_type

DEFAULT_PROPS = []


def default_props(props):
    DEFAULT_PROPS[:] = list(props)


CLASSES = {}  # short name -> ClassDecl
CONTRACTS = {}  # "module:Qual.name" -> Contract
PREDICATES = {}  # name -> Predicate
SPECFNS = {}  # name -> SpecFn
LEMMAS = {}  # name -> Lemma
AXIOMS = []  # (name, text, vars)
STRUCTURAL = []  # (name, callable) structural obligations over the AST
GENERATORS = []  # (property, name, callable -> [Obligation]) closed obligations generated from data


class ClassDecl:
    def __init__(self, key, fields, bases=(), mapping_delegate=None, truthy=None, exc=False, replay_fixup=None):
        self.replay_fixup = replay_fixup
        self.key = key  # "pint.util:UnitsContainer"
        self.module, self.qual = key.split(":")
        self.short = self.qual.split(".")[-1]
        self.fields = {k: parse_type(v) for k, v in fields.items()}
        self.mapping_delegate = mapping_delegate
        self.truthy = truthy
        self.exc = exc
        self.id = len(CLASSES) + 1
        self._real = None

    def real(self):
        if self._real is None:
            obj = importlib.import_module(self.module)
            for part in self.qual.split("."):
                obj = getattr(obj, part)
            self._real = obj
        return self._real


def cls(key, fields=None, **kw):
    d = ClassDecl(key, fields or {}, **kw)
    if d.short in CLASSES:
        # a second declaration would get an id that a later class receives as well (ids are positions): refuse it
        raise ValueError(f"class {d.short} is declared twice")
    assert all(o.id != d.id for o in CLASSES.values())
    CLASSES[d.short] = d
    return d


def class_of_real(real):
    for d in CLASSES.values():
        if d.real() is real:
            return d
    return None


def mro_decls(short):
    """Declared classes along the real MRO of `short` (most specific first)."""
    out = []
    for c in CLASSES[short].real().__mro__:
        d = class_of_real(c)
        if d is not None:
            out.append(d)
    return out


def find_field(short, field):
    for d in mro_decls(short):
        if field in d.fields:
            return d, d.fields[field]
    return None, None


def find_field_down(short, field):
    """Field declared on a (declared) subclass of `short`: returns (subclass decl, type) or (None, None)."""
    for d in CLASSES.values():
        if d.exc or field not in d.fields:
            continue
        try:
            if issubclass(d.real(), CLASSES[short].real()):
                return d, d.fields[field]
        except Exception:
            continue
    return None, None


def is_subclass(a, b):
    return issubclass(CLASSES[a].real(), CLASSES[b].real())


class Contract:
    def __init__(self, key, params, requires=(), ensures=None, raises=None, modifies=(), loops=None,
                 bind=None, returns=None, cases=None, inherits=None, trusted=False, expost=None,
                 decreases=None, pure=False, note="", exc_modifies=None, ghost=None, allow_exc=(), props=None,
                 theories=(), local_types=None, chain=()):
        # labels of postconditions that, once stated as obligations of their own, are available as hypotheses for the
        # postconditions listed after them (a proof is split into steps; each step is still proved)
        self.chain = tuple(chain)
        self.local_types = {k: parse_type(v) for k, v in (local_types or {}).items()}
        self.props = list(props) if props is not None else list(DEFAULT_PROPS)
        self.theories = tuple(theories)
        self.key = key
        self.module, self.qual = key.split(":")
        self.params = {k: parse_type(v) if isinstance(v, str) else v for k, v in params.items()}
        self.requires = _labelled(requires, "pre")
        self.ensures = _labelled(ensures or {}, "post")
        self.raises = dict(raises or {})  # exc class short name -> condition text (iff semantics)
        self.modifies = list(modifies)
        self.loops = loops or {}
        self.bind = bind or {}
        self.returns = parse_type(returns) if isinstance(returns, str) else returns
        self.cases = cases  # optional list of {param: type} overrides, verified separately
        self.inherits = inherits
        self.trusted = trusted  # assumed contract (no body verified): listed in evidence
        self.expost = expost if isinstance(expost, dict) else _labelled(expost or {}, "expost")
        self.decreases = decreases
        self.pure = pure
        self.note = note
        self.exc_modifies = exc_modifies
        self.ghost = ghost or {}
        self.allow_exc = tuple(allow_exc)

    @property
    def short(self):
        return self.qual

    def for_case(self, case):
        """Contract specialised to one type case: `_raises`, `_ensures`, `_requires`, `_modifies`, `_returns` override."""
        import copy as _copy

        c = _copy.copy(self)
        c.params = dict(self.params)
        for k, v in case.items():
            if not k.startswith("_"):
                c.params[k] = parse_type(v) if isinstance(v, str) else v
        if "_raises" in case:
            c.raises = dict(case["_raises"])
        if "_ensures" in case:
            c.ensures = _labelled(case["_ensures"], "post")
        if "_add_ensures" in case:
            c.ensures = dict(self.ensures)
            c.ensures.update(case["_add_ensures"])
        if "_requires" in case:
            c.requires = dict(self.requires)
            c.requires.update(_labelled(case["_requires"], "casepre"))
        if "_modifies" in case:
            c.modifies = list(case["_modifies"])
        if "_returns" in case:
            c.returns = parse_type(case["_returns"])
        if "_loops" in case:
            c.loops = case["_loops"]
        c.cases = None
        c.case_name = case.get("_name")
        return c


def _labelled(x, prefix):
    if isinstance(x, dict):
        return dict(x)
    return {f"{prefix}{i}": t for i, t in enumerate(x)}


def contract(key, **kw):
    c = Contract(key, **kw)
    if c.inherits:
        base = CONTRACTS[c.inherits]
        for k, v in base.requires.items():
            c.requires.setdefault(k, v)
        for k, v in base.ensures.items():
            c.ensures.setdefault(k, v)
        for k, v in base.raises.items():
            c.raises.setdefault(k, v)
        if not c.modifies:
            c.modifies = list(base.modifies)
        if c.returns is None:
            c.returns = base.returns
        for k, v in base.params.items():
            c.params.setdefault(k, v)
    CONTRACTS[key] = c
    return c


class Predicate:
    def __init__(self, name, params, body):
        self.name = name
        self.params = [(p.split(":")[0].strip(), parse_type(p.split(":", 1)[1])) for p in params if p.strip()]
        self.body = body
        self.node = ast.parse("(" + body.strip() + ")", mode="eval").body


def predicate(name, params, body):
    PREDICATES[name] = Predicate(name, params, body)


class SpecFn:
    def __init__(self, name, args, ret):
        self.name = name
        self.args = [parse_type(a) for a in args]
        self.ret = parse_type(ret)


def specfn(name, args, ret):
    SPECFNS[name] = SpecFn(name, args, ret)


def axiom(name, text, lean=None):
    AXIOMS.append((name, text, lean))


class Lemma:
    def __init__(self, name, params, code, requires=(), props=(), theories=()):
        props = list(props) if props else list(DEFAULT_PROPS)
        self.theories = tuple(theories)
        self.name = name
        self.params = {k: parse_type(v) for k, v in params.items()}
        self.code = code
        self.requires = _labelled(requires, "pre")
        self.props = list(props)


def lemma(name, params, code, requires=(), props=(), theories=()):
    LEMMAS[name] = Lemma(name, params, code, requires, props, theories)


def structural(name, fn, props=()):
    STRUCTURAL.append((name, fn, list(props)))
