"""Discharge obligations: z3 (API, in worker processes) first, cvc5 CLI on unknown."""
from __future__ import annotations

import multiprocessing as mp
import os
import subprocess
import tempfile
import time

import z3

Z3_TIMEOUT_MS = int(os.environ.get("PV_Z3_TIMEOUT_MS", "20000"))
CVC5_TIMEOUT_S = int(os.environ.get("PV_CVC5_TIMEOUT_S", "20"))
CVC5 = "/usr/bin/cvc5"


def to_smt2(ob, hyps=None):
    s = z3.Solver()
    if hyps is None:
        hyps = list(getattr(ob, "axioms", [])) + list(ob.hyps)
    for h in hyps:
        s.add(h)
    if ob.expect == "valid":
        s.add(z3.Not(ob.goal))
    else:
        s.add(ob.goal)
    return s.to_smt2()


# --------------------------------------------------------------------------- premise selection (SInE-style)


def _symbols(e, cache):
    key = e.get_id()
    if key in cache:
        return cache[key]
    out = set()
    stack = [e]
    seen = set()
    while stack:
        x = stack.pop()
        i = x.get_id()
        if i in seen:
            continue
        seen.add(i)
        if z3.is_quantifier(x):
            stack.append(x.body())
        elif z3.is_app(x):
            if x.decl().kind() == z3.Z3_OP_UNINTERPRETED:
                out.add(x.decl().name())
            stack.extend(x.children())
    cache[key] = out
    return out


def _has_quantifier(e):
    stack, seen = [e], set()
    while stack:
        x = stack.pop()
        if x.get_id() in seen:
            continue
        seen.add(x.get_id())
        if z3.is_quantifier(x):
            return True
        if z3.is_app(x):
            stack.extend(x.children())
    return False


def select_premises(ob, depth=3, tolerance=1.2, seed_ground=True):
    """Sound premise selection: all ground hypotheses, plus the quantified ones reachable from the
    goal through their *rarest* symbols (SInE).  Proving the goal from a subset of the hypotheses
    proves it from all of them."""
    cache = {}
    hyps = list(getattr(ob, "axioms", [])) + list(ob.hyps)
    flat = []
    for h in hyps:
        flat += list(h.children()) if z3.is_and(h) else [h]
    quant = [h for h in flat if _has_quantifier(h)]
    ground = [h for h in flat if not _has_quantifier(h)]
    occ = {}
    for h in quant:
        for sy in _symbols(h, cache):
            occ[sy] = occ.get(sy, 0) + 1
    trig = {}
    for h in quant:
        sy = _symbols(h, cache)
        if not sy:
            trig[h.get_id()] = set()
            continue
        m = min(occ[x] for x in sy)
        trig[h.get_id()] = {x for x in sy if occ[x] <= tolerance * m}
    relevant = set(_symbols(ob.goal, cache))
    if seed_ground:
        for g in ground:
            relevant |= _symbols(g, cache) if len(str(g)) < 400 else set()
    chosen = []
    chosen_ids = set()
    for _ in range(depth):
        new = [h for h in quant if h.get_id() not in chosen_ids and (trig[h.get_id()] & relevant)]
        if not new:
            break
        for h in new:
            chosen.append(h)
            chosen_ids.add(h.get_id())
            relevant |= _symbols(h, cache)
    return ground + chosen, len(quant), len(chosen)


def _z3_check(text, timeout_ms, opts=None):
    try:
        ctx = z3.Context()
        s = z3.Solver(ctx=ctx)
        s.set("timeout", timeout_ms)
        for k, v in (opts or {}).items():
            s.set(k, v)
        s.from_string(text)
        r = str(s.check())
        return r, (s.reason_unknown() if r == "unknown" else "")
    except Exception as e:  # pragma: no cover
        return "error", f"{type(e).__name__}: {e}"


Z3_OLD = "/usr/bin/z3"  # Debian z3 4.8.12: an independent build used to confirm every `unsat` of the z3-solver wheel
CONFIRM = os.environ.get("PV_NO_CONFIRM") != "1" and os.path.exists(Z3_OLD)


def _z3_cli(text, timeout_s, opts=None):
    with tempfile.NamedTemporaryFile("w", suffix=".smt2", delete=False, dir=os.environ.get("TMPDIR", "/tmp")) as f:
        f.write(text if "(check-sat)" in text else text + "\n(check-sat)\n")
        path = f.name
    try:
        args = [Z3_OLD, f"-T:{int(timeout_s)}"] + [f"{k}={'true' if v is True else 'false' if v is False else v}" for k, v in (opts or {}).items()]
        p = subprocess.run(args + [path], capture_output=True, text=True, timeout=timeout_s + 5)
        out = (p.stdout or "").strip().splitlines()
        return out[0].strip() if out else "unknown"
    except subprocess.TimeoutExpired:
        return "timeout"
    finally:
        os.unlink(path)


def confirm_unsat(text, opts, spent_s, skip_cvc5=False):
    """Second opinion on an `unsat` of z3 5.1.0 (which was observed to answer `unsat` on a satisfiable sequence
    problem, see DESIGN 0.4): the same text, same options, with z3 4.8.12; then its default configuration; then cvc5.
    Returns 'confirmed:<solver>' | 'conflict:<solver>' | 'unconfirmed'."""
    if not CONFIRM:
        return "unconfirmed"
    budget = max(8, min(30, int(3 * spent_s) + 5))
    r = _z3_cli(text, budget, opts)
    if r == "unsat":
        return "confirmed:z3-4.8.12"
    if r == "sat":
        return "conflict:z3-4.8.12"
    if opts:
        r = _z3_cli(text, budget)
        if r == "unsat":
            return "confirmed:z3-4.8.12"
        if r == "sat":
            return "conflict:z3-4.8.12"
    if skip_cvc5:
        return "unconfirmed"
    r, _ = run_cvc5(text, budget)
    if r == "unsat":
        return "confirmed:cvc5"
    if r == "sat":
        return "conflict:cvc5"
    return "unconfirmed"


def _solve_text(args):
    """Walk the portfolio; the first `unsat` that a second solver confirms wins.  An unconfirmed `unsat` is kept as a
    fallback ("(single)") while later stages (smaller premise sets, other configurations) are tried."""
    fallback = None
    ctl = {"deadline": None}
    for res in _solve_stages(args, ctl):
        if len(res) == 6 and res[1] == "unsat" and args[2] == "valid":
            name, r, backend, t, reason, (text_used, opts) = res
            c = confirm_unsat(text_used, opts, t, skip_cvc5=(backend == "cvc5"))
            if c.startswith("conflict"):
                return name, "unknown", backend, t, f"SOLVER DISAGREEMENT: {backend} (z3 {z3.get_version_string()}) says unsat, {c.split(':')[1]} says sat"
            if c.startswith("confirmed"):
                return name, r, backend + "+" + c.split(":")[1], t, reason
            if fallback is None:
                fallback = (name, r, backend + "(single)", t, reason)
                ctl["deadline"] = time.time() + 45  # look a little further for a proof a second solver can confirm
            continue
        if res[1] == "sat" and fallback is not None:
            return res[0], "unknown", res[2], res[3], f"SOLVER DISAGREEMENT: {fallback[2]} says unsat, {res[2]} says sat"
        if res[1] in ("sat", "unsat") or fallback is None:
            return tuple(res[:5])
        break
    if fallback is not None:
        return fallback
    return tuple(res[:5])


def _solve_stages(args, ctl=None):
    """Generator over the portfolio: z3 E-matching configurations on the full problem and on premise-selected
    sub-problems, z3 default, cvc5, z3 with the full budget.  Every `unsat` is yielded with the text and options
    that produced it; the last item is the final sat / unknown verdict."""
    name, text, expect, timeout_ms, use_cvc5 = args[:5]
    subsets = args[5] if len(args) > 5 else []
    lite = bool(args[6]) if len(args) > 6 else False   # retry pass: only the stages that settle obligations in practice
    t0 = time.time()
    first = min(timeout_ms, max(6000, timeout_ms // 4))   # 6 s in the first pass, 15 s in the retry pass (60 s budget)
    subt = max(10000, timeout_ms // 3)   # premise-selected sub-problems: the stage that settles most hard obligations
    LIN = {"smt.mbqi": False, "smt.arith.nl": False}
    EM = {"smt.mbqi": False}
    # Restricted configurations: E-matching only (EM), and additionally nonlinear products treated
    # syntactically (LIN).  Their `unsat` is sound; their `sat`/`unknown` is never used.  Premise-selected
    # sub-problems likewise: proving the goal from a subset of the hypotheses proves it from all.
    def late():
        return bool(ctl and ctl.get("deadline") and time.time() > ctl["deadline"])

    if expect != "valid":  # vacuity (cover) checks: a model is wanted, only the full configuration counts
        r, reason = _z3_check(text, timeout_ms)
        if r == "unsat":
            # "the hypotheses are contradictory" is an `unsat` like any other: it counts only when a second solver build agrees
            # (DESIGN 0.4; observed: z3 5.1.0 answering unsat on Group.remove_units/cover.return in 1 s inside a full run, while
            # the same text, up to generated names, times out in z3 5.1.0 and 4.8.12 when solved on its own)
            c = confirm_unsat(text, {}, time.time() - t0)
            if not c.startswith("confirmed"):
                r, reason = "unknown", f"unsat from z3 {z3.get_version_string()} only ({c}); no contradiction established"
        yield name, r, "z3", time.time() - t0, reason
        return
    r1, _ = _z3_check(text, 2500, LIN)
    if r1 == "unsat":
        yield name, r1, "z3-lin", time.time() - t0, "", (text, LIN)
    for tag, sub in subsets:
        if late():
            break
        r1, _ = _z3_check(sub, subt, EM)
        if r1 == "unsat":
            yield name, r1, f"z3-{tag}", time.time() - t0, "", (sub, EM)
    if late():
        yield name, "unknown", "z3", time.time() - t0, "no confirmable proof found within the extra budget"
        return
    r1, _ = _z3_check(text, first, EM)
    if r1 == "unsat":
        yield name, r1, "z3-ematch", time.time() - t0, "", (text, EM)
    if late():
        yield name, "unknown", "z3", time.time() - t0, "no confirmable proof found within the extra budget"
        return
    r, reason = _z3_check(text, first)
    if r in ("sat", "unsat"):
        yield name, r, "z3", time.time() - t0, reason, (text, {})
        if r == "sat":
            return
    if lite:
        yield name, "unknown", "z3", time.time() - t0, reason or "undecided in the retry pass as well"
        return
    for tag, sub in subsets:
        if late():
            break
        r1, _ = _z3_check(sub, subt, LIN)
        if r1 == "unsat":
            yield name, r1, f"z3-{tag}-lin", time.time() - t0, "", (sub, LIN)
    for tag, sub in subsets[:2]:
        if late():
            break
        r1, _ = _z3_check(sub, subt)
        if r1 == "unsat":
            yield name, r1, f"z3-{tag}-nl", time.time() - t0, "", (sub, {})
    if late():
        yield name, "unknown", "z3", time.time() - t0, "no confirmable proof found within the extra budget"
        return
    r1, _ = _z3_check(text, 3 * first, LIN)
    if r1 == "unsat":
        yield name, r1, "z3-lin", time.time() - t0, "", (text, LIN)
    if late():
        yield name, "unknown", "z3", time.time() - t0, "no confirmable proof found within the extra budget"
        return
    if use_cvc5:
        r2, reason2 = run_cvc5(text)
        if r2 in ("sat", "unsat"):
            yield name, r2, "cvc5", time.time() - t0, reason2, (text, {})
            if r2 == "sat":
                return
        reason = f"z3: {reason}; cvc5: {reason2}"
    if timeout_ms > first:
        r, reason3 = _z3_check(text, timeout_ms)
        if r in ("sat", "unsat"):
            yield name, r, "z3", time.time() - t0, reason3, (text, {})
            return
        reason = f"{reason}; z3 (full budget): {reason3}"
    yield name, r if r not in ("unsat",) else "unknown", "z3", time.time() - t0, reason


def run_cvc5(text, timeout_s=None):
    timeout_s = timeout_s or CVC5_TIMEOUT_S
    with tempfile.NamedTemporaryFile("w", suffix=".smt2", delete=False, dir=os.environ.get("TMPDIR", "/tmp")) as f:
        f.write("(set-logic ALL)\n" + text.replace("(set-info :status unknown)\n", ""))
        path = f.name
    try:
        p = subprocess.run([CVC5, "--lang=smt2", "--strings-exp", f"--tlimit={timeout_s * 1000}", path],
                           capture_output=True, text=True, timeout=timeout_s + 5)
        out = (p.stdout or "").strip().splitlines()
        r = out[0].strip() if out else "unknown"
        if r not in ("sat", "unsat", "unknown"):
            return "unknown", (p.stdout + p.stderr)[:300]
        return r, ""
    except subprocess.TimeoutExpired:
        return "unknown", "cvc5 timeout"
    finally:
        os.unlink(path)


class Verdict:
    def __init__(self, name, status, backend, time_s, raw, reason=""):
        self.name, self.status, self.backend, self.time_s, self.raw, self.reason = name, status, backend, time_s, raw, reason

    def __repr__(self):
        return f"{self.status:8} {self.backend:4} {self.time_s:6.2f}s {self.name}"


def classify(expect, raw):
    """proved | failed | unknown"""
    if expect == "valid":
        return {"unsat": "proved", "sat": "failed"}.get(raw, "unknown")
    return {"sat": "proved", "unsat": "failed"}.get(raw, "unknown")


def _job_main(conn, job):
    try:
        conn.send(_solve_text(job))
    except BaseException as e:  # noqa: BLE001
        conn.send((job[0], "error", "z3", 0.0, f"{type(e).__name__}: {e}"))
    finally:
        conn.close()


def run_jobs(jobs, workers, hard_factor=3.0):
    """One process per job (so that a solver that ignores its timeout can be killed)."""
    ctx = mp.get_context("fork")
    pending = list(reversed(jobs))
    running = {}  # name -> (proc, conn, start, hard limit)
    results = []
    while pending or running:
        while pending and len(running) < workers:
            job = pending.pop()
            parent, child = ctx.Pipe(duplex=False)
            p = ctx.Process(target=_job_main, args=(child, job), daemon=True)
            p.start()
            child.close()
            hard = (6 * min(job[3], max(6000, job[3] // 4)) + job[3] + 3 * max(10000, job[3] // 3) * (len(job[5]) if len(job) > 5 else 0)) / 1000.0 * 1.5 + (CVC5_TIMEOUT_S + 6 if job[4] else 0) + 5 + (100 if CONFIRM else 0) + 16 * (len(job[5]) if len(job) > 5 else 0) + (240 if CONFIRM else 0)
            running[job[0]] = (p, parent, time.time(), hard)
        done = []
        for name, (p, conn, t0, hard) in running.items():
            if conn.poll(0):
                try:
                    results.append(conn.recv())
                except EOFError:
                    results.append((name, "error", "z3", time.time() - t0, "worker died"))
                done.append(name)
            elif not p.is_alive():
                results.append((name, "error", "z3", time.time() - t0, "worker died"))
                done.append(name)
            elif time.time() - t0 > hard:
                p.kill()
                results.append((name, "unknown", "z3", time.time() - t0, "hard wall-clock limit (solver ignored its timeout)"))
                done.append(name)
        for name in done:
            p, conn, _, _ = running.pop(name)
            conn.close()
            p.join(timeout=1)
        if not done:
            time.sleep(0.005)
    return results


def solve_all(obligations, workers=None, timeout_ms=None, use_cvc5=True, lite=False):
    workers = workers or min(16, os.cpu_count() or 4)
    timeout_ms = timeout_ms or Z3_TIMEOUT_MS
    jobs = []
    for ob in obligations:
        subsets = []
        if ob.expect == "valid" and len(ob.hyps) > 12:
            seen_sizes = set()
            for depth, tol, seed in ((1, 1.0, False), (1, 1.0, True), (2, 1.0, False), (3, 1.2, False), (3, 1.2, True)):
                try:
                    sel, nq, nsel = select_premises(ob, depth, tol, seed)
                except Exception:  # noqa: BLE001
                    continue
                if nsel >= nq or nsel in seen_sizes:
                    continue
                seen_sizes.add(nsel)
                subsets.append((f"sel{depth}{'g' if seed else ''}", to_smt2(ob, sel)))
        jobs.append((ob.name, to_smt2(ob), ob.expect, timeout_ms, use_cvc5, subsets, lite))
    verdicts = {}
    if not jobs:
        return verdicts
    results = run_jobs(jobs, workers)
    bym = {ob.name: ob for ob in obligations}
    for name, raw, backend, t, reason in results:
        verdicts[name] = Verdict(name, classify(bym[name].expect, raw), backend, t, raw, reason)
    return verdicts


def resolve_in_process(ob, timeout_ms=None, extra=()):
    """Re-solve one obligation in this process to obtain a model (refutation mode)."""
    s = z3.Solver()
    s.set("timeout", timeout_ms or Z3_TIMEOUT_MS)
    for a in getattr(ob, "axioms", []):
        s.add(a)
    for h in ob.hyps:
        s.add(h)
    for e in extra:
        s.add(e)
    s.add(z3.Not(ob.goal) if ob.expect == "valid" else ob.goal)
    r = s.check()
    return str(r), (s.model() if r == z3.sat else None), s


# --------------------------------------------------------------------------- ground instantiation (DESIGN 2.6)


def _consts_by_sort(exprs):
    out = {}
    seen = set()

    def walk(e):
        if e.get_id() in seen:
            return
        seen.add(e.get_id())
        if z3.is_quantifier(e):
            walk(e.body())
            return
        if z3.is_app(e):
            if e.num_args() == 0 and (e.decl().kind() == z3.Z3_OP_UNINTERPRETED or z3.is_string_value(e)):
                out.setdefault(e.sort().sexpr(), {})[e.sexpr()] = e
            for ch in e.children():
                walk(ch)

    for e in exprs:
        walk(e)
    return {k: list(v.values()) for k, v in out.items()}


def ground_problem(ob, max_inst=400):
    """Skolemise, then replace every top-level universal hypothesis by its instances over the
    constants of the problem.  The result is implied by the original problem, so `unsat` here
    proves the obligation; `sat` yields a candidate counterexample (to be replayed)."""
    import itertools

    g = z3.Goal()
    for a in getattr(ob, "axioms", []):
        g.add(a)
    for h in ob.hyps:
        g.add(h)
    g.add(z3.Not(ob.goal) if ob.expect == "valid" else ob.goal)
    res = z3.Then("simplify", "nnf")(g)
    formulas = []
    for sub in res:
        formulas += list(sub)
    flat = []
    for f in formulas:
        flat += list(f.children()) if z3.is_and(f) else [f]
    consts = _consts_by_sort(flat)
    ground, universals = [], []
    for f in flat:
        (universals if (z3.is_quantifier(f) and f.is_forall()) else ground).append(f)
    out = list(ground)
    dropped = 0
    for q in universals:
        n = q.num_vars()
        doms = []
        for i in range(n):
            doms.append(consts.get(q.var_sort(i).sexpr(), []))
        if any(not d for d in doms):
            dropped += 1
            continue
        total = 1
        for d in doms:
            total *= len(d)
        combos = itertools.product(*doms)
        if total > max_inst:
            combos = itertools.islice(combos, max_inst)
        for combo in combos:
            out.append(z3.substitute_vars(q.body(), *reversed(combo)))
    return out, dropped


def solve_ground(ob, timeout_ms=10000):
    try:
        forms, dropped = ground_problem(ob)
    except Exception as e:  # noqa: BLE001
        return "error", None, str(e)
    s = z3.Solver()
    s.set("timeout", timeout_ms)
    for f in forms:
        s.add(f)
    r = s.check()
    note = f"{len(forms)} ground formulas, {dropped} universals without candidates"
    if r == z3.unsat and CONFIRM:
        c = _z3_cli(s.to_smt2(), 20)
        if c == "sat":
            return "unknown", None, note + "; SOLVER DISAGREEMENT on the ground problem (z3 4.8.12 says sat)"
        note += "; confirmed by z3 4.8.12" if c == "unsat" else "; (single)"
    return str(r), (s.model() if r == z3.sat else None), note


# --------------------------------------------------------------------------- problem fingerprints (DESIGN 0.4)


def fingerprint(ob):
    """Structural hash of an obligation (axioms, hypotheses in order, goal): identical for alpha-equivalent problems
    (generated names `x!17` are numbered by first occurrence), independent of let-sharing and AST ids."""
    import hashlib
    import re

    names, memo = {}, {}

    def cname(n):
        m = re.match(r"^(.*)!(\d+)$", n)
        if not m:
            return n
        if n not in names:
            names[n] = f"{m.group(1)}!{len(names)}"
        return names[n]

    def h(e):
        k = e.get_id()
        if k in memo:
            return memo[k]
        if z3.is_quantifier(e):
            parts = ["Q", "A" if e.is_forall() else ("E" if e.is_exists() else "L"), str(e.num_vars())]
            parts += [e.var_sort(i).sexpr() for i in range(e.num_vars())]
            parts.append(h(e.body()))
            for i in range(e.num_patterns()):
                parts.append("P" + h(e.pattern(i)))
        elif z3.is_var(e):
            parts = ["V", str(z3.get_var_index(e)), e.sort().sexpr()]
        elif z3.is_app(e):
            d = e.decl()
            if e.num_args() == 0 and d.kind() != z3.Z3_OP_UNINTERPRETED:
                parts = ["C", e.sexpr()]  # literal
            else:
                parts = ["F", cname(d.name()), e.sort().sexpr(), str(d.kind())]
                try:
                    parts += [str(p) for p in d.params()]
                except Exception:  # noqa: BLE001
                    pass
                ch = [h(c) for c in e.children()]
                if d.kind() in (z3.Z3_OP_AND, z3.Z3_OP_OR, z3.Z3_OP_ADD, z3.Z3_OP_MUL, z3.Z3_OP_EQ, z3.Z3_OP_DISTINCT, z3.Z3_OP_IFF):
                    ch.sort()  # simplification orders the arguments of commutative operators by AST id
                parts += ch
        else:
            parts = ["O", e.sexpr()]
        r = hashlib.sha1("\x1f".join(parts).encode()).hexdigest()
        memo[k] = r
        return r

    acc = hashlib.sha1()
    for a in list(getattr(ob, "axioms", [])) + list(ob.hyps):
        acc.update(h(a).encode())
    acc.update(b"|-")
    acc.update(h(ob.goal).encode())
    acc.update(ob.expect.encode())
    return acc.hexdigest()
