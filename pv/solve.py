"""Discharge obligations: z3 (API, in worker processes) first, cvc5 CLI on unknown."""
from __future__ import annotations

import multiprocessing as mp
import os
import subprocess
import tempfile
import time

import z3

Z3_TIMEOUT_MS = int(os.environ.get("PV_Z3_TIMEOUT_MS", "20000"))
CVC5_TIMEOUT_S = int(os.environ.get("PV_CVC5_TIMEOUT_S", "20"))
CVC5 = "/usr/bin/cvc5"


def to_smt2(ob):
    s = z3.Solver()
    for a in getattr(ob, "axioms", []):
        s.add(a)
    for h in ob.hyps:
        s.add(h)
    if ob.expect == "valid":
        s.add(z3.Not(ob.goal))
    else:
        s.add(ob.goal)
    return s.to_smt2()


def _z3_check(text, timeout_ms):
    try:
        ctx = z3.Context()
        s = z3.Solver(ctx=ctx)
        s.set("timeout", timeout_ms)
        s.from_string(text)
        r = str(s.check())
        return r, (s.reason_unknown() if r == "unknown" else "")
    except Exception as e:  # pragma: no cover
        return "error", f"{type(e).__name__}: {e}"


def _solve_text(args):
    """z3 with a short budget, then cvc5, then z3 with the full budget."""
    name, text, expect, timeout_ms, use_cvc5 = args
    t0 = time.time()
    first = min(timeout_ms, 4000)
    r, reason = _z3_check(text, first)
    if r in ("sat", "unsat"):
        return name, r, "z3", time.time() - t0, reason
    if use_cvc5:
        r2, reason2 = run_cvc5(text)
        if r2 in ("sat", "unsat"):
            return name, r2, "cvc5", time.time() - t0, reason2
        reason = f"z3: {reason}; cvc5: {reason2}"
    if timeout_ms > first:
        r, reason3 = _z3_check(text, timeout_ms)
        if r in ("sat", "unsat"):
            return name, r, "z3", time.time() - t0, reason3
        reason = f"{reason}; z3 (full budget): {reason3}"
    return name, r, "z3", time.time() - t0, reason


def run_cvc5(text, timeout_s=None):
    timeout_s = timeout_s or CVC5_TIMEOUT_S
    with tempfile.NamedTemporaryFile("w", suffix=".smt2", delete=False, dir=os.environ.get("TMPDIR", "/tmp")) as f:
        f.write("(set-logic ALL)\n" + text.replace("(set-info :status unknown)\n", ""))
        path = f.name
    try:
        p = subprocess.run([CVC5, "--lang=smt2", "--strings-exp", f"--tlimit={timeout_s * 1000}", path],
                           capture_output=True, text=True, timeout=timeout_s + 5)
        out = (p.stdout or "").strip().splitlines()
        r = out[0].strip() if out else "unknown"
        if r not in ("sat", "unsat", "unknown"):
            return "unknown", (p.stdout + p.stderr)[:300]
        return r, ""
    except subprocess.TimeoutExpired:
        return "unknown", "cvc5 timeout"
    finally:
        os.unlink(path)


class Verdict:
    def __init__(self, name, status, backend, time_s, raw, reason=""):
        self.name, self.status, self.backend, self.time_s, self.raw, self.reason = name, status, backend, time_s, raw, reason

    def __repr__(self):
        return f"{self.status:8} {self.backend:4} {self.time_s:6.2f}s {self.name}"


def classify(expect, raw):
    """proved | failed | unknown"""
    if expect == "valid":
        return {"unsat": "proved", "sat": "failed"}.get(raw, "unknown")
    return {"sat": "proved", "unsat": "failed"}.get(raw, "unknown")


def solve_all(obligations, workers=None, timeout_ms=None, use_cvc5=True):
    workers = workers or min(16, os.cpu_count() or 4)
    timeout_ms = timeout_ms or Z3_TIMEOUT_MS
    jobs = []
    for ob in obligations:
        jobs.append((ob.name, to_smt2(ob), ob.expect, timeout_ms, use_cvc5))
    verdicts = {}
    if not jobs:
        return verdicts
    if workers <= 1 or len(jobs) == 1:
        results = map(_solve_text, jobs)
    else:
        ctx = mp.get_context("fork")
        pool = ctx.Pool(min(workers, len(jobs)))
        try:
            results = pool.map(_solve_text, jobs, chunksize=1)
        finally:
            pool.close()
            pool.join()
    bym = {ob.name: ob for ob in obligations}
    for name, raw, backend, t, reason in results:
        verdicts[name] = Verdict(name, classify(bym[name].expect, raw), backend, t, raw, reason)
    return verdicts


def resolve_in_process(ob, timeout_ms=None, extra=()):
    """Re-solve one obligation in this process to obtain a model (refutation mode)."""
    s = z3.Solver()
    s.set("timeout", timeout_ms or Z3_TIMEOUT_MS)
    for a in getattr(ob, "axioms", []):
        s.add(a)
    for h in ob.hyps:
        s.add(h)
    for e in extra:
        s.add(e)
    s.add(z3.Not(ob.goal) if ob.expect == "valid" else ob.goal)
    r = s.check()
    return str(r), (s.model() if r == z3.sat else None), s


# --------------------------------------------------------------------------- ground instantiation (DESIGN 2.6)


def _consts_by_sort(exprs):
    out = {}
    seen = set()

    def walk(e):
        if e.get_id() in seen:
            return
        seen.add(e.get_id())
        if z3.is_quantifier(e):
            walk(e.body())
            return
        if z3.is_app(e):
            if e.num_args() == 0 and (e.decl().kind() == z3.Z3_OP_UNINTERPRETED or z3.is_string_value(e)):
                out.setdefault(e.sort().sexpr(), {})[e.sexpr()] = e
            for ch in e.children():
                walk(ch)

    for e in exprs:
        walk(e)
    return {k: list(v.values()) for k, v in out.items()}


def ground_problem(ob, max_inst=400):
    """Skolemise, then replace every top-level universal hypothesis by its instances over the
    constants of the problem.  The result is implied by the original problem, so `unsat` here
    proves the obligation; `sat` yields a candidate counterexample (to be replayed)."""
    import itertools

    g = z3.Goal()
    for a in getattr(ob, "axioms", []):
        g.add(a)
    for h in ob.hyps:
        g.add(h)
    g.add(z3.Not(ob.goal) if ob.expect == "valid" else ob.goal)
    res = z3.Then("simplify", "nnf")(g)
    formulas = []
    for sub in res:
        formulas += list(sub)
    flat = []
    for f in formulas:
        flat += list(f.children()) if z3.is_and(f) else [f]
    consts = _consts_by_sort(flat)
    ground, universals = [], []
    for f in flat:
        (universals if (z3.is_quantifier(f) and f.is_forall()) else ground).append(f)
    out = list(ground)
    dropped = 0
    for q in universals:
        n = q.num_vars()
        doms = []
        for i in range(n):
            doms.append(consts.get(q.var_sort(i).sexpr(), []))
        if any(not d for d in doms):
            dropped += 1
            continue
        total = 1
        for d in doms:
            total *= len(d)
        combos = itertools.product(*doms)
        if total > max_inst:
            combos = itertools.islice(combos, max_inst)
        for combo in combos:
            out.append(z3.substitute_vars(q.body(), *reversed(combo)))
    return out, dropped


def solve_ground(ob, timeout_ms=10000):
    try:
        forms, dropped = ground_problem(ob)
    except Exception as e:  # noqa: BLE001
        return "error", None, str(e)
    s = z3.Solver()
    s.set("timeout", timeout_ms)
    for f in forms:
        s.add(f)
    r = s.check()
    return str(r), (s.model() if r == z3.sat else None), f"{len(forms)} ground formulas, {dropped} universals without candidates"
