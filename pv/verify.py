"""Verification of one function / lemma against its contract: builds the initial symbolic
state, runs the symbolic executor, emits exit obligations."""
from __future__ import annotations

import ast
import time

import z3

from . import decl, heapops, ops, source, spec
from .calls import assume_type_facts, resolve_targets
from .core import (NONE, NONEV, ExcVal, FuncVal, StaleContract, State, TNone, TOpaque, TRef, TSeq, Unsupported, Val,
                   coerce, fresh_name, parse_type)
from .exec import Exec, Obligation, Outcome, exc_subclass
from .loops import frame_goal


class FunctionResult:
    def __init__(self, key):
        self.key = key
        self.obligations = []
        self.status = "ok"  # ok | unsupported | stale
        self.message = ""
        self.path = None
        self.lineno = None
        self.sha1 = None
        self.paths = 0
        self.params = {}
        self.heap_initial = {}
        self.axioms = []
        self.gen_time = 0.0


def theory_axioms(names):
    """z3 axioms of the named theory groups (theory/axioms.py; proved in Lean, see pv.theory_gen)."""
    from theory.axioms import AXIOMS
    from .theory import to_z3

    return [to_z3(term) for group, name, term, _proof in AXIOMS if group in names]


def base_axioms(heap):
    out = []
    seen = set()
    for key, arr in list(heap.initial.items()):
        if key.startswith("val<"):
            dom_key = "dom" + key[3:key.rindex("#")]
            if dom_key not in heap.initial:
                continue
            dom = heap.initial[dom_key]
            vs = arr.sort().range().range()
            ks = arr.sort().range().domain()
            dflt = _default_of(vs)
            r = z3.Int("r!n")
            k = z3.Const("k!n", ks)
            out.append(z3.ForAll([r, k], z3.Implies(z3.Not(z3.Select(z3.Select(dom, r), k)),
                                                     z3.Select(z3.Select(arr, r), k) == dflt)))
    for u in ops.USED:
        if isinstance(u, tuple) and u[0] == "card" and u not in seen:
            seen.add(u)
    for key, f in heapops._card_fns.items():
        out += heapops.card_axioms(f.domain(0).domain())
    for axs in ops.SEQ_AXIOMS.values():
        out += axs
    return out


def _default_of(sort):
    if sort == z3.RealSort():
        return z3.RealVal(0)
    if sort == z3.IntSort():
        return z3.IntVal(0)
    if sort == z3.BoolSort():
        return z3.BoolVal(False)
    if sort == z3.StringSort():
        return z3.StringVal("")
    raise Unsupported(f"default of sort {sort}")


def owner_class(c):
    parts = c.qual.split(".")
    if len(parts) >= 2 and parts[0] in decl.CLASSES and decl.CLASSES[parts[0]].module == c.module:
        return parts[0]
    for p in parts[:-1]:
        if p in decl.CLASSES:
            return p
    return None


def verify_function(key, theories=()) -> FunctionResult:
    ops.reset_per_function()
    heapops._card_fns.clear()
    c = decl.CONTRACTS[key]
    res = FunctionResult(key)
    t0 = time.time()
    try:
        fnode, path, seg = source.find_def(c.module, c.qual)
        res.path, res.lineno, res.sha1 = path, fnode.lineno, source.sha1(seg)
        cases = c.cases or [{}]
        for ci, case in enumerate(cases):
            label = case.get("_name", f"case{ci}") if c.cases else None
            _verify_case(c, fnode, case, label, res)
    except Unsupported as e:
        res.status, res.message = "unsupported", str(e)
    except StaleContract as e:
        res.status, res.message = "stale", str(e)
    res.gen_time = time.time() - t0
    return res


def _param_names(fnode):
    a = fnode.args
    names = [x.arg for x in a.posonlyargs + a.args]
    if a.vararg:
        names.append(a.vararg.arg)
    names += [x.arg for x in a.kwonlyargs]
    if a.kwarg:
        names.append(a.kwarg.arg)
    return names


def _verify_case(c, fnode, case, label, res, lemma_body=None):
    base = c
    if case:
        c = c.for_case(case)
    ex = Exec(c, fnode, owner_cls=owner_class(base), case=label)
    st = State()
    types = dict(c.params)
    for name in _param_names(fnode):
        if name not in types:
            raise StaleContract(f"{c.key}: parameter `{name}` is not declared in the contract")
        v = types[name].fresh(name)
        st.env[name] = v
        assume_type_facts(st, v)
        ex.note_type(types[name])
    for name in types:
        if name not in st.env and not name.startswith("_"):
            if name in c.ghost:
                v = types[name].fresh(name)
                st.env[name] = v
                assume_type_facts(st, v)
            else:
                raise StaleContract(f"{c.key}: contract declares parameter `{name}` that the function does not have")
    st.old_env = dict(st.env)
    from .core import register_entry_params

    register_entry_params(st.env)
    sc0 = ex.scope(st)
    for lab, text in c.requires.items():
        st.assume(spec.sv_bool(text, sc0))
    entry = st.copy()
    # ---- run
    ex.sinks.append([])
    outcomes = list(ex.run_block(fnode.body, st))
    outcomes += ex.sinks.pop()
    sc_entry = spec.Scope(entry.env, entry.heap.old(), entry.heap.old(), entry.env, entry.alloc0, entry.alloc0, {})
    raise_conds = {e: spec.sv_bool(t, sc_entry) for e, t in c.raises.items()}
    mod_targets = resolve_targets(c.modifies, sc_entry)
    is_init = c.qual.endswith("__init__")
    if is_init:
        mod_targets.append(("fields", entry.env[_param_names(fnode)[0]]))
    rt = c.returns if c.returns is not None else NONE
    normal_pcs = []
    for out in outcomes:
        s = out.st
        if out.kind in ("normal", "return"):
            val = out.val if out.kind == "return" else NONEV
            ln = ex.site(out.node)
            if not isinstance(rt, TNone) or not isinstance(getattr(val, "t", None), TNone):
                from .exec import PyObj
                from .core import TBool, TOpt, boolv

                if isinstance(val, PyObj) and val.obj is NotImplemented and isinstance(rt, TBool) \
                        and c.qual.split(".")[-1] in ("__eq__", "__ne__", "__lt__", "__le__", "__gt__", "__ge__"):
                    # the contract's `result` of a rich comparison denotes the outcome of the operator:
                    # NotImplemented from both sides falls back to identity, i.e. False for == (DESIGN 2.2)
                    val = boolv(False)
                elif isinstance(val, ExcVal) and not isinstance(rt, TOpaque):
                    val = coerce(val, rt)
                elif isinstance(val, (ExcVal, FuncVal, PyObj)):
                    if not (isinstance(rt, TOpaque)):
                        raise Unsupported(f"{c.key}: returns a {val} where {rt} is declared")
                elif isinstance(val.t, TOpt) and not isinstance(rt, TOpt) and val.t.inner == rt:
                    ex.oblige(s, f"result-not-None@{ln}", z3.Not(val.v[0]))
                    s.assume(z3.Not(val.v[0]))
                    val = val.v[1]
                else:
                    val = coerce(val, rt)
            env = dict(s.old_env)
            env["result"] = val
            sc = spec.Scope(env, s.heap, s.heap.old(), s.old_env, s.alloc, s.alloc0, s.ghost)
            for lab, text in c.ensures.items():
                g = spec.sv_bool(text, sc)
                ex.oblige(s, f"post.{lab}@{ln}", g)
                if lab in getattr(c, "chain", ()):
                    s.assume(g)
            ex.oblige(s, f"frame@{ln}", frame_goal({}, s.heap, s.alloc0, mod_targets))
            if raise_conds:
                ex.oblige(s, f"raises.none_missed@{ln}", z3.Not(z3.Or(*raise_conds.values())))
            normal_pcs.append(z3.And(*s.pc) if s.pc else z3.BoolVal(True))
        elif out.kind == "raise":
            e = out.val
            decl_name = next((d for d in c.raises if exc_subclass(e.cls, d)), None)
            site = ex.site(out.node if out.node is not None else getattr(e, "node", None))
            if decl_name is None and e.cls in c.allow_exc:
                xp = c.expost.get(e.cls) if isinstance(c.expost.get(e.cls), dict) else None
                if xp:
                    env = dict(s.old_env)
                    sc = spec.Scope(env, s.heap, s.heap.old(), s.old_env, s.alloc, s.alloc0, s.ghost)
                    for lab, text in xp.items():
                        ex.oblige(s, f"expost[{e.cls}].{lab}@{site}", spec.sv_bool(text, sc))
                continue
            if decl_name is None:
                ex.oblige(s, f"no-{e.cls}@{site}", z3.BoolVal(False),
                          info={"exception": e.cls, "why": "exception not allowed by the contract"})
            else:
                ex.oblige(s, f"raises.{decl_name}.only_if@{site}", raise_conds[decl_name])
                env = dict(s.old_env)
                sc = spec.Scope(env, s.heap, s.heap.old(), s.old_env, s.alloc, s.alloc0, s.ghost)
                for lab, text in c.expost.items():
                    if isinstance(text, dict):
                        continue
                    ex.oblige(s, f"expost.{lab}@{site}", spec.sv_bool(text, sc))
                if c.expost or c.exc_modifies is not None:
                    xt = resolve_targets(c.exc_modifies or [], sc_entry)
                    ex.oblige(s, f"exframe@{site}", frame_goal({}, s.heap, s.alloc0, xt))
        else:
            raise Unsupported(f"{c.key}: `{out.kind}` escapes the function body")
    # ---- vacuity
    pre_ok = z3.And(*entry.pc) if entry.pc else z3.BoolVal(True)
    ex.obligations.append(Obligation(f"{ex.prefix}/cover.pre", [], pre_ok, expect="sat"))
    if normal_pcs:
        ex.obligations.append(Obligation(f"{ex.prefix}/cover.return", [], z3.Or(*normal_pcs), expect="sat"))
    elif not c.raises and not c.allow_exc and not any("type-invariant" in o.name for o in ex.obligations):
        raise Unsupported(f"{c.key}: no normal exit and no declared exception")
    res.paths += len(outcomes)
    res.obligations += ex.obligations
    res.params = dict(entry.env)
    res.heap_initial = st.heap.initial
    res.axioms = base_axioms(st.heap) + theory_axioms(getattr(c, "theories", ()) or ())
    for o in ex.obligations:
        o.axioms = res.axioms
        o.func = c.key
        o.params = res.params
        o.heap_initial = res.heap_initial
    return ex


def verify_lemma(name) -> FunctionResult:
    ops.reset_per_function()
    heapops._card_fns.clear()
    lm = decl.LEMMAS[name]
    res = FunctionResult(f"lemma:{name}")
    t0 = time.time()
    try:
        tree = ast.parse(lm.code.strip())
        fnode = tree.body[0]
        c = decl.Contract(f"lemmas:{name}", params={k: v for k, v in lm.params.items()}, requires=lm.requires)
        c.module = "pint"
        res.path, res.lineno, res.sha1 = "<contract>", 0, source.sha1(lm.code)
        ex = Exec(c, fnode, owner_cls=None, module="pint", prefix=f"lemma.{name}")
        st = State()
        for pname in _param_names(fnode):
            v = c.params[pname].fresh(pname)
            st.env[pname] = v
            assume_type_facts(st, v)
        st.old_env = dict(st.env)
        from .core import register_entry_params

        register_entry_params(st.env)
        sc0 = ex.scope(st)
        for lab, text in c.requires.items():
            st.assume(spec.sv_bool(text, sc0))
        entry = st.copy()
        ex.sinks.append([])
        outcomes = list(ex.run_block(fnode.body, st))
        outcomes += ex.sinks.pop()
        pcs = []
        for out in outcomes:
            if out.kind == "raise":
                ex.oblige(out.st, f"no-{out.val.cls}", z3.BoolVal(False))
            else:
                pcs.append(z3.And(*out.st.pc) if out.st.pc else z3.BoolVal(True))
        ex.obligations.append(Obligation(f"{ex.prefix}/cover.pre", [],
                                         z3.And(*entry.pc) if entry.pc else z3.BoolVal(True), expect="sat"))
        if pcs:
            ex.obligations.append(Obligation(f"{ex.prefix}/cover.end", [], z3.Or(*pcs), expect="sat"))
        res.obligations = ex.obligations
        res.params = dict(entry.env)
        res.heap_initial = st.heap.initial
        res.axioms = base_axioms(st.heap) + theory_axioms(lm.theories)
        for o in ex.obligations:
            o.axioms = res.axioms
            o.func = res.key
            o.params = res.params
            o.heap_initial = res.heap_initial
        res.paths = len(outcomes)
    except Unsupported as e:
        res.status, res.message = "unsupported", str(e)
    except StaleContract as e:
        res.status, res.message = "stale", str(e)
    res.gen_time = time.time() - t0
    return res
