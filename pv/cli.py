"""./check <property> [--tier quick|thorough] [--replay file]  (DESIGN.md section 5)

Exit codes: 0 held (possibly with KNOWN-FINDING lines); 1 violation; 2 undecided / stale contract;
3 checker crash.
"""
from __future__ import annotations

import argparse
import importlib
import json
import os
import re
import sys
import time
import traceback

from . import REPO, VERIF

TRUSTED_BASE = [
    "CPython ast module (parsing of /repo sources)",
    "pv symbolic executor / VC generator (/verif/pv; mitigated by seeded-mutation tests and run-time monitor cross-check)",
    "SMT back ends: z3 5.1.0 (wheel, Python API), z3 4.8.12 (Debian, CLI) and cvc5 1.0.3; an unsat counts when two of "
    "them agree, single-solver proofs are listed under single_solver_proofs (DESIGN.md 0.4)",
    "A7 get_name modelled as non-modifying; A8 every object reachable at function entry is allocated (reads through "
    "entry-state terms skip updates at later allocations); A9 multiplicativity of a unit name and the registry of a "
    "Quantity class are fixed during a call; decorators check_implemented / ireduce_dimensions are pass-through for the "
    "modelled operand types (DESIGN.md 7)",
    "Python semantics assumed by the encoding: see DESIGN.md 2.2 (ints/Fractions as mathematical numbers; floats "
    "and Decimals treated as mathematical reals (A1); numeric-tower ==/hash invariant (A3))",
]
DROPPED = ["type annotations", "docstrings and comments", "decorators", "logger.* and warnings.warn calls (treated as no-ops)",
           "f-string / str.format message texts (modelled as unspecified strings)"]


def load_contracts():
    import contracts.props as props  # noqa

    return props


def main(argv=None):
    ap = argparse.ArgumentParser()
    ap.add_argument("prop")
    ap.add_argument("--tier", default=os.environ.get("VERIF_TIER", "quick"))
    ap.add_argument("--replay")
    ap.add_argument("--write-baseline", action="store_true")
    ap.add_argument("--only", help="regex on function keys (debugging)")
    ap.add_argument("--no-standins", action="store_true")
    ap.add_argument("-v", "--verbose", action="store_true")
    args = ap.parse_args(argv)
    try:
        from .runner import run_property, run_replay

        if args.replay:
            code = run_replay(args.prop, args.replay)
        else:
            code = run_property(args.prop, args.tier, seed=int(os.environ.get("VERIF_SEED", "0")),
                                write_baseline=args.write_baseline, only=args.only, verbose=args.verbose,
                                no_standins=args.no_standins)
    except SystemExit:
        raise
    except BaseException:  # noqa: BLE001
        traceback.print_exc()
        print("CHECKER-CRASH", file=sys.stderr)
        code = 3
    sys.exit(code)


if __name__ == "__main__":
    main()
