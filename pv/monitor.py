"""Run-time contract monitor: the same contract texts evaluated on real Python objects.

Used for (a) replaying solver counterexamples on the real code, (b) contract sanity checks on
concrete inputs (bounded stand-ins / cross-check).  Independent of the symbolic engine."""
from __future__ import annotations

import ast
import copy
import importlib
from fractions import Fraction

from . import decl
from .spec import parse


class MonitorUnsupported(Exception):
    pass


class _View(dict):
    def __missing__(self, key):
        return 0


class CScope:
    def __init__(self, env, old_env=None, pre_ids=frozenset(), universe=None):
        self.env = env
        self.old_env = old_env if old_env is not None else env
        self.pre_ids = pre_ids
        self.universe = universe or {}

    def with_env(self, env):
        return CScope(env, self.old_env, self.pre_ids, self.universe)

    def as_old(self):
        return CScope(self.old_env, self.old_env, self.pre_ids, self.universe)


def is_refobj(x):
    if isinstance(x, (dict, list, set)):
        return True
    for d in decl.CLASSES.values():
        try:
            if isinstance(x, d.real()):
                return True
        except Exception:
            pass
    return False


def cv(node, sc):
    node = parse(node)
    f = _D.get(type(node))
    if f is None:
        raise MonitorUnsupported(type(node).__name__)
    return f(node, sc)


def _name(n, sc):
    if n.id in sc.env:
        return sc.env[n.id]
    if n.id in ("float", "int"):
        return {"float": float, "int": int}[n.id]
    if n.id == "Fraction":
        return Fraction
    if n.id == "Decimal":
        import decimal

        return decimal.Decimal
    raise MonitorUnsupported(f"name {n.id}")


def _attr(n, sc):
    return getattr(cv(n.value, sc), n.attr)


def _sub(n, sc):
    base = cv(n.value, sc)
    if isinstance(n.slice, ast.Slice):
        lo = cv(n.slice.lower, sc) if n.slice.lower else None
        hi = cv(n.slice.upper, sc) if n.slice.upper else None
        return base[lo:hi]
    idx = cv(n.slice, sc)
    if isinstance(base, (set, frozenset)):
        return idx in base
    if isinstance(base, dict) and not isinstance(base, _View) and type(base).__name__ != "udict":
        return base.get(idx, 0 if all(isinstance(v, (int, float, Fraction)) for v in base.values()) else None)
    return base[idx]


def _cmp(n, sc):
    left = cv(n.left, sc)
    for op, rn in zip(n.ops, n.comparators):
        right = cv(rn, sc)
        if isinstance(op, ast.In):
            r = left in right
        elif isinstance(op, ast.NotIn):
            r = left not in right
        elif isinstance(op, (ast.Eq, ast.NotEq)):
            if isinstance(left, _View) or isinstance(right, _View):
                e = {k: v for k, v in dict(left).items()} == {k: v for k, v in dict(right).items()}
            elif is_refobj(left) and is_refobj(right):
                e = left is right
            else:
                e = left == right
            r = e if isinstance(op, ast.Eq) else not e
        elif isinstance(op, ast.Lt):
            r = left < right
        elif isinstance(op, ast.LtE):
            r = left <= right
        elif isinstance(op, ast.Gt):
            r = left > right
        elif isinstance(op, ast.GtE):
            r = left >= right
        elif isinstance(op, ast.Is):
            r = left is right
        elif isinstance(op, ast.IsNot):
            r = left is not right
        else:
            raise MonitorUnsupported("cmp")
        if not r:
            return False
        left = right
    return True


def _boolop(n, sc):
    if isinstance(n.op, ast.And):
        return all(bool(cv(v, sc)) for v in n.values)
    return any(bool(cv(v, sc)) for v in n.values)


def _unary(n, sc):
    v = cv(n.operand, sc)
    if isinstance(n.op, ast.Not):
        return not v
    if isinstance(n.op, ast.USub):
        return -v
    return v


def _binop(n, sc):
    a, b = cv(n.left, sc), cv(n.right, sc)
    op = n.op
    if isinstance(a, (set, frozenset)):
        if isinstance(op, ast.BitOr):
            return a | b
        if isinstance(op, ast.BitAnd):
            return a & b
        if isinstance(op, ast.Sub):
            return a - b
    if isinstance(op, ast.Add):
        return a + b
    if isinstance(op, ast.Sub):
        return a - b
    if isinstance(op, ast.Mult):
        return a * b
    if isinstance(op, ast.Div):
        return Fraction(a) / Fraction(b) if isinstance(a, (int, Fraction)) and isinstance(b, (int, Fraction)) else a / b
    if isinstance(op, ast.Pow):
        return a ** b
    if isinstance(op, ast.FloorDiv):
        return a // b
    if isinstance(op, ast.Mod):
        return a % b
    raise MonitorUnsupported("binop")


def _ifexp(n, sc):
    return cv(n.body, sc) if cv(n.test, sc) else cv(n.orelse, sc)


def _tuple(n, sc):
    return tuple(cv(e, sc) for e in n.elts)


def _const(n, sc):
    return n.value


def _universe(sc, tname):
    if tname in sc.universe:
        return sc.universe[tname]
    raise MonitorUnsupported(f"quantifier over {tname}")


def _call(n, sc):
    f = n.func
    if isinstance(f, ast.Subscript) and isinstance(f.value, ast.Name) and f.value.id in ("forall", "exists"):
        tnames = f.slice.elts if isinstance(f.slice, ast.Tuple) else [f.slice]
        lam = n.args[0]
        import itertools

        doms = [_universe(sc, ast.unparse(t)) for t in tnames]
        results = []
        for combo in itertools.product(*doms):
            env = dict(sc.env)
            for a, v in zip(lam.args.args, combo):
                env[a.arg] = v
            results.append(bool(cv(lam.body, sc.with_env(env))))
        return all(results) if f.value.id == "forall" else any(results)
    if isinstance(f, ast.Subscript) and isinstance(f.value, ast.Name) and f.value.id == "empty_map":
        return _View()
    if isinstance(f, ast.Subscript) and isinstance(f.value, ast.Name) and f.value.id == "empty_set":
        return frozenset()
    if isinstance(f, ast.Attribute):
        base = cv(f.value, sc)
        args = [cv(a, sc) for a in n.args]
        return getattr(base, f.attr)(*args)
    name = f.id
    if name == "old":
        return cv(n.args[0], sc.as_old())
    if name == "implies":
        return (not cv(n.args[0], sc)) or bool(cv(n.args[1], sc))
    if name == "iff":
        return bool(cv(n.args[0], sc)) == bool(cv(n.args[1], sc))
    if name == "ite":
        return cv(n.args[1], sc) if cv(n.args[0], sc) else cv(n.args[2], sc)
    if name in ("is_a", "exact_class"):
        x = cv(n.args[0], sc)
        real = decl.CLASSES[n.args[1].value].real()
        return isinstance(x, real) if name == "is_a" else type(x) is real or type(x).__mro__[1] is real
    args = [cv(a, sc) for a in n.args]
    if name == "fresh":
        return id(args[0]) not in sc.pre_ids
    if name == "allocated":
        return True
    if name == "view":
        x = args[0]
        for dd in decl.mro_decls(_short_of(x)):
            if dd.mapping_delegate:
                return _View(getattr(x, dd.mapping_delegate))
        raise MonitorUnsupported("view")
    if name == "contents":
        x = args[0]
        if isinstance(x, dict):
            return _View(x)
        if isinstance(x, (set, frozenset)):
            return frozenset(x)
        return tuple(x)
    if name == "keys":
        return frozenset(args[0].keys())
    if name == "len":
        return len(args[0])
    if name == "same_class":
        return type(args[0]) is type(args[1])
    if name == "subclass_of":
        return isinstance(args[0], type(args[1]))
    if name == "store":
        m, k, v = args
        if isinstance(m, (set, frozenset)):
            return frozenset(m | {k}) if v else frozenset(m - {k})
        m2 = _View(m)
        m2[k] = v
        return m2
    if name == "remove":
        m2 = _View(args[0])
        m2.pop(args[1], None)
        return m2
    if name == "restrict":
        return _View({k: v for k, v in args[0].items() if k in args[1]})
    if name == "pw":
        return args[0] ** args[1]
    if name == "abs":
        return abs(args[0])
    if name == "floor":
        import math

        return math.floor(args[0])
    if name == "hash_items":
        return hash(frozenset(args[0].items()))
    if name == "is_none":
        return args[0] is None
    if name == "some":
        return args[0]
    if name == "startswith":
        return args[0].startswith(args[1])
    if name == "endswith":
        return args[0].endswith(args[1])
    if name == "is_int_typed":
        return isinstance(args[0], int)
    if name in decl.PREDICATES:
        p = decl.PREDICATES[name]
        env = {pn: a for (pn, _), a in zip(p.params, args)}
        return cv(p.node, sc.with_env(env))
    if name in CONCRETE_SPECFNS:
        return CONCRETE_SPECFNS[name](*args)
    raise MonitorUnsupported(f"function {name}")


CONCRETE_SPECFNS = {}


def _short_of(x):
    best = None
    for d in decl.CLASSES.values():
        try:
            if isinstance(x, d.real()):
                if best is None or issubclass(d.real(), best.real()):
                    best = d
        except Exception:
            pass
    if best is None:
        raise MonitorUnsupported(f"object of undeclared class {type(x)}")
    return best.short


_D = {ast.Name: _name, ast.Attribute: _attr, ast.Subscript: _sub, ast.Compare: _cmp, ast.BoolOp: _boolop,
      ast.UnaryOp: _unary, ast.BinOp: _binop, ast.IfExp: _ifexp, ast.Tuple: _tuple, ast.Constant: _const,
      ast.Call: _call}


# --------------------------------------------------------------------------- running a real function under its contract


def real_function(key):
    mod, qual = key.split(":")
    obj = importlib.import_module(mod)
    for p in qual.split("."):
        obj = getattr(obj, p)
    return obj


def _collect_ids(x, out, depth=0):
    if depth > 3 or id(x) in out:
        return
    out.add(id(x))
    for slot in getattr(type(x), "__slots__", ()) or ():
        if hasattr(x, slot):
            _collect_ids(getattr(x, slot), out, depth + 1)
    if hasattr(x, "__dict__") and depth < 2:
        for v in vars(x).values():
            _collect_ids(v, out, depth + 1)
    if isinstance(x, (list, tuple)):
        for v in x:
            _collect_ids(v, out, depth + 1)


def _str_universe(objs):
    keys = set()
    for x in objs:
        if isinstance(x, str):
            keys.add(x)
        d = getattr(x, "_d", None)
        if isinstance(d, dict):
            keys |= set(k for k in d if isinstance(k, str))
        if isinstance(x, dict):
            keys |= set(k for k in x if isinstance(k, str))
        if isinstance(x, (list, tuple, set, frozenset)):
            keys |= set(k for k in x if isinstance(k, str))
    keys |= {"zz_fresh_key"}
    return sorted(keys)


def state_of(x):
    """Comparable snapshot of an object's observable state (for frame checks)."""
    if isinstance(x, dict):
        return ("dict", tuple(sorted((repr(k), repr(v)) for k, v in x.items())))
    if isinstance(x, (list, tuple)):
        return ("seq", tuple(state_of(v) for v in x))
    if isinstance(x, (set, frozenset)):
        return ("set", tuple(sorted(map(repr, x))))
    slots = []
    for c in type(x).__mro__:
        slots += list(getattr(c, "__slots__", ()) or ())
    if slots:
        return (type(x).__name__, tuple((s, state_of(getattr(x, s))) for s in slots if hasattr(x, s)
                                        and s not in ("__weakref__",)))
    return repr(x)


def check_call(c, kwargs, universe_extra=()):
    """Run the real function `c.key` on concrete keyword arguments and evaluate its contract.
    Returns dict(outcome=..., failed=[labels], detail=...)."""
    fn = real_function(c.key)
    old = copy.deepcopy(kwargs)
    pre_ids = set()
    for v in kwargs.values():
        _collect_ids(v, pre_ids)
    uni = {"Str": _str_universe(list(kwargs.values()) + list(universe_extra))}
    sc_pre = CScope(dict(kwargs), old, frozenset(pre_ids), uni)
    for lab, text in c.requires.items():
        if not cv(text, sc_pre):
            return {"outcome": "precondition-false", "failed": [], "detail": lab}
    before = {k: state_of(v) for k, v in kwargs.items()}
    try:
        result = _call_real(fn, kwargs)
        exc = None
    except Exception as e:  # noqa: BLE001
        result, exc = None, e
    failed = []
    detail = {}
    if exc is not None:
        name = type(exc).__name__
        declared = None
        from .exec import exc_real

        for dn in c.raises:
            if isinstance(exc, exc_real(dn)):
                declared = dn
        if declared is None and any(isinstance(exc, exc_real(a)) for a in (c.allow_exc or ())):
            return {"outcome": f"raised {name} (allowed)", "failed": [], "detail": {"exception": f"{name}: {exc}"}}
        if declared is None:
            failed.append(f"no-{name}")
            detail["exception"] = f"{name}: {exc}"
        else:
            ok = cv(c.raises[declared], CScope(old, old, frozenset(pre_ids), uni))
            if not ok:
                failed.append(f"raises.{declared}.only_if")
                detail["exception"] = f"{name}: {exc}"
        return {"outcome": f"raised {name}", "failed": failed, "detail": detail}
    uni = {"Str": _str_universe(list(kwargs.values()) + [result] + list(universe_extra))}
    env = dict(old)  # parameters denote their entry values
    env_cur = dict(kwargs)
    env_post = dict(env_cur)
    env_post["result"] = result
    sc = CScope(env_post, old, frozenset(pre_ids), uni)
    for lab, text in c.ensures.items():
        try:
            if not cv(text, sc):
                failed.append(f"post.{lab}")
        except MonitorUnsupported as e:
            detail.setdefault("unsupported", []).append(f"{lab}: {e}")
    for dn, text in c.raises.items():
        if cv(text, CScope(old, old, frozenset(pre_ids), uni)):
            failed.append("raises.none_missed")
    # frame: arguments not named in `modifies` keep their state
    mod_roots = set()
    for t in c.modifies:
        node = parse(t)
        while isinstance(node, (ast.Attribute, ast.Call)):
            node = node.value if isinstance(node, ast.Attribute) else node.args[0]
        if isinstance(node, ast.Name):
            mod_roots.add(node.id)
    for k, v in kwargs.items():
        if k not in mod_roots and state_of(v) != before[k]:
            failed.append(f"frame.{k}")
    detail["result"] = repr(result)
    return {"outcome": "returned", "failed": failed, "detail": detail}


def _positional_only(fn):
    return False


def _call_real(fn, kwargs):
    """Call the real function; a contract parameter that stands for `*args` is passed as positional arguments."""
    import inspect

    try:
        sig = inspect.signature(fn)
    except (TypeError, ValueError):
        return fn(**kwargs)
    star = [p.name for p in sig.parameters.values() if p.kind is inspect.Parameter.VAR_POSITIONAL]
    if not star or star[0] not in kwargs:
        return fn(**kwargs)
    pos = [kwargs[p.name] for p in sig.parameters.values()
           if p.kind in (inspect.Parameter.POSITIONAL_ONLY, inspect.Parameter.POSITIONAL_OR_KEYWORD) and p.name in kwargs]
    rest = {k: v for k, v in kwargs.items() if k != star[0] and k not in
            [p.name for p in sig.parameters.values() if p.kind in (inspect.Parameter.POSITIONAL_ONLY, inspect.Parameter.POSITIONAL_OR_KEYWORD)]}
    return fn(*pos, *kwargs[star[0]], **rest)
