"""Loops: cut by invariants from the contract (DESIGN.md 2.2)."""
from __future__ import annotations

import ast

import z3

from . import decl, heapops, ops, spec
from .calls import bind_target, iter_domain, resolve_targets
from .core import (esort, epack, eunpack, BOOL, INT, NONEV, NUM, STR, ExcVal, FuncVal, StaleContract, TDict, TInt, TList, TMap, TOpt, TRef,
                   TSeq, TSet, TSetV, TTuple, Unsupported, Val, boolv, coerce, fresh_name, val_ite)
from .exec import Outcome, ViewVal, _short


def frame_goal(before: dict, after_heap, alloc_before, targets):
    """forall o allocated before, not covered by `targets`: every heap array is unchanged at o."""
    locs = {}
    for tg in targets:
        for key, ref in heapops.target_locations(tg):
            locs.setdefault(key, []).append(ref)
    o = z3.Int(fresh_name("o"))
    conj = []
    for key, arr in after_heap.cur.items():
        old = before.get(key)
        if old is None:
            old = after_heap.initial.get(key)
        if old is None or z3.eq(old, arr):
            continue
        if any(r is None for r in locs.get(key, [])):
            continue  # the whole field array is in the frame
        excl = [o != r for r in locs.get(key, [])]
        conj.append(z3.ForAll([o], z3.Implies(z3.And(z3.Select(alloc_before, o), *excl),
                                              z3.Select(arr, o) == z3.Select(old, o))))
    return z3.And(*conj) if conj else z3.BoolVal(True)


def assigned_names(body):
    out = set()
    for stmt in body:
        for n in ast.walk(stmt):
            if isinstance(n, ast.Name) and isinstance(n.ctx, (ast.Store, ast.Del)):
                out.add(n.id)
    return out


def target_names(t):
    if isinstance(t, ast.Name):
        return [t.id]
    if isinstance(t, (ast.Tuple, ast.List)):
        return [x for e in t.elts for x in target_names(e)]
    raise Unsupported("loop target")


def run_loop(ex, node, st):
    try:
        ordinal = ex.loop_nodes.index(node)
    except ValueError:
        raise Unsupported("loop not found in function")
    lspec = ex.c.loops.get(ordinal)
    if node.orelse:
        raise Unsupported("loop else clause")
    if isinstance(node, ast.For):
        for st1, it in ex.ev(node.iter, st):
            if isinstance(it, Val) and isinstance(it.t, TTuple):
                yield from unroll(ex, node, it, st1)
                continue
            if lspec is None:
                raise Unsupported(f"{ex.c.key}: loop {ordinal} (line {node.lineno}) has no invariant in the contract")
            yield from cut_for(ex, node, ordinal, lspec, it, st1)
    else:
        if lspec is None:
            raise Unsupported(f"{ex.c.key}: loop {ordinal} (line {node.lineno}) has no invariant in the contract")
        yield from cut_while(ex, node, ordinal, lspec, st)


def unroll(ex, node, tup, st):
    def rec(i, st):
        if i == len(tup.v):
            yield Outcome("normal", st)
            return
        for o in ex.assign(node.target, tup.v[i], st):
            for out in ex.run_block(node.body, o.st):
                if out.kind in ("normal", "continue"):
                    yield from rec(i + 1, out.st)
                elif out.kind == "break":
                    yield Outcome("normal", out.st)
                else:
                    yield out

    yield from rec(0, st)


def _inv_texts(ex, lspec, tnames):
    extra = {f"t{i}": n for i, n in enumerate(tnames)}
    inv = lspec.get("invariant", {})
    if not isinstance(inv, dict):
        inv = {f"inv{i}": t for i, t in enumerate(inv)}
    return {k: ex.subst(v, extra) for k, v in inv.items()}, extra


def _havoc(ex, node, lspec, st, extra, keep=()):
    """Havoc everything the loop may change; returns resolved heap targets."""
    names = assigned_names(node.body) - set(keep)
    for n in names:
        if n in st.env and isinstance(st.env[n], Val):
            v = st.env[n]
            nv = v.t.fresh(n)
            from .calls import assume_type_facts

            st.env[n] = nv
            assume_type_facts(st, nv)
        elif n in st.env:
            raise Unsupported(f"loop reassigns non-symbolic local {n}")
    texts = [ex.subst(t, extra) for t in lspec.get("modifies", [])]
    targets = resolve_targets(texts, ex.scope(st))
    for tg in targets:
        heapops.havoc_target(st, tg)
    return targets


def cut_for(ex, node, ordinal, lspec, it, st):
    tnames = target_names(node.target)
    inv, extra = _inv_texts(ex, lspec, tnames)
    pre = f"loop{ordinal}"
    if isinstance(it, ViewVal) and it.kind == "range":
        dom = ("range", it.extra[0], it.extra[1])
    elif isinstance(it, ViewVal) and it.kind == "setlisting":
        dom = ("set", it.base)
    else:
        dom = iter_domain(ex, it, st)
    kind = dom[0]
    unordered = kind in ("dict", "set")
    # ---- snapshot of the iterated collection
    if kind == "dict":
        d, mode = dom[1], dom[2]
        keyset0 = heapops.dict_dom(st.heap, d)
        ksort, kt = d.t.k.sort(), d.t.k
    elif kind == "set":
        keyset0 = dom[1].v
        ksort, kt = esort(dom[1].t.e), dom[1].t.e
    elif kind == "seq":
        seq0, et = dom[1], dom[2]
        n0 = z3.Length(seq0)
    elif kind == "range":
        lo0, hi0 = dom[1], dom[2]
    else:
        raise Unsupported(f"for over {kind}")

    def ghosts(state, processed=None, idx=None):
        g = dict(state.ghost)
        if unordered:
            g["processed"] = Val(TSetV(kt), processed)
            g["iterated"] = Val(TSetV(kt), keyset0)
        else:
            g["idx"] = Val(INT, idx)
            if kind == "seq":
                g["iterated"] = Val(TSeq(et), seq0)
        return g

    def inv_terms(state, **kw):
        sc = ex.scope(state)
        sc.ghost = ghosts(state, **kw)
        return {k: spec.sv_bool(t, sc) for k, t in inv.items()}

    # ---- entry
    if unordered:
        entry = inv_terms(st, processed=z3.K(ksort, z3.BoolVal(False)))
    else:
        entry = inv_terms(st, idx=z3.IntVal(0) if kind == "seq" else lo0)
    for k, g in entry.items():
        ex.oblige(st, f"{pre}/inv.entry.{k}", g)
    # ---- arbitrary iteration
    head = st.copy()
    heap_head = dict(head.heap.cur)
    alloc_head = head.alloc
    targets = _havoc(ex, node, lspec, head, extra)
    heap_after_havoc = dict(head.heap.cur)
    if unordered:
        P = z3.Const(fresh_name("processed"), z3.ArraySort(ksort, z3.BoolSort()))
        _k = z3.Const(fresh_name("k"), ksort)
        head.pc.append(z3.ForAll([_k], z3.Implies(z3.Select(P, _k), z3.Select(keyset0, _k))))
        assumed = inv_terms(head, processed=P)
    else:
        I = z3.Int(fresh_name("idx"))
        if kind == "seq":
            head.pc.append(z3.And(I >= 0, I <= n0))
        else:
            head.pc.append(z3.And(I >= lo0, z3.Or(I <= hi0, I == lo0)))
        assumed = inv_terms(head, idx=I)
    for g in assumed.values():
        head.assume(g)
    # ---- exit path
    ext = head.copy()
    if unordered:
        ext.assume(P == keyset0)
    elif kind == "seq":
        ext.assume(I == n0)
    else:
        ext.assume(z3.Not(I < hi0))
    for n in tnames:
        # loop variables keep their last value / may be unbound: not usable after the loop in the subset
        ext.env.pop(n, None)
    ext.trace.append(f"L{node.lineno}: loop exit")
    exit_outcomes = [Outcome("normal", ext)] if not ext.infeasible() else []
    # ---- one iteration
    body = head.copy()
    body.trace.append(f"L{node.lineno}: loop iteration")
    if unordered:
        k = kt.fresh("key")
        body.assume(z3.And(z3.Select(keyset0, k.v), z3.Not(z3.Select(P, k.v))))
        if kind == "dict":
            v = heapops.dict_read(body.heap, d, k)
            elem = {"keys": k, "values": v, "items": Val(TTuple([k.t, v.t]), (k, v))}[mode]
        else:
            elem = k
    elif kind == "seq":
        body.assume(z3.And(I >= 0, I < n0))
        elem = eunpack(seq0[I], et)
    else:
        body.assume(z3.And(I >= lo0, I < hi0))
        elem = Val(INT, I)
    head_snapshot = body.copy()
    outs = []
    for o in ex.assign(node.target, elem, body):
        outs += list(ex.run_block(node.body, o.st))
    results = []
    hints = lspec.get("hints", {})
    if not isinstance(hints, dict):
        hints = {f"h{i}": t for i, t in enumerate(hints)}
    for out in outs:
        if out.kind in ("normal", "continue"):
            s2 = out.st
            if hints:
                # proof hints: intermediate facts, each proved (an obligation of its own) and then used
                sc_h = ex.scope(s2)
                g = ghosts(s2, processed=P) if unordered else ghosts(s2, idx=I)
                g["__head__"] = head_snapshot
                if unordered:
                    g["elem_key"] = k
                    if kind == "dict":
                        g["elem_value"] = v
                else:
                    g["elem"] = elem
                sc_h.ghost = g
                for hl, ht in hints.items():
                    hg = spec.sv_bool(ex.subst(ht, extra), sc_h)
                    ex.oblige(s2, f"{pre}/hint.{hl}", hg)
                    s2.assume(hg)
            if unordered:
                after = inv_terms(s2, processed=z3.Store(P, k.v, z3.BoolVal(True)))
            else:
                after = inv_terms(s2, idx=I + 1)
            for lab, g in after.items():
                ex.oblige(s2, f"{pre}/inv.preserved.{lab}", g)
            if kind == "dict":
                ex.oblige(s2, f"{pre}/iterated-not-resized", heapops.dict_dom(s2.heap, d) == keyset0)
            ex.oblige(s2, f"{pre}/frame", frame_goal(heap_after_havoc, s2.heap, alloc_head, targets))
        elif out.kind == "break":
            s2 = out.st
            ex.oblige(s2, f"{pre}/frame", frame_goal(heap_after_havoc, s2.heap, alloc_head, targets))
            for n in tnames:
                s2.env.pop(n, None)
            results.append(Outcome("normal", s2))
        else:
            results.append(out)
    yield from results
    yield from exit_outcomes


def cut_while(ex, node, ordinal, lspec, st):
    inv, extra = _inv_texts(ex, lspec, [])
    pre = f"loop{ordinal}"

    def inv_terms(state):
        sc = ex.scope(state)
        return {k: spec.sv_bool(t, sc) for k, t in inv.items()}

    for k, g in inv_terms(st).items():
        ex.oblige(st, f"{pre}/inv.entry.{k}", g)
    head = st.copy()
    alloc_head = head.alloc
    targets = _havoc(ex, node, lspec, head, extra)
    heap_after_havoc = dict(head.heap.cur)
    for g in inv_terms(head).values():
        head.assume(g)
    dec0 = None
    if lspec.get("decreases"):
        dec0 = spec.sv(ex.subst(lspec["decreases"], extra), ex.scope(head))
    results = []
    for st1, v in ex.ev(node.test, head):
        c = z3.simplify(ex.truth(v, st1))
        if not z3.is_true(c):
            ext = st1.copy()
            ext.assume(z3.Not(c))
            ext.trace.append(f"L{node.lineno}: while exit")
            if not ext.infeasible():
                results.append(Outcome("normal", ext))
        if z3.is_false(c):
            continue
        body = st1.copy()
        body.assume(c)
        body.trace.append(f"L{node.lineno}: while iteration")
        for out in ex.run_block(node.body, body):
            if out.kind in ("normal", "continue"):
                s2 = out.st
                for lab, g in inv_terms(s2).items():
                    ex.oblige(s2, f"{pre}/inv.preserved.{lab}", g)
                ex.oblige(s2, f"{pre}/frame", frame_goal(heap_after_havoc, s2.heap, alloc_head, targets))
                if dec0 is not None:
                    dec1 = spec.sv(ex.subst(lspec["decreases"], extra), ex.scope(s2))
                    ex.oblige(s2, f"{pre}/decreases", z3.And(dec1.v < dec0.v, dec0.v >= 0))
            elif out.kind == "break":
                ex.oblige(out.st, f"{pre}/frame", frame_goal(heap_after_havoc, out.st.heap, alloc_head, targets))
                results.append(Outcome("normal", out.st))
            else:
                results.append(out)
    yield from results
