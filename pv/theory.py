"""Spec theory: one source (term AST) rendered to z3 axioms and to Lean/Mathlib theorem statements.

Term AST: strings are variables; tuples are applications:
  ("forall", [(name, sort), ...], body)
  ("=", a, b) ("+", a, b) ("-", a, b) ("*", a, b) ("/", a, b) ("<", a, b) ("<=", a, b)
  ("and", a, b, ...) ("or", a, b, ...) ("not", a) ("=>", a, b) ("ite", c, a, b)
  ("num", n) ("mem", k, P) ("insert", P, k) ("empty",) ("get", v, k) ("app", fname, arg...)
  ("zero",)  -- the all-zero exponent map
  ("upd", v, k, x) -- map update
  ("isint", x)
Sorts: "K" (names), "R" (reals), "Set" (finite sets of K), "Map" (K -> R).
"""
from __future__ import annotations

import z3

K, R = z3.StringSort(), z3.RealSort()
SETS = z3.ArraySort(K, z3.BoolSort())
MAPS = z3.ArraySort(K, R)
SORTS = {"K": K, "R": R, "Set": SETS, "Map": MAPS}

FUNCS = {
    # name: (arg sorts, result sort, lean definition)
    "d1": (["K", "K"], "R"),
    "DimS": (["K", "Set", "Map"], "R"),
    "r1": (["K", "K"], "R"),
    "RootS": (["K", "Set", "Map"], "R"),
    "f1": (["K"], "R"),
    "FacS": (["Set", "Map", "R"], "R"),
    "pw": (["R", "R"], "R"),
    "FacDiff": (["Set", "Map", "Set", "Map"], "R"),
    "Exp": (["R"], "R"),
    "Log": (["R"], "R"),
}
_z3f = {}


def zf(name):
    if name not in _z3f:
        if name == "pw":
            from .ops import pw

            _z3f[name] = pw
        else:
            args, ret = FUNCS[name]
            _z3f[name] = z3.Function(name, *[SORTS[a] for a in args], SORTS[ret])
    return _z3f[name]


def to_z3(t, env=None):
    env = env or {}
    if isinstance(t, str):
        return env[t]
    op = t[0]
    if op == "forall":
        env2 = dict(env)
        vs = []
        for n, s in t[1]:
            v = z3.Const(n + "!ax", SORTS[s])
            env2[n] = v
            vs.append(v)
        return z3.ForAll(vs, to_z3(t[2], env2))
    a = [to_z3(x, env) for x in t[1:]] if op not in ("num", "app", "empty", "zero") else None
    if op == "=":
        return a[0] == a[1]
    if op == "+":
        return a[0] + a[1]
    if op == "-":
        return a[0] - a[1]
    if op == "*":
        return a[0] * a[1]
    if op == "/":
        return a[0] / a[1]
    if op == "<":
        return a[0] < a[1]
    if op == "<=":
        return a[0] <= a[1]
    if op == "and":
        return z3.And(*a)
    if op == "or":
        return z3.Or(*a)
    if op == "not":
        return z3.Not(a[0])
    if op == "=>":
        return z3.Implies(a[0], a[1])
    if op == "ite":
        return z3.If(a[0], a[1], a[2])
    if op == "num":
        return z3.RealVal(t[1])
    if op == "mem":
        return z3.Select(a[1], a[0])
    if op == "insert":
        return z3.Store(a[0], a[1], z3.BoolVal(True))
    if op == "empty":
        return z3.K(K, z3.BoolVal(False))
    if op == "zero":
        return z3.K(K, z3.RealVal(0))
    if op == "get":
        return z3.Select(a[0], a[1])
    if op == "upd":
        return z3.Store(a[0], a[1], a[2])
    if op == "isint":
        return z3.IsInt(a[0])
    if op == "app":
        return zf(t[1])(*[to_z3(x, env) for x in t[2:]])
    raise ValueError(op)


LEAN_SORT = {"K": "K", "R": "ℝ", "Set": "Finset K", "Map": "K → ℝ"}


def to_lean(t):
    if isinstance(t, str):
        return t
    op = t[0]
    if op == "forall":
        binders = " ".join(f"({n} : {LEAN_SORT[s]})" for n, s in t[1])
        return f"(∀ {binders}, {to_lean(t[2])})"
    if op == "num":
        return f"({t[1]} : ℝ)"
    if op == "empty":
        return "(∅ : Finset K)"
    if op == "zero":
        return "(fun _ => (0 : ℝ))"
    if op == "app":
        fixed = {"d1": "DimS1", }
        args = " ".join(f"({to_lean(x)})" for x in t[2:])
        head = {"d1": "d1", "r1": "r1", "f1": "f1", "DimS": "LinS d1", "RootS": "LinS r1", "FacS": "FacS f1",
                "pw": "Real.rpow", "FacDiff": "FacDiff f1", "Exp": "Real.exp", "Log": "Real.log"}[t[1]]
        return f"({head} {args})"
    a = [to_lean(x) for x in t[1:]]
    if op in ("=", "+", "-", "*", "/", "<"):
        return f"({a[0]} {op} {a[1]})"
    if op == "<=":
        return f"({a[0]} ≤ {a[1]})"
    if op == "and":
        return "(" + " ∧ ".join(a) + ")"
    if op == "or":
        return "(" + " ∨ ".join(a) + ")"
    if op == "not":
        return f"(¬ {a[0]})"
    if op == "=>":
        return f"({a[0]} → {a[1]})"
    if op == "ite":
        return f"(if {a[0]} then {a[1]} else {a[2]})"
    if op == "mem":
        return f"({a[0]} ∈ {a[1]})"
    if op == "insert":
        return f"(insert {a[1]} {a[0]})"
    if op == "get":
        return f"({a[0]} {a[1]})"
    if op == "upd":
        return f"(Function.update {a[0]} {a[1]} {a[2]})"
    if op == "isint":
        return f"(∃ n : ℤ, {a[0]} = n)"
    raise ValueError(op)
