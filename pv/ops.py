"""Pure operations on symbolic values shared by code-mode and spec-mode evaluation."""
from __future__ import annotations

import ast

import z3

from .core import (esort, epack, eunpack, BOOL, INT, NONEV, NUM, STR, TBool, TDict, TInt, TList, TMap, TNone, TNum, TOpaque, TOpt, TRef,
                   TRefLike, TSeq, TSet, TSetV, TStr, TTuple, TUnion, Unsupported, Val, boolv, coerce, is_numeric,
                   to_real, val_eq)

# numeric type objects (values of NUMTYPE): fixed ids
NUMTYPE_IDS = {"float": 1, "Fraction": 2, "Decimal": 3, "int": 4}

pw = z3.Function("pw", z3.RealSort(), z3.RealSort(), z3.RealSort())
IsIntTyped = z3.Function("IsIntTyped", z3.RealSort(), z3.BoolSort())
IsInstNum = z3.Function("IsInstNum", z3.RealSort(), z3.IntSort(), z3.BoolSort())
H_items = {}  # per key/value sort: uninterpreted hash of a dict's item set
USED = set()  # names of theories used (for axiom inclusion)


def hash_items(dom, val):
    key = (str(dom.sort()), str(val.sort()))
    if key not in H_items:
        H_items[key] = z3.Function(f"H_items_{len(H_items)}", dom.sort(), val.sort(), z3.IntSort())
    return H_items[key](dom, val)


def arith(op, a: Val, b: Val) -> Val:
    """+ - * / on numbers (mathematical reals / ints); string / seq concatenation."""
    if is_numeric(a) and is_numeric(b) or (isinstance(a.t, (TNum, TInt, TBool)) and isinstance(b.t, (TNum, TInt, TBool))):
        both_int = isinstance(a.t, (TInt, TBool)) and isinstance(b.t, (TInt, TBool))
        if both_int and not isinstance(op, (ast.Div, ast.Pow)):
            x = a.v if isinstance(a.t, TInt) else z3.If(a.v, 1, 0)
            y = b.v if isinstance(b.t, TInt) else z3.If(b.v, 1, 0)
            if isinstance(op, ast.Add):
                return Val(INT, x + y)
            if isinstance(op, ast.Sub):
                return Val(INT, x - y)
            if isinstance(op, ast.Mult):
                return Val(INT, x * y)
            if isinstance(op, ast.FloorDiv):
                return Val(INT, py_floordiv_int(x, y))
            if isinstance(op, ast.Mod):
                return Val(INT, py_mod_int(x, y))
        x, y = to_real(a), to_real(b)
        if isinstance(op, ast.Add):
            return Val(NUM, x + y)
        if isinstance(op, ast.Sub):
            return Val(NUM, x - y)
        if isinstance(op, ast.Mult):
            return Val(NUM, x * y)
        if isinstance(op, ast.Div):
            return Val(NUM, x / y)
        if isinstance(op, ast.Pow):
            return Val(NUM, power(x, y))
        if isinstance(op, ast.FloorDiv):
            return Val(NUM, z3.ToReal(z3.ToInt(x / y)))  # floor(x/y)
        if isinstance(op, ast.Mod):
            return Val(NUM, x - y * z3.ToReal(z3.ToInt(x / y)))
        raise Unsupported(f"numeric operator {type(op).__name__}")
    if isinstance(a.t, TStr) and isinstance(b.t, TStr) and isinstance(op, ast.Add):
        return Val(STR, z3.Concat(a.v, b.v))
    if isinstance(a.t, TSeq) and isinstance(b.t, TSeq) and isinstance(op, ast.Add) and a.t == b.t:
        return Val(a.t, z3.Concat(a.v, b.v))
    if isinstance(a.t, TTuple) and isinstance(b.t, TTuple) and isinstance(op, ast.Add):
        from .core import TTuple as _TT

        return Val(_TT(a.t.items + b.t.items), tuple(a.v) + tuple(b.v))
    if isinstance(a.t, TSetV) and isinstance(b.t, TSetV) and a.t == b.t:
        if isinstance(op, ast.BitOr):
            return Val(a.t, z3.SetUnion(a.v, b.v))
        if isinstance(op, ast.BitAnd):
            return Val(a.t, z3.SetIntersect(a.v, b.v))
        if isinstance(op, ast.Sub):
            return Val(a.t, z3.SetDifference(a.v, b.v))
    raise Unsupported(f"operator {type(op).__name__} on {a.t}, {b.t}")


def py_floordiv_int(x, y):
    # Python floor division on ints (z3 `div` is Euclidean for ints: rounds so that remainder >= 0)
    q = x / y  # z3 int div
    r = x % y
    return z3.If(y > 0, q, z3.If(r == 0, q, q - 1))


def py_mod_int(x, y):
    q = py_floordiv_int(x, y)
    return x - y * q


def power(x, y):
    USED.add("pw")
    y_s = z3.simplify(y)
    if z3.is_rational_value(y_s):
        if y_s.as_fraction() == 0:
            return z3.RealVal(1)
        if y_s.as_fraction() == 1:
            return x
        if y_s.as_fraction() == 2:
            return x * x
        if y_s.as_fraction() == -1:
            return 1 / x
    return pw(x, y)


def compare(op, a: Val, b: Val):
    """z3 Bool for a single comparison operator (no containment)."""
    if isinstance(op, ast.Eq):
        return val_eq(a, b)
    if isinstance(op, ast.NotEq):
        return z3.Not(val_eq(a, b))
    if isinstance(op, (ast.Lt, ast.LtE, ast.Gt, ast.GtE)):
        if (is_numeric(a) or isinstance(a.t, TBool)) and (is_numeric(b) or isinstance(b.t, TBool)):
            if isinstance(a.t, TInt) and isinstance(b.t, TInt):
                x, y = a.v, b.v
            else:
                x, y = to_real(a), to_real(b)
            return {ast.Lt: x < y, ast.LtE: x <= y, ast.Gt: x > y, ast.GtE: x >= y}[type(op)]
        if isinstance(a.t, TSetV) and isinstance(b.t, TSetV) and isinstance(op, ast.LtE):
            return z3.IsSubset(a.v, b.v)
        raise Unsupported(f"ordering on {a.t}, {b.t}")
    if isinstance(op, (ast.Is, ast.IsNot)):
        r = identity(a, b)
        return r if isinstance(op, ast.Is) else z3.Not(r)
    raise Unsupported(f"comparison {type(op).__name__}")


def identity(a: Val, b: Val):
    if isinstance(a.t, TNone) or isinstance(b.t, TNone):
        return val_eq(a, b)
    if isinstance(a.t, TOpt) and isinstance(b.t, TOpt):
        return z3.Or(z3.And(a.v[0], b.v[0]), z3.And(z3.Not(a.v[0]), z3.Not(b.v[0]), identity(a.v[1], b.v[1])))
    if isinstance(a.t, TOpt):
        return z3.And(z3.Not(a.v[0]), identity(a.v[1], b))
    if isinstance(b.t, TOpt):
        return identity(b, a)
    if isinstance(a.t, TRefLike) and isinstance(b.t, TRefLike):
        if isinstance(a.t, TOpaque) != isinstance(b.t, TOpaque):
            return z3.BoolVal(False)
        return a.v == b.v
    if isinstance(a.t, TBool) and isinstance(b.t, TBool):
        return a.v == b.v
    raise Unsupported(f"`is` on {a.t}, {b.t}")


def contains(heapops, heap, container: Val, item: Val):
    t = container.t
    if isinstance(t, TDict):
        if not isinstance(item.t, type(t.k)) and isinstance(item.t, TRef):
            from . import decl as _decl

            for dd in _decl.mro_decls(item.t.cls):
                if dd.mapping_delegate:
                    item = heapops.dict_as_map(heap, heapops.read_field(heap, item, dd.mapping_delegate))
        return heapops.dict_has(heap, container, item)
    if isinstance(t, TSet):
        return z3.Select(heapops.set_arr(heap, container), item.v)
    if isinstance(t, TMap):
        from .core import key_term

        return z3.Select(container.v[0], key_term(item))
    if isinstance(t, TSetV):
        return z3.Select(container.v, item.v)
    if isinstance(t, TList):
        return z3.Contains(heapops.list_seq(heap, container), z3.Unit(item.v))
    if isinstance(t, TSeq):
        return z3.Contains(container.v, z3.Unit(item.v))
    if isinstance(t, TStr) and isinstance(item.t, TStr):
        return z3.Contains(container.v, item.v)
    if isinstance(t, TTuple):
        return z3.Or(*[val_eq(x, item) for x in container.v]) if container.v else z3.BoolVal(False)
    raise Unsupported(f"`in` on {t}")


def truth(heapops, heap, v: Val):
    """z3 Bool: python truthiness."""
    from . import decl

    t = v.t
    if isinstance(t, TBool):
        return v.v
    if isinstance(t, TNum):
        return v.v != 0
    if isinstance(t, TInt):
        return v.v != 0
    if isinstance(t, TNone):
        return z3.BoolVal(False)
    if isinstance(t, TStr):
        return z3.Length(v.v) > 0
    if isinstance(t, TOpt):
        return z3.And(z3.Not(v.v[0]), truth(heapops, heap, v.v[1]))
    if isinstance(t, TDict):
        return heapops.dict_dom(heap, v) != z3.K(t.ksort(), z3.BoolVal(False))
    if isinstance(t, TSet):
        return heapops.set_arr(heap, v) != z3.K(esort(t.e), z3.BoolVal(False))
    if isinstance(t, TSetV):
        return v.v != z3.K(esort(t.e), z3.BoolVal(False))
    if isinstance(t, TMap):
        return v.v[0] != z3.K(t.ksort(), z3.BoolVal(False))
    if isinstance(t, TList):
        return z3.Length(heapops.list_seq(heap, v)) > 0
    if isinstance(t, TSeq):
        return z3.Length(v.v) > 0
    if isinstance(t, TTuple):
        return z3.BoolVal(len(v.v) > 0)
    if isinstance(t, TRef):
        d = decl.CLASSES[t.cls]
        for dd in decl.mro_decls(t.cls):
            if dd.truthy == "always":
                return z3.BoolVal(True)
            if dd.mapping_delegate:
                inner = heapops.read_field(heap, v, dd.mapping_delegate)
                return truth(heapops, heap, inner)
            if dd.truthy and dd.truthy.startswith("fields:"):
                # __bool__/__len__ defined by the class: an uninterpreted function of the current values of the named
                # fields (nothing is assumed about it beyond being a function of that state)
                args = []
                for fname in dd.truthy[7:].split(","):
                    fv = heapops.read_field(heap, v, fname.strip())
                    if isinstance(fv.t, TList):
                        args.append(heapops.list_seq(heap, fv))
                    elif isinstance(fv.t, TDict):
                        args.append(heapops.dict_dom(heap, fv))
                    else:
                        args += fv.terms()
                f = z3.Function(f"Truthy_{dd.short}", *[a.sort() for a in args], z3.BoolSort())
                return f(*args)
            if dd.truthy:
                raise Unsupported(f"truthiness of {t} via {dd.truthy}")
        return z3.BoolVal(True)
    if isinstance(t, TOpaque):
        if t.tag in ("NumType", "Type", "Fn"):
            return z3.BoolVal(True)
        raise Unsupported(f"truthiness of opaque {t}")
    if isinstance(t, TUnion):
        return z3.Or(*[z3.And(v.v[0] == i, truth(heapops, heap, alt)) for i, alt in enumerate(v.v[1])])
    raise Unsupported(f"truthiness of {t}")


def length(heapops, heap, v: Val) -> Val:
    t = v.t
    if isinstance(t, TDict):
        USED.add(("card", str(t.ksort())))
        return Val(INT, heapops.card_fn(t.ksort())(heapops.dict_dom(heap, v)))
    if isinstance(t, TMap):
        USED.add(("card", str(t.ksort())))
        return Val(INT, heapops.card_fn(t.ksort())(v.v[0]))
    if isinstance(t, TSet):
        USED.add(("card", str(esort(t.e))))
        return Val(INT, heapops.card_fn(esort(t.e))(heapops.set_arr(heap, v)))
    if isinstance(t, TSetV):
        USED.add(("card", str(esort(t.e))))
        return Val(INT, heapops.card_fn(esort(t.e))(v.v))
    if isinstance(t, TList):
        return Val(INT, z3.Length(heapops.list_seq(heap, v)))
    if isinstance(t, (TSeq, TStr)):
        return Val(INT, z3.Length(v.v))
    if isinstance(t, TTuple):
        return Val(INT, z3.IntVal(len(v.v)))
    raise Unsupported(f"len of {t}")


# --------------------------------------------------------------------------- sequence algebra (reverse, map by a field)
_seq_fns = {}
SEQ_AXIOMS = {}


def seq_rev(seq):
    """SeqRev(s): the reversed sequence, as a function term (shared by code and spec)."""
    so = seq.sort()
    key = ("rev", so.sexpr())
    if key not in _seq_fns:
        f = z3.Function(f"SeqRev<{so.sexpr()}>", so, so)
        _seq_fns[key] = f
        s_ = z3.Const("s!rev", so)
        i = z3.Int("i!rev")
        SEQ_AXIOMS[key] = [
            z3.ForAll([s_], z3.Length(f(s_)) == z3.Length(s_), patterns=[f(s_)]),
            z3.ForAll([s_, i], z3.Implies(z3.And(i >= 0, i < z3.Length(s_)), f(s_)[i] == s_[z3.Length(s_) - 1 - i]),
                      patterns=[f(s_)[i]]),
            # the two ends, instantiated whenever a reversed sequence is mentioned
            z3.ForAll([s_], z3.Implies(z3.Length(s_) > 0, z3.And(f(s_)[0] == s_[z3.Length(s_) - 1],
                                                                  f(s_)[z3.Length(s_) - 1] == s_[0])), patterns=[f(s_)]),
            z3.ForAll([s_], z3.Implies(z3.Length(s_) > 1, f(s_)[1] == s_[z3.Length(s_) - 2]), patterns=[f(s_)]),
        ]
    return _seq_fns[key](seq)


def seq_map_field(field_arr, seq, out_sort):
    """SeqMapF(arr, s): element-wise heap field read  [arr[x] for x in s]  as a function term."""
    so = seq.sort()
    key = ("mapf", so.sexpr(), field_arr.sort().sexpr())
    if key not in _seq_fns:
        rs = z3.SeqSort(out_sort)
        f = z3.Function(f"SeqMapF<{so.sexpr()},{field_arr.sort().sexpr()}>", field_arr.sort(), so, rs)
        _seq_fns[key] = f
        a = z3.Const("a!mapf", field_arr.sort())
        s_ = z3.Const("s!mapf", so)
        i = z3.Int("i!mapf")
        SEQ_AXIOMS[key] = [
            z3.ForAll([a, s_], z3.Length(f(a, s_)) == z3.Length(s_), patterns=[f(a, s_)]),
            z3.ForAll([a, s_, i], z3.Implies(z3.And(i >= 0, i < z3.Length(s_)), f(a, s_)[i] == z3.Select(a, s_[i])),
                      patterns=[f(a, s_)[i]]),
        ]
    return _seq_fns[key](field_arr, seq)


def reset_per_function():
    """Per-function axiom tables start empty, so that the problem text of a function does not depend on what was verified before it."""
    _seq_fns.clear()
    SEQ_AXIOMS.clear()
    USED.clear()
