"""Engine mutation self-test: apply a deliberately property-breaking edit to a scratch copy of
/repo/pint (PV_REPO points the VC generator at it), run the property's check, and require that a
named obligation fails.  Scratch copies live under $TMPDIR and are removed afterwards."""
from __future__ import annotations

import json
import os
import shutil
import subprocess
import sys
import tempfile

VERIF = os.path.dirname(os.path.dirname(os.path.abspath(__file__)))

MUTANTS = [
    # (id, property, file, old, new, regex expected among failing obligations)
    ("mul-forget-del", "C04", "pint/util.py",
     "            new._d[key] += value\n            if new._d[key] == 0:\n                del new._d[key]\n",
     "            new._d[key] += value\n", r"__mul__.*no_zero"),
    ("mul-wrong-sign", "C04", "pint/util.py", "            new._d[key] += value\n", "            new._d[key] -= value\n",
     r"__mul__.*view"),
    ("copy-shares-dict", "C04", "pint/util.py", "        out._d = self._d.copy()\n", "        out._d = self._d\n",
     r"__copy__.*fresh"),
    ("copy-keeps-stale-hash", "C04", "pint/util.py", "        new._hash = None\n        return new\n\n    __rmul__",
     "        return new\n\n    __rmul__", r"__mul__.*hash_reset"),
    ("eq-ignores-hash-mismatch", "C04", "pint/util.py",
     "            if UnitsContainer.__hash__(self) != UnitsContainer.__hash__(other):\n                return False\n",
     "            if UnitsContainer.__hash__(self) == UnitsContainer.__hash__(other):\n                return True\n",
     r"__eq__.*iff"),
    ("pow-adds-exponent", "C04", "pint/util.py", "                new._d[key] *= other\n",
     "                new._d[key] += other\n", r"__pow__.*view"),
    ("dim-recurse-adds-exp", "C01", "pint/facets/plain/registry.py",
     "    ) -> None:\n        for key in ref:\n            exp2 = exp * ref[key]\n            if _is_dim(key):",
     "    ) -> None:\n        for key in ref:\n            exp2 = exp + ref[key]\n            if _is_dim(key):", r"_get_dimensionality_recurse.*inv.preserved.acc"),
    ("dim-recurse-skip-derived", "C01", "pint/facets/plain/registry.py",
     "                    self._get_dimensionality_recurse(reg.reference, exp2, accumulator)\n                else:\n                    # DimensionDefinition.",
     "                    self._get_dimensionality_recurse(reg.reference, exp, accumulator)\n                else:\n                    # DimensionDefinition.",
     r"_get_dimensionality_recurse.*inv.preserved.acc"),
    ("dim-keeps-brackets", "C01", "pint/facets/plain/registry.py",
     "        if \"[]\" in accumulator:\n            del accumulator[\"[]\"]\n", "", r"_get_dimensionality\[uc\].*(dim|cache)"),
    ("dim-cache-wrong-key", "C01", "pint/facets/plain/registry.py",
     "        cache[input_units] = dims\n", "        cache[dims] = dims\n", r"_get_dimensionality\[uc\].*cache"),
    ("root-recurse-scale-not-raised", "C02", "pint/facets/plain/registry.py",
     "                accumulators[None] *= reg.converter.scale**exp2\n", "                accumulators[None] *= reg.converter.scale\n",
     r"_get_root_units_recurse.*(factor|hint)"),
    ("root-recurse-base-wrong-exp", "C02", "pint/facets/plain/registry.py",
     "                accumulators[key] += exp2\n", "                accumulators[key] += exp\n", r"_get_root_units_recurse.*units"),
    ("factor-swapped-ratio", "C02", "pint/facets/plain/registry.py",
     "        factor, _ = self._get_root_units(src / dst)\n", "        factor, _ = self._get_root_units(dst / src)\n",
     r"_get_conversion_factor.*(factor_is_ratio|cache)"),
    ("factor-gate-compares-one-side", "C01", "pint/facets/plain/registry.py",
     "        if src_dim != dst_dim:\n            return DimensionalityError(src, dst, src_dim, dst_dim)\n",
     "        if not src_dim and dst_dim:\n            return DimensionalityError(src, dst, src_dim, dst_dim)\n",
     r"_get_conversion_factor.*error_iff"),
    ("chain-appends-instead-of-prepends", "C12", "pint/facets/context/objects.py",
     "        self.contexts = list(reversed(contexts)) + self.contexts\n", "        self.contexts = self.contexts + list(reversed(contexts))\n",
     r"insert_contexts|enter_exit"),
    ("compare-skips-dimension-check", "C05", "pint/facets/plain/quantity.py",
     "        if self.dimensionality != other.dimensionality:\n            raise DimensionalityError(",
     "        if False:\n            raise DimensionalityError(", r"compare.*(DimensionalityError|raises)"),
    ("eq-compares-magnitudes-only", "C05", "pint/facets/plain/quantity.py",
     "                self._convert_magnitude_not_inplace(other._units),\n                other._magnitude,\n                False,\n            )\n        except DimensionalityError:",
     "                self._magnitude,\n                other._magnitude,\n                False,\n            )\n        except DimensionalityError:",
     r"__eq__.*equal_iff"),
    ("alias-not-indexed", "C08", "pint/facets/plain/registry.py",
     "            self._helper_single_adder(alias, unit, self._units, self._units_casei)\n",
     "            self._helper_single_adder(alias, unit, self._units, None)\n", r"_add_alias.*indexed"),
    ("adder-indexes-wrong-key", "C08", "pint/facets/plain/registry.py",
     "            casei_target_dict[key.lower()].add(key)\n", "            casei_target_dict[key].add(key)\n", r"_helper_single_adder.*index"),
    ("as-delta-false-overridden", "C08", "pint/facets/nonmultiplicative/registry.py",
     "        if as_delta is None:\n            as_delta = self.default_as_delta\n", "        as_delta = as_delta or self.default_as_delta\n",
     r"parse_units_as_container.*explicit"),
    ("literal-int-via-float", "C07", "pint/util.py",
     "                try:\n                    return int(token_text)\n                except ValueError:\n                    return float(token_text)\n",
     "                return float(token_text)\n", r"eval_token.*integer_literals"),
    ("check-accepts-same-class", "C18", "pint/util.py",
     "        if self._REGISTRY is getattr(other, \"_REGISTRY\", None):\n            return True\n",
     "        if self._REGISTRY is getattr(other, \"_REGISTRY\", None) or other.__class__ is self.__class__:\n            return True\n",
     r"_check.*(same_registry|raises)"),
    ("addsub-adds-raw-magnitudes", "C03", "pint/facets/plain/quantity.py",
     "                magnitude = op(self._magnitude, other.to(self._units).magnitude)\n",
     "                magnitude = op(self._magnitude, other._magnitude)\n", r"_add_sub.*physical_value"),
    # (removing the explicit dimensionality test of _add_sub is an EQUIVALENT mutant for multiplicative quantities: every
    #  branch that needs a conversion raises the same error -- it survives, correctly; the test is inverted instead)
    ("addsub-inverted-dimension-check", "C03", "pint/facets/plain/quantity.py",
     "            return self.__class__(magnitude, units)\n\n        if not self.dimensionality == other.dimensionality:\n",
     "            return self.__class__(magnitude, units)\n\n        if self.dimensionality == other.dimensionality:\n",
     r"_add_sub.*(raises|DimensionalityError)"),
    ("muldiv-units-of-self-only", "C03", "pint/facets/plain/quantity.py",
     "        units = units_op(new_self._units, other._units)\n\n        return self.__class__(magnitude, units)\n\n    def __imul__",
     "        units = new_self._units\n\n        return self.__class__(magnitude, units)\n\n    def __imul__", r"_mul_div.*(factor_of|dimensions|physical)"),
    ("convert-identical-units-doubles", "C02", "pint/facets/plain/registry.py",
     "        if src == dst:\n            return value\n\n        return self._convert(value, src, dst, inplace)",
     "        if src == dst:\n            return value * 2\n\n        return self._convert(value, src, dst, inplace)", r"Registry.convert.*value_times_ratio"),
    ("nonmult-convert-swaps", "C02", "pint/facets/nonmultiplicative/registry.py",
     "            return super()._convert(value, src, dst, inplace)\n", "            return super()._convert(value, dst, src, inplace)\n",
     r"NonMultiplicativeRegistry._convert.*(value_times_ratio|raises)"),
    # ---- C14: membership-memo discipline of Group / System objects
    ("group-add-groups-forgets-used-by", "C14", "pint/facets/group/objects.py",
     "            grp._used_by.add(self.name)\n", "            pass\n", r"Group.add_groups.*used_by"),
    ("group-add-units-drops-own-memo-only", "C14", "pint/facets/group/objects.py",
     "            self._unit_names.add(unit_name)\n\n        self.invalidate_members()\n",
     "            self._unit_names.add(unit_name)\n\n        self._computed_members = None\n", r"Group.add_units.*(users_dropped|systems_dropped)"),
    ("group-invalidate-skips-systems", "C14", "pint/facets/group/objects.py",
     "            system.invalidate_members()\n", "            pass\n", r"Group.invalidate_members.*(systems_dropped|loop1)"),
    ("group-remove-units-keeps-memo", "C14", "pint/facets/group/objects.py",
     "            self._unit_names.remove(unit_name)\n\n        self.invalidate_members()\n",
     "            self._unit_names.remove(unit_name)\n", r"Group.remove_units.*memo_dropped"),
    ("system-remove-groups-keeps-memo", "C14", "pint/facets/system/objects.py",
     "        self._used_groups -= set(group_names)\n\n        self.invalidate_members()\n",
     "        self._used_groups -= set(group_names)\n", r"System.remove_groups.*memo_dropped"),
    ("quantity-deepcopy-shares-units", "C18", "pint/facets/plain/quantity.py",
     "copy.deepcopy(self._magnitude, memo), copy.deepcopy(self._units, memo)", "copy.deepcopy(self._magnitude, memo), self._units",
     r"PlainQuantity.__deepcopy__.*fresh"),
    ("unit-copy-returns-self", "C18", "pint/facets/plain/unit.py",
     "        ret = self.__class__(self._units)\n        return ret\n", "        ret = self\n        return ret\n", r"PlainUnit.__copy__.*fresh"),
    ("system-add-groups-replaces-set", "C14", "pint/facets/system/objects.py",
     "        self._used_groups |= set(group_names)\n", "        self._used_groups = set(group_names)\n", r"System.add_groups.*used_groups"),
]


def run_mutant(m, keep=False, verbose=False):
    mid, prop, rel, old, new, expect = m
    tmp = tempfile.mkdtemp(prefix="pvmut_")
    try:
        shutil.copytree("/repo/pint", os.path.join(tmp, "pint"), ignore=shutil.ignore_patterns("testsuite", "__pycache__"))
        path = os.path.join(tmp, rel)
        src = open(path).read()
        if old not in src:
            return mid, "STALE-MUTANT", ""
        open(path, "w").write(src.replace(old, new, 1))
        env = dict(os.environ, PV_REPO=tmp, PV_NO_EVIDENCE="1")
        import re

        # verify only the mutated function when the expectation names one (a whole-property run walks the full solver
        # portfolio for every failing obligation of every caller as well)
        m_only = re.match(r"^\(?([A-Za-z_][A-Za-z0-9_.]*)", expect)
        only = ["--only", m_only.group(1).rstrip(".")] if m_only and "|" not in expect.split(".*")[0] else []
        p = subprocess.run([os.path.join(VERIF, "check"), prop, "--no-standins", "-v"] + only, capture_output=True, text=True,
                           env=env, cwd=VERIF)

        failing = [ln.split()[-1] for ln in p.stdout.splitlines() if ln.strip().startswith(("failed", "unknown"))
                   and "cover." not in ln]
        undec = [ln for ln in p.stdout.splitlines() if ln.startswith("UNDECIDED")]
        hit = any(re.search(expect, f) for f in failing) or any(re.search(expect, u) for u in undec)
        status = "KILLED" if (p.returncode in (1, 2) and hit) else f"SURVIVED(exit={p.returncode})"
        detail = "; ".join(failing[:4] + undec[:2])
        if verbose:
            print(p.stdout[-1500:])
        return mid, status, detail
    finally:
        shutil.rmtree(tmp, ignore_errors=True)


if __name__ == "__main__":
    sel = sys.argv[1:]
    bad = 0
    for m in MUTANTS:
        if sel and m[0] not in sel and m[1] not in sel:
            continue
        mid, status, detail = run_mutant(m, verbose="-v" in sel)
        print(f"{status:22} {mid:28} {detail[:200]}")
        bad += status != "KILLED"
    sys.exit(1 if bad else 0)
