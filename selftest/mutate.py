"""Engine mutation self-test: apply a deliberately property-breaking edit to a scratch copy of
/repo/pint (PV_REPO points the VC generator at it), run the property's check, and require that a
named obligation fails.  Scratch copies live under $TMPDIR and are removed afterwards."""
from __future__ import annotations

import json
import os
import shutil
import subprocess
import sys
import tempfile

VERIF = os.path.dirname(os.path.dirname(os.path.abspath(__file__)))

MUTANTS = [
    # (id, property, file, old, new, regex expected among failing obligations)
    ("mul-forget-del", "C04", "pint/util.py",
     "            new._d[key] += value\n            if new._d[key] == 0:\n                del new._d[key]\n",
     "            new._d[key] += value\n", r"__mul__.*no_zero"),
    ("mul-wrong-sign", "C04", "pint/util.py", "            new._d[key] += value\n", "            new._d[key] -= value\n",
     r"__mul__.*view"),
    ("copy-shares-dict", "C04", "pint/util.py", "        out._d = self._d.copy()\n", "        out._d = self._d\n",
     r"__copy__.*fresh"),
    ("copy-keeps-stale-hash", "C04", "pint/util.py", "        new._hash = None\n        return new\n\n    __rmul__",
     "        return new\n\n    __rmul__", r"__mul__.*hash_reset"),
    ("eq-ignores-hash-mismatch", "C04", "pint/util.py",
     "            if UnitsContainer.__hash__(self) != UnitsContainer.__hash__(other):\n                return False\n",
     "            if UnitsContainer.__hash__(self) == UnitsContainer.__hash__(other):\n                return True\n",
     r"__eq__.*iff"),
    ("pow-adds-exponent", "C04", "pint/util.py", "                new._d[key] *= other\n",
     "                new._d[key] += other\n", r"__pow__.*view"),
    ("dim-recurse-adds-exp", "C01", "pint/facets/plain/registry.py",
     "    ) -> None:\n        for key in ref:\n            exp2 = exp * ref[key]\n            if _is_dim(key):",
     "    ) -> None:\n        for key in ref:\n            exp2 = exp + ref[key]\n            if _is_dim(key):", r"_get_dimensionality_recurse.*inv.preserved.acc"),
    ("dim-recurse-skip-derived", "C01", "pint/facets/plain/registry.py",
     "                    self._get_dimensionality_recurse(reg.reference, exp2, accumulator)\n                else:\n                    # DimensionDefinition.",
     "                    self._get_dimensionality_recurse(reg.reference, exp, accumulator)\n                else:\n                    # DimensionDefinition.",
     r"_get_dimensionality_recurse.*inv.preserved.acc"),
    ("dim-keeps-brackets", "C01", "pint/facets/plain/registry.py",
     "        if \"[]\" in accumulator:\n            del accumulator[\"[]\"]\n", "", r"_get_dimensionality\[uc\].*(dim|cache)"),
    ("dim-cache-wrong-key", "C01", "pint/facets/plain/registry.py",
     "        cache[input_units] = dims\n", "        cache[dims] = dims\n", r"_get_dimensionality\[uc\].*cache"),
]


def run_mutant(m, keep=False, verbose=False):
    mid, prop, rel, old, new, expect = m
    tmp = tempfile.mkdtemp(prefix="pvmut_")
    try:
        shutil.copytree("/repo/pint", os.path.join(tmp, "pint"), ignore=shutil.ignore_patterns("testsuite", "__pycache__"))
        path = os.path.join(tmp, rel)
        src = open(path).read()
        if old not in src:
            return mid, "STALE-MUTANT", ""
        open(path, "w").write(src.replace(old, new, 1))
        env = dict(os.environ, PV_REPO=tmp, PV_NO_EVIDENCE="1")
        p = subprocess.run([os.path.join(VERIF, "check"), prop, "--no-standins", "-v"], capture_output=True, text=True,
                           env=env, cwd=VERIF)
        import re

        failing = [ln.split()[-1] for ln in p.stdout.splitlines() if ln.strip().startswith(("failed", "unknown"))
                   and "cover." not in ln]
        undec = [ln for ln in p.stdout.splitlines() if ln.startswith("UNDECIDED")]
        hit = any(re.search(expect, f) for f in failing) or any(re.search(expect, u) for u in undec)
        status = "KILLED" if (p.returncode in (1, 2) and hit) else f"SURVIVED(exit={p.returncode})"
        detail = "; ".join(failing[:4] + undec[:2])
        if verbose:
            print(p.stdout[-1500:])
        return mid, status, detail
    finally:
        shutil.rmtree(tmp, ignore_errors=True)


if __name__ == "__main__":
    sel = sys.argv[1:]
    bad = 0
    for m in MUTANTS:
        if sel and m[0] not in sel and m[1] not in sel:
            continue
        mid, status, detail = run_mutant(m, verbose="-v" in sel)
        print(f"{status:22} {mid:28} {detail[:200]}")
        bad += status != "KILLED"
    sys.exit(1 if bad else 0)
