"""Debug helper: list the obligations generated for one function/lemma (no solving)."""
import sys
sys.path.insert(0, '/verif')
import contracts.props  # noqa
from pv import verify
key = sys.argv[1]
r = verify.verify_lemma(key[6:]) if key.startswith("lemma:") else verify.verify_function(key)
for ob in r.obligations:
    print(ob.name)
print("problems:", getattr(r, "problems", None), getattr(r, "unsupported", None))
