"""Regenerates known_findings.json from the reviewed list below (run by hand after triage; the
checks never write this file)."""
import json, subprocess

def commit_of(prefix):
    out = subprocess.run(["git", "-C", "/repo", "log", "--format=%h %s"], capture_output=True, text=True).stdout
    for ln in out.splitlines():
        if prefix.lower() in ln.lower():
            return ln.split()[0]
    return "?"

E = []
def fixed(prop, commit_subject, what, obligation=None, standin=None, case=None):
    c = commit_of(commit_subject)
    e = {"property": prop, "status": "fixed", "commit": c, "what": what,
         "record": f"fixed: property={prop} {c} {what}"}
    if obligation: e["obligation"] = obligation
    if standin: e["standin"] = standin; e["case"] = case
    E.append(e)

def known(prop, standin, case, what):
    E.append({"property": prop, "status": "known", "standin": standin, "case": case, "what": what})

# ------------------------------------------------------------------ repaired defects (suppress nothing)
fixed("C13", "per-object dimensionality memo", "after an in-place operator that replaces the units (q *= 2*second, q //= cm, q **= 2) a Quantity whose "
      "dimensionality had been queried before kept reporting the old dimensionality: q.check(), q + <same units> disagreed with q.units",
      obligation=r"facets\.plain\.quantity\.PlainQuantity\.dimensionality/post\.(dim|wf)@ret0#1", standin="c13_inplace_memo", case=r"inplace-memo:.*")
fixed("C04", "UnitsContainer.add no longer", "UnitsContainer().add('m', 0) raised KeyError (also parse_units('meter**0'))",
      obligation=r"util\.UnitsContainer\.add/no-KeyError@\[new\._d\.pop\(key\)\]")
fixed("C04", "__pow__ drops all entries", "UnitsContainer({'m':1})**0 kept {'m': 0}; meter**0 != dimensionless",
      obligation=r"util\.UnitsContainer\.__pow__\[num\]/post\.no_zero@ret0")
fixed("C05", "zero-magnitude equality", "Q(0,'degC') == Q(0,'kelvin') was True (both-zero shortcut ignored offsets)",
      standin="c05_compare", case=r"zero-offset:.*")
fixed("C10", "warm on-disk cache", "warm cache_folder registry: get_compatible_units('meter') was empty",
      standin="c10_defs", case=r"warm-cache:compatible-units")
fixed("C13", "default system is set to None", "default_system = None after 'cgs' kept centimetre base units",
      standin="c13_history", case=r"default-system-none")
fixed("C14", "default system is set to None", "default_system = None after 'cgs' kept centimetre base units",
      standin="c14_systems", case=r"default-system-none")
fixed("C14", "only memoise base units", "get_base_units(u, system='imperial') poisoned the default-system memo",
      standin="c14_systems", case=r"system-param-poisons-cache")
fixed("C14", "invert 'new:old'", "'@system x using international / newton: gram' made get_base_units raise DimensionalityError",
      standin="c14_systems", case=r"rule-inversion:.*")
fixed("C14", "members memo of systems", "System.members stale after Group.add_units",
      standin="c14_systems", case=r"system-members-stale")
fixed("C12", "roll back a failed context", "failed activation left the context active and a half-built overlay installed",
      standin="c12_context_stack", case=r"failed-activation:.*")
fixed("C06", "Réaumur", "Q(80,'degRe').to('degC') gave 64 instead of 100 (scale 4/5 instead of 5/4 in default_en.txt)",
      standin="c06_offset", case=r"conv-reaumur:.*")
fixed("C20", "Réaumur", "degree_Reaumur scale was 4/5 kelvin instead of 5/4 kelvin",
      standin="c20_standards", case=r".*[Rr]eaumur.*")

# ------------------------------------------------------------------ recorded findings (genuine, not repaired)
known("C04", "c04_pi", r"pi:crash:.*", "pi_theorem raises IndexError when every quantity is dimensionless, e.g. pi_theorem({'a': UnitsContainer({})})")
_FREQ = r"(baud|becquerel|counts_per_second|curie|hertz|kilohertz|revolutions_per_minute|revolutions_per_second|rutherford|minute\^-1|second\^-1)"
_LUM = r"(candela|lumen|lux|lambert|nit|stilb)"
known("C05", "c05_compare", rf"hash:({_FREQ}:{_FREQ}|{_LUM}:{_LUM})", "equal quantities with different hashes where base units differ by count/radian, e.g. Q(1,'Hz') == Q(1,'Bq') but hash differs")
known("C05", "c05_compare", r"trans-delta-offset:.*", "== is not transitive across delta/absolute/offset: delta_degC == K and K == degC but delta_degC vs degC is refused (False)")
known("C06", "c06_offset", r"floordiv-offset:.*", "//, % and divmod with an offset operand return numbers instead of raising OffsetUnitCalculusError, e.g. Q(100,'degC') // Q(10,'degC')")
known("C06", "c06_offset", r"operand:array:autoconvert:.*", "array `a *= b` / `a /= b` with b in degC (autoconvert mode) rewrites b to kelvin in place (other.ito_root_units() in _imul_div)")
known("C06", "c06_offset", r"log-arith:.*", "subtracting logarithmic quantities yields an undefined unit, e.g. Q(20,'dBm') - Q(10,'dBm') -> delta_decibelmilliwatt")
known("C06", "c06_offset", r"log-parse:.*", "parse_units('dBm/hertz') yields the undefined unit delta_decibelmilliwatt/hertz (delta substitution applied to logarithmic units)")
known("C06", "c06_offset", r"qstr:.*", "Quantity('10 degC/meter') and Quantity(10, 'degC/meter') disagree in the default mode")
known("C06", "c06_logcompound", r"offset:wrong-value:offset->(offset|lin)|offset:wrong-value:lin->offset", "autoconvert mode: converting a compound unit with an offset head ignores the rest of the unit, e.g. Q(5, degC/m).to(degF/km) == Q(5, degC/m).to(degF/m) == 41 (_add_ref_of_log_or_offset_unit returns the bare reference for offset units)")
known("C06", "c06_logcompound", r"logdimless:wrong-value:log->(log|lin)|logdimless:wrong-value:lin->log", "autoconvert mode: dimensionless-reference log units (dB, Np, octave, decade) inside a compound unit convert as if the rest of the unit were absent, e.g. Q(5, dB/m).to(dB/km) == 5")
known("C06", "c06_logcompound", r"userlog:wrong-value:log->(log|lin)|userlog:wrong-value:lin->log", "a user-defined log unit whose reference unit is itself compound (W/m**2) keeps only one factor of the reference ((u, e) = [...].pop()), e.g. dBWm2 -> dBmWcm2 gives -35 instead of -5")
known("C07", "c07_eval", r"tree:.*[23xy)] ?\(.*", "a parenthesised group written directly after an operand binds tighter than any operator: '8/2(2+2)' = 1 but '8/2 (2+2)' = 16; '2(meter)**2' = 4 m**2")
known("C07", "c07_eval", r"catalogue:.*\+/-.*", "'(a +/- b)' at the end of the input raises IndexError in the uncertainty tokenizer, e.g. parse_expression('meter * (2.0 +/- 0.3)')")
known("C07", "c07_eval", r"tree-O:.*", "under `python -O` a dangling operator yields a value ('2 -' -> -2): the rejection relies on assert statements")
known("C08", "c08_names", r"history:.*", "name resolution depends on earlier lookups: 'kilomillifoot' resolves only after 'millifoot' was looked up; lazy registration can overwrite a declared definition's symbol ('kps' -> 'kmps')")
known("C08", "c08_names", r"resolve:(kilometer_per_second|milliarcsecond)", "get_symbol of a declared name returns the prefix+unit reading's symbol ('kmps', 'marcsec') instead of the declared 'kps', 'mas'")
known("C08", "c08_names", r"casei-hashseed-.*", "case-insensitive lookup iterates a set: get_name('km', case_sensitive=False) is kilometer or kilomolar depending on PYTHONHASHSEED")
known("C08", "c08_names", r"casei-lazy-.*", "names registered lazily during construction are missing from the case-insensitive index: get_name('YiKilogram', case_sensitive=False) raises")
known("C08", "c08_names", r"delta-undefined:.*", "parse_units('dB/meter') returns delta_decibel/meter, a unit no definition declares")
known("C08", "c08_names", r"delta:.*", "the delta reading is decided before aliases are canonicalised: parse_units('1/degF*degreeF**2') is delta_degree_Fahrenheit but '1/degF*degF**2' is degree_Fahrenheit")
known("C08", "c08_names", r"member-nonident:.*", "`in` and getattr go through the expression parser: 'm%s' in ureg is True, 'quetta‰' in ureg is False although get_name resolves it")
known("C09", "c09_format", r"(decimal:|fraction:)?fraction-format:.*", "Fraction registry: units with an exponent other than 1 fail to format ('{:n}'.format(Fraction) raises ValueError)")
known("C09", "c09_format", r"(decimal:|fraction:)?symbol-roundtrip:femtometer:.*", "format(femtometer, '~') = 'fm', which parses back as fermi")
known("C09", "c09_format", r"roundtrip:.*(percent|permille|%|‰).*", "pretty format with a symbol and exponent on percent/permille does not parse back: '%²' raises DefinitionSyntaxError")
known("C09", "c09_format", r"structure:Lx:.*", "siunitx formatting strips prefixes by string match: format(micron, 'Lx') = \\si[]{\\micro\\n}")
known("C09", "c09_format", r"quantity-roundtrip:offset:.*", "Quantity(str(Quantity(5,'degC'))) raises OffsetUnitCalculusError (str(q) of offset/log quantities does not parse back)")
known("C09", "c09_sortfunc", r"sortdim:unrecognised-dimension", "with formatter.default_sort_func = sort_by_dimensionality every format of a unit none of whose dimensions is in formatter.dim_order (pixel, bits_per_pixel, currency-like user dimensions) raises KeyError, e.g. format(ureg.pixel, 'D')")
known("C10", "c10_defs", r"bundled:symbol:(milliarcsecond|kilometer_per_second)", "get_symbol('milliarcsecond') is 'marcsec' and get_symbol('kilometer_per_second') is 'kmps'; the file declares 'mas' and 'kps'")
known("C10", "c10_defs", r"(define-path|late-load):compatible-units", "units added by define()/load_definitions() after construction never appear in get_compatible_units (dimensional_equivalents is not updated)")
known("C10", "c10_defs", r"illformed:(symbol-space|prefix-symbol-space)", "symbols with spaces are accepted: __post_init__ validates self.name instead of the symbol")
known("C10", "c10_defs", r"illformed:(group|system|context)-name-space", "'@group g h' creates group g and silently drops the rest of the header line")
known("C10", "c10_defs", r"illformed:(expr-empty|prefix-value-empty|offset-empty|double-equals)", "empty right-hand sides are given a meaning: 'ux = ' is a dimensionless unit of scale 1, '; offset:' is offset 1")
known("C10", "c10_defs", r"numtype:Fraction:scale:.*", "Fraction registry stores float scales for planck_* and franklin (1 ** Fraction(1,2) evaluates to a float)")
known("C10", "c10_order", r"cache:import-same-main:(float|Fraction):B:.*", "two identical main files in different directories that @import different sub files share one parsed-file cache entry with the first directory's path: the second registry reads the first directory's sub file (UnitRegistry(d2/'main.txt', cache_folder=cf).get_root_units('yard') gives d1's factor)")
known("C10", "c10_order", r"redef:(ctor-lines|ctor-file|load-lines|load-file|define-each):(factor|chain|dimension):sys-mid:.*", "a @system block evaluates the units it names while the file is being loaded; a later line of the same load that redefines such a unit (on_redefinition='ignore'/'warn') leaves the system rule / memoised root units at the superseded definition, e.g. ['yard = 0.75 meter', '@system imp', ' yard', '@end', 'yard = 0.5 meter'] via load_definitions: get_root_units('yard') 0.75 but to('meter') 0.5")
known("C10", "c10_order", r"raise-order:(ctor-lines|load-lines):dimension-used-before-its-line", "on_redefinition='raise': '[force] = [mass]*[acceleration]' before '[acceleration] = [length]/[time]**2' raises RedefinitionError although nothing is defined twice (the dimension is auto-created when first mentioned); the other line order loads")
known("C10", "c10_order", r"order:(load-lines|load-file|define-each):ctx(\+grp\+sys)?:check\+dim", "load_definitions()/define() on a live registry: a @context block memoises get_dimensionality('[force]') while loading and the later '[acceleration] = ...' line does not invalidate it (constructor paths rebuild the cache and are order independent)")
known("C11", "c11_contexts", r"param-inherit:.*", "ContextChain.defaults does not return the innermost active context's parameters in a three-level nesting that re-enters a context")
known("C12", "c12_context_stack", r"stale-base-units:.*", "_base_units_cache ignores context redefinitions: get_base_units('mile') inside a context that redefines yard still answers with the outer value, and an answer computed inside leaks out")
known("C13", "c13_history", r"double-prefix:.*", "doubly prefixed names (kilomillifoot) resolve only after the singly prefixed name was looked up")
known("C13", "c13_history", r"history:ctx-base", "_base_units_cache ignores context redefinitions (same cause as C12 stale-base-units)")
known("C13", "c13_history", r"history:(ctx-define|ctx-define-define|define-ctx-define)", "define() while a redefining context is active writes into the context overlay: the new unit vanishes when the context is left")
known("C14", "c14_systems", r"group-self-loop", "Group.add_groups(own name) raises RecursionError instead of ValueError and leaves the group using itself")
known("C15", "c15_rewrite", r"compact-ulp:.*", "to_compact picks the next prefix one ulp below a decade boundary: Q(999.9999999999999,'m').to_compact() = 0.9999999999999999 km (float log10)")

# C16 (NumPy): genuine, by function family
known("C16", "c16_numpy", r"np\.(mod|fmod|remainder):.*", "np.mod / np.fmod / np.remainder ignore the second operand's unit: np.mod(5 m, 200 cm) = 5 m, np.mod(5 m, 2 s) is accepted")
known("C16", "c16_numpy", r"np\.floor_divide:.*", "np.floor_divide(5 m, 200 cm) returns 0 m/cm instead of the dimensionless 2")
known("C16", "c16_numpy", r"np\.interp:.*", "np.interp swaps `left` and `right` (tuple assignment in _interp)")
known("C16", "c16_numpy", r"np\.(sum|nansum):initial:.*", "np.sum / np.nansum use `initial` unconverted: np.sum(Q([...],'m'), initial=Q(100,'cm')) adds 100 m; other dimensions accepted")
known("C16", "c16_numpy", r"np\.(diff|ediff1d):.*", "np.diff prepend/append and np.ediff1d to_begin/to_end are used unconverted; other dimensions and bare numbers accepted")
known("C16", "c16_numpy", r"np\.gradient:.*", "np.gradient with several spacings divides every output by the units of all spacings")
known("C16", "c16_numpy", r"(np\.(prod|nanprod)|Quantity\.prod):.*", "np.prod / np.nanprod: tuple axis raises TypeError, float magnitude raises AttributeError, nanprod attaches unit**shape[axis] although NaNs are skipped; offset units accepted")
known("C16", "c16_numpy", r"np\.block:.*", "np.block with nested lists raises TypeError 'Expected at least one Quantity'")
known("C16", "c16_numpy", r"np\.average:quantity-weights:.*", "np.average(q, weights=Quantity) raises RecursionError")
known("C16", "c16_numpy", r"inplace\.ufunc-out:.*", "ufuncs with out=Quantity raise RecursionError / TypeError")
known("C16", "c16_numpy", r"np\.broadcast_arrays:.*", "np.broadcast_arrays of arrays of different dimensions raises DimensionalityError (the arrays are independent)")
known("C16", "c16_numpy", r"Quantity\.cumprod:.*input-modified", "Quantity.cumprod converts the object in place to dimensionless")
known("C16", "c16_numpy", r"np\.copyto:.*", "np.copyto(Quantity in m, bare non-zero number) is accepted")
known("C16", "c16_numpy", r"(np\.(add|multiply|divide|true_divide|sqrt|square|cbrt|reciprocal|matmul|einsum|linalg\.solve|hypot|arctan2|ldexp)|Quantity\.var|inplace\.isub):.*:offset", "NumPy arithmetic accepts offset units where the Python operators raise OffsetUnitCalculusError: np.add(degC, degC) = 20 degC, np.multiply, np.sqrt, var, matmul ...")
known("C16", "c16_numpy", r"(np\.(absolute|fabs|negative|sign|signbit|copysign|nonzero|count_nonzero|trim_zeros|isclose|allclose)|Quantity\.(imag|nonzero|trace)):.*:offset", "sign / zero tests and absolute values of offset units are computed on the raw magnitudes (depend on the scale's zero point)")
known("C16", "c16_numpy", r"np\.(subtract|ptp):.*:offset", "np.subtract(degC, degC) and np.ptp(degC) return an absolute degC for a temperature difference (Python `-` gives delta_degC)")
known("C16", "c16_numpy", r"inplace\.setitem:.*:offset", "q_degC[i] = Q(.., 'kelvin') raises DimensionalityError ('kelvin / degree_Celsius')")
# C19 (measurements)
known("C19", "c19_measurement", r"tokenizer-eol:.*", "'(a +/- b)' or 'v(e)' at the end of the input raises IndexError in the uncertainty tokenizer")
known("C19", "c19_measurement", r"parse:-?[0-9.]+\([0-9]+\).*", "parenthesised-uncertainty shorthand reads the digits as '0.<digits>': '1.23(4) m' gives 1.23 +/- 0.4 instead of +/- 0.04")
known("C19", "c19_measurement", r"parse-back:'[^']*S[^']*':.*", "the S (shorthand) format does not parse back: '0.00012300(400) meter' reads as +/- 0.4")
known("C19", "c19_measurement", r"parse:\(.*\)\*\*[0-9].*", "'(2.0 +/- 0.3)**2 m' gives 2.0 +/- 0.09 m: the parentheses are dropped and ** binds to the error")
known("C19", "c19_measurement", r"format:'\.2f~P':.*", "format(measurement, '.2f~P') raises ValueError although '~P' and '.2fP' work")

known("C01", "c01_compat", r"dimensionless-name:.*", "the name 'dimensionless' is not accepted where units are: ureg.get_dimensionality('dimensionless') and Q(1,'radian').check('dimensionless') raise KeyError('')")
known("C01", "c01_compat", r"compatible-units-of-the-empty-unit:.*", "get_compatible_units of the empty unit returns frozenset() (early return) although 33 dimensionless units are compatible; get_compatible_units('dimensionless') raises KeyError('')")
known("C01", "c01_compat", r"casei-ambiguous-reference:.*", "UnitRegistry(case_sensitive=False): 'kg' reads as kilo+gram or kilo+gauss and 'cm' as centi+meter or centi+molar; get_name takes the first element of an unordered set, so the dimensionality of 31 units depends on PYTHONHASHSEED")
known("C02", "c02_factors", r"float-contamination:.*", "Fraction registry stores float scales for planck_* and franklin (1 ** Fraction(1,2) is a float): Q(1,'franklin**2').to_root_units() is 5000000000000001/5000000000000000000000 instead of 1/1000000")
known("C20", "c20_standards", r"standards:parsec:factor", "parsec is au/tan(1 arcsec) (pre-2015); IAU 2015 Resolution B2 defines 1 pc = 648000/pi au exactly (relative difference 7.8e-12)")
known("C20", "c20_standards", r"standards:milliarcsecond:symbol", "get_symbol('milliarcsecond') is 'marcsec' instead of the declared 'mas'")

known("C17", "c17_wraps", r"wraps:bare-accepted-in-strict.*", "strict mode accepts bare numbers at '=A' positions: u.wraps(None, ('=A','=A'))(f)(3, 4) calls f(3, 4)")
known("C17", "c17_wraps", r"wraps:nonstrict-bare-refused.*", "non-strict mode refuses a bare number at a position that refers to a label: u.wraps(None, ('=A','=A'), strict=False)(f)(Q(3,'m'), 4) raises DimensionalityError")
known("C17", "c17_wraps", r"wraps:not-passed-through.*", "non-strict mode rescales a bare number at a dependent position: specs ('=A','=B','=A/B') called with (1 inch, 1 cm, 5) hand over 1.9685 instead of 5")
known("C17", "c17_wraps", r"wraps:zero-magnitude-label.*", "u.wraps(None, ('=A','=1/A'))(f)(Q(0,'m'), Q(4,'1/cm')) raises ZeroDivisionError (_replace_units multiplies quantities, not units)")
known("C17", "c17_wraps", r"wraps:offset-unit-label.*", "an offset unit bound to a label raises OffsetUnitCalculusError: u.wraps('=A', ('=A','=A'))(f)(Q(20,'degC'), Q(68,'degF'))")
known("C17", "c17_wraps", r"dead-missing-token-check.*", "u.wraps('=A*B', ('=A', None)) is accepted at decoration and raises KeyError 'B' at call time (the missing-token check is dead code)")
known("C17", "c17_wraps", r"frac-registry-float.*", "in a Fraction registry string unit specs are parsed without the registry: wraps(None, 'meter')(f)(Q(1,'inch')) hands over the float 0.0254")
known("C18", "c18_serialize", r"cross-registry:.*", "objects of different registries combine silently in ** (no _check in __pow__) and in Unit / Quantity-vs-Unit ordering (PlainUnit.compare re-wraps): u1.Q(2,'m') ** u2.Q(2,'') = 4 m**2; u1.meter < u2.inch is False")
known("C18", "c18_serialize", r"deepcopy:(leak|diverges).*", "a deep-copied registry's contexts still refer weakly to the source's Context objects (WeakValueDictionary.__deepcopy__): removing or re-parameterising a context in the source changes the copy")
known("C18", "c18_serialize", r"eq-semantics:Measurement:.*", "copy.copy(m) == m is False for Measurements although value, error and units agree (uncertainties compares variables by identity)")
known("C18", "c18_serialize", r"lazy:.*", "pint.LazyRegistry() / the module-level registry before first use lack dunder support ('meter' in reg, iter, dir, copy raise or answer for the empty shell) and use on_redefinition='raise'")
json.dump(E, open("/verif/known_findings.json", "w"), indent=1, ensure_ascii=False)
print(len(E), "entries")

# ---- keep the findings tables of DESIGN.md (section 6b) in step with the JSON
def _md():
    out = ["### 6b. Findings as of the build (generated from known_findings.json by tools/mk_known.py)", "",
           "**Repaired** (`fix:` commits in /repo; a fixed entry suppresses nothing — if the failure returns it is a VIOLATION):", "",
           "| property | commit | what failed | detected by |", "|---|---|---|---|"]
    for e in E:
        if e["status"] == "fixed":
            det = e.get("obligation") and ("obligation `" + e["obligation"].replace("\\", "") + "`") or f"stand-in {e['standin']}, case `{e['case']}`"
            out.append(f"| {e['property']} | {e['commit']} | {e['what']} | {det} |")
    out += ["", "**Recorded, not repaired** (genuine with respect to the property statement; the check prints `KNOWN-FINDING:` and exits 0; "
            "any violation whose case id does not match is a VIOLATION):", "", "| property | stand-in / case pattern | what fails |", "|---|---|---|"]
    for e in E:
        if e["status"] == "known":
            out.append(f"| {e['property']} | {e['standin']} `{e['case']}` | {e['what']} |")
    return "\n".join(out) + "\n"

d = open("/verif/DESIGN.md").read()
B, Z = "<!-- FINDINGS-BEGIN -->", "<!-- FINDINGS-END -->"
if B in d:
    d = d[:d.index(B) + len(B)] + "\n" + _md() + d[d.index(Z):]
    open("/verif/DESIGN.md", "w").write(d)
