#!/bin/bash
# regenerate baseline_obligations.json and evidence for every property against /repo (quick tier)
cd /verif
for p in C01 C02 C03 C04 C05 C06 C07 C08 C09 C10 C11 C12 C13 C14 C15 C16 C17 C18 C19 C20; do
  /usr/bin/time -f "$p wall %e s" ./check $p --tier quick --write-baseline 2>&1 | grep -v WARNING | tail -6
  echo "exit=$?"
done
