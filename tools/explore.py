import sys, time
sys.path.insert(0, '/verif')
import z3
import contracts.props
from pv import verify, solve
key, name = sys.argv[1], sys.argv[2]
r = verify.verify_function(key)
ob = [o for o in r.obligations if o.name.endswith(name)][0]
print(ob.name); print("\n".join(ob.trace))
print("GOAL:", ob.goal)
def chk(extra=(), drop=(), opts={"smt.mbqi": False, "smt.arith.nl": False}, to=15000):
    s = z3.Solver(); s.set("timeout", to)
    for k, v in opts.items(): s.set(k, v)
    for a in ob.axioms: s.add(a)
    for i, h in enumerate(ob.hyps):
        if i not in drop: s.add(h)
    for e in extra: s.add(e)
    s.add(z3.Not(ob.goal))
    t = time.time(); res = s.check(); return res, round(time.time() - t, 2)
print("base", chk())
for i, h in enumerate(ob.hyps):
    txt = " ".join(str(h).split())
    print(i, txt[:300])
import itertools
if "--drop" in sys.argv:
    for i in range(len(ob.hyps)):
        res = chk(drop={i}, to=8000)
        print("drop", i, res)
if "--keep" in sys.argv:
    keep = set(int(x) for x in sys.argv[sys.argv.index("--keep") + 1].split(","))
    drop = set(range(len(ob.hyps))) - keep
    for opts in ({"smt.mbqi": False, "smt.arith.nl": False}, {"smt.mbqi": False}, {}):
        print("keep", sorted(keep), opts, chk(drop=drop, opts=opts, to=10000))
if "--cfg" in sys.argv:
    for opts in ({"smt.mbqi": False}, {}, {"smt.mbqi": False, "smt.arith.solver": 2}, {"smt.mbqi": False, "smt.arith.nl.grobner": True, "smt.arith.nl.horner": False}):
        print(opts, chk(opts=opts, to=30000))
