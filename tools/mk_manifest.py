"""Regenerate MANIFEST.json from contracts/props.py (run by hand)."""
import json, subprocess, sys
sys.path.insert(0, "/verif")
import contracts.props as P
from pv import decl

props = [json.loads(l) for l in open("/verif/properties.jsonl")]
fix_commits = [l.split()[0] for l in subprocess.run(["git", "-C", "/repo", "log", "--format=%h %s"], capture_output=True,
                                                    text=True).stdout.splitlines() if l.split(" ", 1)[1].startswith("fix:")]
checks, na = [], []
for p in props:
    pid = p["id"]
    meta = P.PROPS.get(pid)
    if not meta or not meta.get("claimed", True):
        na.append({"property_id": pid, "reason": (meta or {}).get("na_reason", "no check built")})
        continue
    keys = [k for k, c in decl.CONTRACTS.items() if pid in c.props and not c.trusted]
    lemmas = [n for n, l in decl.LEMMAS.items() if pid in l.props]
    checks.append({
        "property_id": pid,
        "quick_cmd": f"./check {pid} --tier quick",
        "thorough_cmd": f"./check {pid} --tier thorough",
        "evidence_file": f"/verif/evidence/{pid}.json",
        "replay_cmd_template": f"./check {pid} --replay {{path}}",
        "engine": "pv",
        "level_claimed": {"category": meta["level"], "text": meta["text"], "design_ref": f"DESIGN.md section 4 ({pid})"},
        "level_note": meta.get("note", ""),
        "technique": meta.get("technique", "contract-based deductive verification (sidecar contracts on the real functions, "
                              "AST-level VC generation, z3/cvc5); bounded stand-ins for clauses outside the verifier's reach"),
    })
m = {
    "version": 1,
    "setup_cmd": "./setup.sh",
    "hooks": {"guard": "PINT_VERIF",
              "enable": "no hooks: contracts are sidecar files under /verif/contracts; /repo is not instrumented (guard name reserved, unused)",
              "baseline_off_cmd": "cd /repo && /venv/bin/python -m pytest -ra -q -p no:cacheprovider --timeout=900 --continue-on-collection-errors",
              "source_commits": [], "add_only": True},
    "engines": [{"name": "pv", "path": "/verif/pv", "serves_properties": [c["property_id"] for c in checks],
                 "kind_free_text": "deductive verifier for a Python subset: sidecar contracts, symbolic execution of the real AST into "
                                   "named obligations, z3 portfolio then cvc5, Lean-checked spec theory, ground-instance refutation and "
                                   "replay on the real code through a run-time contract monitor; bounded stand-ins in /verif/standins"}],
    "checks": checks,
    "not_applicable": na,
    "notes": "fix: commits in /repo (see known_findings.json, DESIGN.md section 6): " + ", ".join(reversed(fix_commits)),
}
json.dump(m, open("/verif/MANIFEST.json", "w"), indent=1)
print(len(checks), "checks;", len(na), "not applicable")
