import sys, time, re
sys.path.insert(0, '/verif')
import z3
import contracts.props
from pv import verify
key, name = sys.argv[1], sys.argv[2]
r = verify.verify_function(key)
ob = [o for o in r.obligations if o.name.endswith(name)][0]
print("GOAL", ob.goal)
def chk(goal, keep=None, opts={"smt.mbqi": False}, to=10000):
    s = z3.Solver(); s.set("timeout", to)
    for k, v in opts.items(): s.set(k, v)
    for a in ob.axioms: s.add(a)
    for i, h in enumerate(ob.hyps):
        if keep is None or i in keep: s.add(h)
    s.add(z3.Not(goal))
    t = time.time(); res = s.check(); return res, round(time.time() - t, 2)
for i, h in enumerate(ob.hyps):
    t = " ".join(str(h).split())
    if not t.startswith(("And(alloc0", "ForAll(k!")): print(i, t[:400])
print("full", chk(ob.goal))
print("full lin", chk(ob.goal, opts={"smt.mbqi": False, "smt.arith.nl": False}))
from pv.ops import pw
f1 = z3.Function("f1", z3.StringSort(), z3.RealSort())
h35 = ob.hyps[35]
prod = h35.arg(1)
print("prod children", [str(c)[:50] for c in prod.children()])
A5, pws, facs = prod.children()
E = pws.arg(1)
K = z3.Const(re.search(r"(key!\d+)", str(ob.hyps[15])).group(1), z3.StringSort())
Rt = z3.Const(re.search(r"(ret!\d+)", str(ob.hyps[18])).group(1), z3.StringSort())
print("G1", chk(pw(f1(Rt), E) == pws * facs))
print("G2", chk(pw(f1(K), E) == pws * facs))
print("G3 given G2", chk(z3.Implies(pw(f1(K), E) == pws * facs, ob.goal)))
print("G3 given G2, few hyps", chk(z3.Implies(pw(f1(K), E) == pws * facs, ob.goal), keep={35}))
from pv import solve
for depth, tol in ((1, 1.0), (2, 1.0), (3, 1.2), (5, 1.5)):
    sel, nq, nsel = solve.select_premises(ob, depth, tol)
    s = z3.Solver(); s.set("timeout", 8000); s.set("smt.mbqi", False)
    for h in sel: s.add(h)
    s.add(z3.Not(ob.goal)); t=time.time(); r_ = s.check()
    print("sel", depth, tol, "quantified:", nq, "chosen:", nsel, "total", len(sel), r_, round(time.time()-t,2))
