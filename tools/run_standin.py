import sys, json, importlib, time
sys.path.insert(0, '/verif')
name = sys.argv[1]; tier = sys.argv[2] if len(sys.argv) > 2 else "quick"
m = importlib.import_module(f"standins.{name}")
t = time.time(); r = m.run(tier=tier, seed=0)
print(name, tier, "evals", r.get("evaluations"), "viol_count", r.get("violation_count", len(r.get("violations", []))), "wall", round(time.time()-t, 1), "exhaustive", r.get("exhaustive"))
for v in r.get("violations", []):
    print("   CASE", v.get("case"), "|", str(v.get("what"))[:150].replace("\n", " "))
print("   kinds:", json.dumps(r.get("violation_kinds", {}))[:600])
