#!/bin/bash
# usage: try_all_seeds.sh "<seeddir>:<props>" ...
cd /verif
for item in "$@"; do
  d="${item%%:*}"; props="${item#*:}"
  echo "=== $d [$props]"
  .venv/bin/python tools/try_seed.py "$d" $props 2>&1 | grep -v WARNING | python3 -c "
import json,sys
try:
    o=json.load(sys.stdin)
except Exception as e:
    print('  ERROR', e); sys.exit()
print('  demo with/without change:', o.get('demo_with_change'), o.get('demo_without_change'))
for k,v in o.items():
    if isinstance(v, dict):
        print('  ', k, 'exit', v['exit'], 'violations', v['violations'], 'wall', v['wall'])
        for f in v['first'][:3]: print('       ', f[0], '|', f[1][:110])
        for u in v['undecided'][:2]: print('        U:', u[:160])
"
done
