#!/bin/bash
# usage: scratch_standin.sh <patch.diff> <standin> [tier]  -- runs one stand-in against a patched scratch copy of /repo's HEAD
S=$(mktemp -d /tmp/scratch.XXXX)
(cd /repo && git archive HEAD pint) | tar -x -C $S
(cd $S && patch -p1 -s < "$1")
PYTHONPATH=$S:/verif /verif/.venv/bin/python /verif/tools/run_standin.py $2 ${3:-quick} 2>&1 | grep -v WARN | cut -c1-300 | head -8
rm -rf $S
