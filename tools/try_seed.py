"""Apply a seeded change to /repo, run the given checks, undo the change.  Usage: try_seed.py <seed dir> <prop> [<prop>...]"""
import json, os, subprocess, sys, time
seed, props = sys.argv[1], sys.argv[2:]
patch = os.path.join(seed, "patch.diff")
def sh(cmd, **kw):
    return subprocess.run(cmd, shell=True, capture_output=True, text=True, **kw)
assert sh("git -C /repo status --porcelain").stdout.strip() == "", "/repo not clean"
r = sh(f"git -C /repo apply {patch}")
if r.returncode != 0:
    print("patch does not apply:", r.stderr); sys.exit(2)
out = {}
try:
    demo = os.path.join(seed, "demo.py")
    d = sh(f"cd /repo && /venv/bin/python {demo}")
    out["demo_with_change"] = d.returncode
    for p in props:
        t = time.time()
        c = sh(f"cd /verif && PV_NO_EVIDENCE=1 ./check {p} --tier quick", timeout=1500)
        lines = [l for l in c.stdout.splitlines() if l.startswith(("VIOLATION", "UNDECIDED", "KNOWN")) or l.startswith(p + ":")]
        viol = [l for l in lines if l.startswith("VIOLATION")]
        reps = []
        for l in viol[:6]:
            path = l.split("replay=")[1].split()[0]
            try:
                j = json.load(open(path)); reps.append((j.get("obligation") or j.get("case"), str(j.get("what") or j.get("observed") or "")[:160]))
            except Exception as e: reps.append((path, str(e)))
        out[p] = {"exit": c.returncode, "violations": len(viol), "first": reps, "undecided": [l[:200] for l in lines if l.startswith("UNDEC")][:4], "wall": round(time.time() - t, 1)}
finally:
    sh("git -C /repo checkout -- .")
    assert sh("git -C /repo status --porcelain").stdout.strip() == ""
d2 = sh(f"cd /repo && /venv/bin/python {os.path.join(seed, 'demo.py')}")
out["demo_without_change"] = d2.returncode
print(json.dumps(out, indent=1))
