import sys, time
sys.path.insert(0, '/verif')
import z3
import contracts.props
from pv import verify, solve
from pv.ops import pw
key, name = sys.argv[1], sys.argv[2]
r = verify.verify_function(key)
ob = [o for o in r.obligations if o.name.endswith(name)][0]
g = ob.goal
lhs, rhs = g.arg(0), g.arg(1)
print("lhs", lhs.decl(), [str(c)[:60] for c in lhs.children()])
pwterm = [c for c in lhs.children() if c.decl().name() == "pw"][0]
scale, E = pwterm.arg(0), pwterm.arg(1)
f1 = z3.Function("f1", z3.StringSort(), z3.RealSort())
keyc = z3.String([str(h) for h in ob.hyps if "processed" in str(h) and str(h).startswith("And(H0_dom")][0].split("[")[-1].split("]")[0]) if False else None
# find constants by name
def const(nm, sort):
    return z3.Const(nm, sort)
import re
txt = str(ob.hyps[15])
kname = re.search(r"(key!\d+)", txt).group(1)
rname = re.search(r"(ret!\d+)", str(ob.hyps[18])).group(1)
K = const(kname, z3.StringSort()); Rt = const(rname, z3.StringSort())
def chk(goal, keep=None, opts={"smt.mbqi": False}, to=10000):
    s = z3.Solver(); s.set("timeout", to)
    for k, v in opts.items(): s.set(k, v)
    for a in ob.axioms: s.add(a)
    for i, h in enumerate(ob.hyps):
        if keep is None or i in keep: s.add(h)
    s.add(z3.Not(goal))
    t = time.time(); res = s.check(); return res, round(time.time() - t, 2)
keep = {11, 15, 18, 23, 24, 26, 27, 28}
print("G0 f1 eq", chk(f1(Rt) == f1(K), keep))
print("G1 pw(f1 ret) == pw(scale)", chk(pw(f1(Rt), E) == pw(scale, E), keep))
print("G2 pw(f1 key) == pw(scale)", chk(pw(f1(K), E) == pw(scale, E), keep))
FacS = z3.Function("FacS", z3.ArraySort(z3.StringSort(), z3.BoolSort()), z3.ArraySort(z3.StringSort(), z3.RealSort()), z3.RealSort(), z3.RealSort())
facterm = [c for c in rhs.children() if c.decl().name() == "FacS"][0]
P1, V, EXP = facterm.arg(0), facterm.arg(1), facterm.arg(2)
P0 = P1.arg(0)
print("G3 insert", chk(facterm == FacS(P0, V, EXP) * pw(f1(K), EXP * z3.Select(V, K)), keep))
print("E is", E, " vs ", EXP * z3.Select(V, K))
print("G4 insert scale", chk(facterm == FacS(P0, V, EXP) * pw(scale, E), keep))
print("G5 goal", chk(g, keep))
