#!/bin/bash
# list obligations that needed more than 4 s (kernel only), per property: candidates for restructuring (DESIGN 0.4: slow queries are the unstable ones)
cd /verif
for p in "$@"; do
  PV_NO_EVIDENCE=1 ./check $p --tier quick --no-standins -v 2>&1 | grep -E "^\s+(proved|unknown|failed)" | awk -v p=$p '{t=$3; sub("s","",t); if (t+0 > 4) print p, $1, $2, $3, $4}'
done
