"""Apply every confirmed seeded change (/verif/seeded/<id>/patch.diff) to /repo in turn, run the quick check of its property
(plus any extra checks named on the command line as <id>=C01,C17), undo the change, and record what was reported in
seeded/<id>/meta.json["detection"].  /repo must be clean; it is restored with `git checkout -- .` after every seed.
Usage: run_seeds.py [<id> ...] [<id>=Cxx,Cyy ...]"""
import json, os, subprocess, sys, time

def sh(cmd, **kw):
    return subprocess.run(cmd, shell=True, capture_output=True, text=True, **kw)

EXTRA = {"C01-2": ["C17"], "C20-2": ["C02"], "C06-1": ["C08"], "C08-2": ["C06"], "C15-1": ["C13"]}
sel, extra = [], dict(EXTRA)
for a in sys.argv[1:]:
    if "=" in a:
        i, ps = a.split("="); extra[i] = ps.split(","); sel.append(i)
    else:
        sel.append(a)
ids = sorted(os.listdir("/verif/seeded"))
if sel:
    ids = [i for i in ids if i in sel]
assert sh("git -C /repo status --porcelain").stdout.strip() == "", "/repo not clean"
for sid in ids:
    d = f"/verif/seeded/{sid}"
    meta = json.load(open(f"{d}/meta.json"))
    props = [meta["property"]] + [p for p in extra.get(sid, []) if p != meta["property"]]
    r = sh(f"git -C /repo apply {d}/patch.diff")
    if r.returncode:
        print(sid, "patch does not apply", r.stderr); continue
    det = {}
    try:
        for p in props:
            t = time.time()
            c = sh(f"cd /verif && PV_NO_EVIDENCE=1 ./check {p} --tier quick", timeout=3000)
            viol = [l for l in c.stdout.splitlines() if l.startswith("VIOLATION")]
            ded, sta = [], []
            for l in viol:
                path = l.split("replay=")[1].split()[0]
                try:
                    j = json.load(open(path))
                except Exception:
                    continue
                if j.get("obligation"):
                    ded.append(j["obligation"] + (" [replayed on the real code]" if j.get("confirmed") else ""))
                else:
                    sta.append(f"{j.get('standin', '?')}: {j.get('case')}")
            und = [l[11:180] for l in c.stdout.splitlines() if l.startswith("UNDECIDED")]
            det[p] = {"exit": c.returncode, "violation_lines": len(viol), "deductive_obligations": sorted(set(ded))[:8],
                      "standin_cases": sta[:6], "undecided": und[:4], "wall_s": round(time.time() - t, 1)}
            print(sid, p, "exit", c.returncode, "deductive", len(set(ded)), "stand-in", len(sta), "undecided", len(und), flush=True)
    finally:
        sh("git -C /repo checkout -- .")
        assert sh("git -C /repo status --porcelain").stdout.strip() == ""
    meta["detection"] = det
    meta["caught"] = any(v["exit"] == 1 for v in det.values())
    json.dump(meta, open(f"{d}/meta.json", "w"), indent=1)
