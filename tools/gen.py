"""Debug helper: generate (and optionally solve) obligations of one function."""
import sys, time, faulthandler
faulthandler.dump_traceback_later(int(sys.argv[2]) if len(sys.argv) > 2 else 60, exit=True)
sys.path.insert(0, '/verif')
import contracts.props
from pv import verify, solve, decl
key = sys.argv[1]
r = verify.verify_lemma(key[6:]) if key.startswith("lemma:") else verify.verify_function(key)
print(key, r.status, r.message, len(r.obligations), f"{r.gen_time:.2f}s")
if "--solve" in sys.argv:
    v = solve.solve_all([o for o in r.obligations if o.expect == "valid"])
    for ob in r.obligations:
        if ob.name in v: print("   ", v[ob.name], v[ob.name].reason[:100])
else:
    for ob in r.obligations: print("  ", ob.name)
