#!/bin/bash
# usage: scratch_try.sh <patch.diff | "sed:<file>:<expr>"> <prop> [extra check args]  -- applies to a scratch copy of /repo's HEAD, runs the kernel only
set -e
S=$(mktemp -d /tmp/scratch.XXXX)
(cd /repo && git archive HEAD pint) | tar -x -C $S
if [[ "$1" == sed:* ]]; then IFS=: read -r _ f e <<< "$1"; sed -i "$e" $S/$f; (cd /repo && git diff --no-index --stat pint/${f#pint/} $S/$f || true) | tail -1
else (cd $S && patch -p1 -s < "$1"); fi
shift
PV_REPO=$S PV_NO_EVIDENCE=1 /verif/check "$@" --no-standins 2>&1 | grep -v WARNING | tail -12 || true
rm -rf $S
