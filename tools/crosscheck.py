"""Cross-check: re-discharge every proof obligation of the given properties with the z3 4.8.12 and z3 5.1.0 CLIs.
Usage: crosscheck.py C01 C02 ...   (prints per-obligation disagreement / unconfirmed lists)"""
import sys, os, subprocess, json, time
from concurrent.futures import ThreadPoolExecutor
sys.path.insert(0, '/verif')
import contracts.props  # noqa
from pv import verify, solve, runner, decl

def cli(binary, path, opts, t):
    try:
        r = subprocess.run([binary, f"-T:{t}"] + opts + [path], capture_output=True, text=True, timeout=t + 5)
        out = r.stdout.strip().splitlines()
        return out[0] if out else "error"
    except subprocess.TimeoutExpired:
        return "timeout"

def one(args):
    name, path = args
    res = {}
    for tag, binary in (("z3-4.8.12", "/usr/bin/z3"),):
        v = cli(binary, path, ["smt.mbqi=false", "smt.arith.nl=false"], 10)
        if v != "unsat":
            v2 = cli(binary, path, [], 20)
            v = v2 if v2 in ("sat", "unsat") else v
        res[tag] = v
    return name, res

out = {}
for prop in sys.argv[1:]:
    keys, lemmas, structural = runner.functions_for(prop)
    results = [verify.verify_function(k) for k in keys if not decl.CONTRACTS[k].trusted] + [verify.verify_lemma(l) for l in lemmas]
    obs = [ob for r in results for ob in r.obligations if ob.expect == "valid"]
    d = f"/tmp/xc/{prop}"; os.makedirs(d, exist_ok=True)
    jobs = []
    for i, ob in enumerate(obs):
        p = f"{d}/{i}.smt2"; open(p, "w").write(solve.to_smt2(ob)); jobs.append((ob.name, p))
    t = time.time()
    with ThreadPoolExecutor(16) as ex:
        rs = list(ex.map(one, jobs))
    cnt = {}
    for n, r in rs:
        cnt[r["z3-4.8.12"]] = cnt.get(r["z3-4.8.12"], 0) + 1
    print(prop, len(obs), cnt, round(time.time() - t, 1), flush=True)
    for n, r in rs:
        if r["z3-4.8.12"] != "unsat":
            print("   ", r["z3-4.8.12"], n, flush=True)
