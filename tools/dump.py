"""Debug helper: dump one obligation as SMT-LIB."""
import sys
sys.path.insert(0, '/verif')
import contracts.props
from pv import verify, solve
key, name, out = sys.argv[1], sys.argv[2], sys.argv[3]
r = verify.verify_lemma(key[6:]) if key.startswith("lemma:") else verify.verify_function(key)
for ob in r.obligations:
    if ob.name.endswith(name):
        open(out, "w").write(solve.to_smt2(ob))
        print("wrote", ob.name, len(ob.hyps), "hyps")
        for t in ob.trace: print("   ", t)
        break
