"""Confirm seeded changes: in a scratch worktree of /repo apply the patch, run the repository's test suite
(must pass) and the demo (must fail), then remove the worktree.  Writes /verif/seeded/<id>/{patch.diff,demo.py,meta.json}."""
import json, os, shutil, subprocess, sys, tempfile
from concurrent.futures import ThreadPoolExecutor

def sh(cmd, cwd=None, timeout=3000):
    return subprocess.run(cmd, shell=True, capture_output=True, text=True, cwd=cwd, timeout=timeout)

def confirm(item):
    sid, src, prop = item
    wt = tempfile.mkdtemp(prefix=f"seedchk_{sid}_", dir="/tmp")
    os.rmdir(wt)
    out = {"id": sid, "property": prop}
    try:
        r = sh(f"git -C /repo worktree add -q --detach {wt} HEAD")
        if r.returncode: return {**out, "error": r.stderr}
        r = sh(f"git apply {src}/patch.diff", cwd=wt)
        if r.returncode: return {**out, "error": "patch does not apply: " + r.stderr}
        # private disk cache: test_diskcache::test_auto reads the per-user cache, which concurrent worktrees pollute
        t = sh(f"XDG_CACHE_HOME={wt}/.xdgcache /venv/bin/python -m pytest -q -p no:cacheprovider --timeout=900 --benchmark-disable -x 2>&1 | tail -3", cwd=wt)
        out["suite_tail"] = t.stdout.strip().splitlines()[-1:] 
        out["suite_passes"] = " passed" in t.stdout and " failed" not in t.stdout and "error" not in t.stdout.lower().split("passed")[0][-200:]
        d = sh(f"/venv/bin/python {src}/demo.py", cwd=wt)
        out["demo_fails_with_change"] = d.returncode != 0
        sh("git checkout -- .", cwd=wt)
        d2 = sh(f"/venv/bin/python {src}/demo.py", cwd=wt)
        out["demo_passes_without_change"] = d2.returncode == 0
    finally:
        sh(f"git -C /repo worktree remove --force {wt}")
        shutil.rmtree(wt, ignore_errors=True)
    return out

items = []
for a in sys.argv[1:]:
    sid, src, prop = a.split(":")
    items.append((sid, src, prop))
with ThreadPoolExecutor(max_workers=6) as ex:
    for res in ex.map(confirm, items):
        print(json.dumps(res))
        sid = res["id"]
        src = [i for i in items if i[0] == sid][0][1]
        if res.get("suite_passes") and res.get("demo_fails_with_change") and res.get("demo_passes_without_change"):
            dst = f"/verif/seeded/{sid}"
            os.makedirs(dst, exist_ok=True)
            shutil.copy(f"{src}/patch.diff", f"{dst}/patch.diff")
            shutil.copy(f"{src}/demo.py", f"{dst}/demo.py")
            notes = open(f"{src}/notes.md").read() if os.path.exists(f"{src}/notes.md") else ""
            meta = {"id": sid, "property": res["property"], "needs_to_manifest": notes,
                    "confirmed": {"suite": res["suite_tail"], "demo_fails_with_change": True, "demo_passes_without_change": True,
                                  "how": "scratch worktree of /repo: git apply patch.diff; pytest -q -p no:cacheprovider --timeout=900 --benchmark-disable -x; "
                                         "python demo.py (cwd = worktree); git checkout; python demo.py"}}
            json.dump(meta, open(f"{dst}/meta.json", "w"), indent=1)
