import Mathlib
open Finset
noncomputable section
variable {K : Type} [DecidableEq K]

/-- weighted finite sum: DimS / RootS of the SMT side -/
def LinS (w : K → K → ℝ) (b : K) (P : Finset K) (v : K → ℝ) : ℝ := ∑ k ∈ P, v k * w b k

/-- finite product of powers: FacS of the SMT side -/
def FacS (f1 : K → ℝ) (P : Finset K) (v : K → ℝ) (e : ℝ) : ℝ := ∏ k ∈ P, Real.rpow (f1 k) (e * v k)

/-- conversion factor between two containers: the ratio of their factors -/
def FacDiff (f1 : K → ℝ) (P : Finset K) (u : K → ℝ) (Q : Finset K) (v : K → ℝ) : ℝ :=
  FacS f1 P u 1 / FacS f1 Q v 1

theorem facs_ext (f1 : K → ℝ) (S U : Finset K) (x : K → ℝ) (e : ℝ) (hS : S ⊆ U)
    (hx : ∀ k, k ∉ S → x k = 0) : FacS f1 S x e = FacS f1 U x e := by
  unfold FacS
  apply Finset.prod_subset hS
  intro k _ hk
  simp [hx k hk, Real.rpow_eq_pow]

theorem lins_ext (w : K → K → ℝ) (b : K) (S U : Finset K) (x : K → ℝ) (hS : S ⊆ U)
    (hx : ∀ k, k ∉ S → x k = 0) : LinS w b S x = LinS w b U x := by
  unfold LinS
  apply Finset.sum_subset hS
  intro k _ hk
  simp [hx k hk]

variable (d1 r1 : K → K → ℝ) (f1 : K → ℝ)

theorem ax_dims_empty : (∀ (b : K) (v : K → ℝ), ((LinS d1 (b) ((∅ : Finset K)) (v)) = (0 : ℝ))) := by simp [LinS]

theorem ax_dims_insert : (∀ (b : K) (P : Finset K) (k : K) (v : K → ℝ), ((LinS d1 (b) ((insert k P)) (v)) = ((LinS d1 (b) (P) (v)) + (if (k ∈ P) then (0 : ℝ) else (if ((d1 (b) (k)) = (0 : ℝ)) then (0 : ℝ) else (if ((d1 (b) (k)) = (1 : ℝ)) then (v k) else ((v k) * (d1 (b) (k))))))))) := by
  intro b P k v
  by_cases h : k ∈ P
  · simp [LinS, Finset.insert_eq_of_mem h, h]
  · simp only [LinS, Finset.sum_insert h, h, if_false]
    split_ifs with h0 h1
    · simp [h0]
    · simp [h1]; ring
    · ring

theorem ax_dims_update_outside : (∀ (b : K) (P : Finset K) (k : K) (v : K → ℝ) (x : ℝ), ((¬ (k ∈ P)) → ((LinS d1 (b) (P) ((Function.update v k x))) = (LinS d1 (b) (P) (v))))) := by
  intro b P k v x h
  unfold LinS
  apply Finset.sum_congr rfl
  intro j hj
  have : j ≠ k := fun e => h (e ▸ hj)
  simp [Function.update_of_ne this]

theorem ax_roots_empty : (∀ (b : K) (v : K → ℝ), ((LinS r1 (b) ((∅ : Finset K)) (v)) = (0 : ℝ))) := by simp [LinS]

theorem ax_roots_insert : (∀ (b : K) (P : Finset K) (k : K) (v : K → ℝ), ((LinS r1 (b) ((insert k P)) (v)) = ((LinS r1 (b) (P) (v)) + (if (k ∈ P) then (0 : ℝ) else (if ((r1 (b) (k)) = (0 : ℝ)) then (0 : ℝ) else (if ((r1 (b) (k)) = (1 : ℝ)) then (v k) else ((v k) * (r1 (b) (k))))))))) := by
  intro b P k v
  by_cases h : k ∈ P
  · simp [LinS, Finset.insert_eq_of_mem h, h]
  · simp only [LinS, Finset.sum_insert h, h, if_false]
    split_ifs with h0 h1
    · simp [h0]
    · simp [h1]; ring
    · ring

theorem ax_roots_update_outside : (∀ (b : K) (P : Finset K) (k : K) (v : K → ℝ) (x : ℝ), ((¬ (k ∈ P)) → ((LinS r1 (b) (P) ((Function.update v k x))) = (LinS r1 (b) (P) (v))))) := by
  intro b P k v x h
  unfold LinS
  apply Finset.sum_congr rfl
  intro j hj
  have : j ≠ k := fun e => h (e ▸ hj)
  simp [Function.update_of_ne this]

theorem ax_facs_empty : (∀ (v : K → ℝ) (e : ℝ), ((FacS f1 ((∅ : Finset K)) (v) (e)) = (1 : ℝ))) := by simp [FacS]

theorem ax_facs_insert : (∀ (P : Finset K) (k : K) (v : K → ℝ) (e : ℝ), ((FacS f1 ((insert k P)) (v) (e)) = ((FacS f1 (P) (v) (e)) * (if (k ∈ P) then (1 : ℝ) else (Real.rpow ((f1 (k))) ((e * (v k)))))))) := by
  intro P k v e
  by_cases h : k ∈ P
  · simp [FacS, Finset.insert_eq_of_mem h, h]
  · simp [FacS, Finset.prod_insert h, h]; ring

theorem ax_pw_zero : (∀ (a : ℝ), ((Real.rpow (a) ((0 : ℝ))) = (1 : ℝ))) := by intro a; exact Real.rpow_zero a

theorem ax_pw_one : (∀ (a : ℝ), ((Real.rpow (a) ((1 : ℝ))) = a)) := by intro a; exact Real.rpow_one a

theorem ax_pw_base_one : (∀ (x : ℝ), ((Real.rpow ((1 : ℝ)) (x)) = (1 : ℝ))) := by intro x; exact Real.one_rpow x

theorem ax_pw_add : (∀ (a : ℝ) (x : ℝ) (y : ℝ), (((0 : ℝ) < a) → ((Real.rpow (a) ((x + y))) = ((Real.rpow (a) (x)) * (Real.rpow (a) (y)))))) := by intro a x y h; exact Real.rpow_add h x y

theorem ax_pw_mul : (∀ (a : ℝ) (x : ℝ) (y : ℝ), (((0 : ℝ) < a) → ((Real.rpow ((Real.rpow (a) (x))) (y)) = (Real.rpow (a) ((x * y)))))) := by intro a x y h; exact (Real.rpow_mul (le_of_lt h) x y).symm

theorem ax_pw_prod : (∀ (a : ℝ) (b : ℝ) (x : ℝ), ((((0 : ℝ) < a) ∧ ((0 : ℝ) < b)) → ((Real.rpow ((a * b)) (x)) = ((Real.rpow (a) (x)) * (Real.rpow (b) (x)))))) := by intro a b x h; exact Real.mul_rpow (le_of_lt h.1) (le_of_lt h.2)

theorem ax_pw_pos : (∀ (a : ℝ) (x : ℝ), (((0 : ℝ) < a) → ((0 : ℝ) < (Real.rpow (a) (x))))) := by intro a x h; exact Real.rpow_pos_of_pos h x

theorem ax_exp_log : (∀ (x : ℝ), (((0 : ℝ) < x) → ((Real.exp ((Real.log (x)))) = x))) := by intro x h; exact Real.exp_log h

theorem ax_log_exp : (∀ (x : ℝ), ((Real.log ((Real.exp (x)))) = x)) := by intro x; exact Real.log_exp x

theorem ax_exp_pos : (∀ (x : ℝ), ((0 : ℝ) < (Real.exp (x)))) := by intro x; exact Real.exp_pos x

theorem ax_facdiff_def : (∀ (P : Finset K) (u : K → ℝ) (Q : Finset K) (v : K → ℝ) (R : Finset K) (w : K → ℝ), (((∀ (k : K), ((w k) = ((u k) - (v k)))) ∧ (∀ (k : K), ((¬ (k ∈ R)) → ((w k) = (0 : ℝ)))) ∧ (∀ (k : K), ((¬ (k ∈ P)) → ((u k) = (0 : ℝ)))) ∧ (∀ (k : K), ((¬ (k ∈ Q)) → ((v k) = (0 : ℝ)))) ∧ (∀ (k : K), ((0 : ℝ) < (f1 (k))))) → ((FacS f1 (R) (w) ((1 : ℝ))) = (FacDiff f1 (P) (u) (Q) (v))))) := by
  intro P u Q v R w h
  obtain ⟨hw, hR, hP, hQ, hpos⟩ := h
  have e1 := facs_ext f1 R (P ∪ Q ∪ R) w 1 (by intro x hx; simp only [Finset.mem_union]; tauto) hR
  have e2 := facs_ext f1 P (P ∪ Q ∪ R) u 1 (by intro x hx; simp only [Finset.mem_union]; tauto) hP
  have e3 := facs_ext f1 Q (P ∪ Q ∪ R) v 1 (by intro x hx; simp only [Finset.mem_union]; tauto) hQ
  unfold FacDiff
  rw [e1, e2, e3]
  unfold FacS
  rw [← Finset.prod_div_distrib]
  apply Finset.prod_congr rfl
  intro k _
  simp only [one_mul, hw k, Real.rpow_eq_pow]
  exact Real.rpow_sub (hpos k) (u k) (v k)

theorem ax_facdiff_ratio : (∀ (P : Finset K) (u : K → ℝ) (Q : Finset K) (v : K → ℝ), (((0 : ℝ) < (FacS f1 (Q) (v) ((1 : ℝ)))) → (((FacDiff f1 (P) (u) (Q) (v)) * (FacS f1 (Q) (v) ((1 : ℝ)))) = (FacS f1 (P) (u) ((1 : ℝ)))))) := by
  intro P u Q v h
  unfold FacDiff
  exact div_mul_cancel₀ _ (ne_of_gt h)

theorem ax_dims_add : (∀ (b : K) (P : Finset K) (u : K → ℝ) (Q : Finset K) (v : K → ℝ) (R : Finset K) (w : K → ℝ), (((∀ (k : K), ((w k) = ((u k) + (v k)))) ∧ (∀ (k : K), ((¬ (k ∈ R)) → ((w k) = (0 : ℝ)))) ∧ (∀ (k : K), ((¬ (k ∈ P)) → ((u k) = (0 : ℝ)))) ∧ (∀ (k : K), ((¬ (k ∈ Q)) → ((v k) = (0 : ℝ))))) → ((LinS d1 (b) (R) (w)) = ((LinS d1 (b) (P) (u)) + (LinS d1 (b) (Q) (v)))))) := by
  intro b P u Q v R w h
  obtain ⟨hw, hR, hP, hQ⟩ := h
  have e1 := lins_ext d1 b R (P ∪ Q ∪ R) w (by intro x hx; simp only [Finset.mem_union]; tauto) hR
  have e2 := lins_ext d1 b P (P ∪ Q ∪ R) u (by intro x hx; simp only [Finset.mem_union]; tauto) hP
  have e3 := lins_ext d1 b Q (P ∪ Q ∪ R) v (by intro x hx; simp only [Finset.mem_union]; tauto) hQ
  rw [e1, e2, e3]
  unfold LinS
  rw [← Finset.sum_add_distrib]
  apply Finset.sum_congr rfl
  intro k _
  rw [hw k]
  ring

theorem ax_dims_sub : (∀ (b : K) (P : Finset K) (u : K → ℝ) (Q : Finset K) (v : K → ℝ) (R : Finset K) (w : K → ℝ), (((∀ (k : K), ((w k) = ((u k) - (v k)))) ∧ (∀ (k : K), ((¬ (k ∈ R)) → ((w k) = (0 : ℝ)))) ∧ (∀ (k : K), ((¬ (k ∈ P)) → ((u k) = (0 : ℝ)))) ∧ (∀ (k : K), ((¬ (k ∈ Q)) → ((v k) = (0 : ℝ))))) → ((LinS d1 (b) (R) (w)) = ((LinS d1 (b) (P) (u)) - (LinS d1 (b) (Q) (v)))))) := by
  intro b P u Q v R w h
  obtain ⟨hw, hR, hP, hQ⟩ := h
  have e1 := lins_ext d1 b R (P ∪ Q ∪ R) w (by intro x hx; simp only [Finset.mem_union]; tauto) hR
  have e2 := lins_ext d1 b P (P ∪ Q ∪ R) u (by intro x hx; simp only [Finset.mem_union]; tauto) hP
  have e3 := lins_ext d1 b Q (P ∪ Q ∪ R) v (by intro x hx; simp only [Finset.mem_union]; tauto) hQ
  rw [e1, e2, e3]
  unfold LinS
  rw [← Finset.sum_sub_distrib]
  apply Finset.sum_congr rfl
  intro k _
  rw [hw k]
  ring

theorem ax_facprod_def : (∀ (P : Finset K) (u : K → ℝ) (Q : Finset K) (v : K → ℝ) (R : Finset K) (w : K → ℝ), (((∀ (k : K), ((w k) = ((u k) + (v k)))) ∧ (∀ (k : K), ((¬ (k ∈ R)) → ((w k) = (0 : ℝ)))) ∧ (∀ (k : K), ((¬ (k ∈ P)) → ((u k) = (0 : ℝ)))) ∧ (∀ (k : K), ((¬ (k ∈ Q)) → ((v k) = (0 : ℝ)))) ∧ (∀ (k : K), ((0 : ℝ) < (f1 (k))))) → ((FacS f1 (R) (w) ((1 : ℝ))) = ((FacS f1 (P) (u) ((1 : ℝ))) * (FacS f1 (Q) (v) ((1 : ℝ))))))) := by
  intro P u Q v R w h
  obtain ⟨hw, hR, hP, hQ, hpos⟩ := h
  have e1 := facs_ext f1 R (P ∪ Q ∪ R) w 1 (by intro x hx; simp only [Finset.mem_union]; tauto) hR
  have e2 := facs_ext f1 P (P ∪ Q ∪ R) u 1 (by intro x hx; simp only [Finset.mem_union]; tauto) hP
  have e3 := facs_ext f1 Q (P ∪ Q ∪ R) v 1 (by intro x hx; simp only [Finset.mem_union]; tauto) hQ
  rw [e1, e2, e3]
  unfold FacS
  rw [← Finset.prod_mul_distrib]
  apply Finset.prod_congr rfl
  intro k _
  simp only [one_mul, hw k, Real.rpow_eq_pow]
  exact Real.rpow_add (hpos k) (u k) (v k)

end
