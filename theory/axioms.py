"""The spec theory's axioms: ONE source, rendered to z3 (pv.theory.to_z3) and to Lean statements
(pv.theory.to_lean) whose proofs (Mathlib) are checked by `lean` in setup (pv.theory_gen).

LinS w b P v  = sum over k in P of v k * w b k        (DimS with w = d1, RootS with w = r1)
FacS f1 P v e = prod over k in P of rpow (f1 k) (e * v k)
"""

def V(*names_sorts):
    return [tuple(x.split(":")) for x in names_sorts]


def app(f, *a):
    return ("app", f) + a


def lin_axioms(F, w):
    n = F.lower()
    return [
        (f"{n}_empty", ("forall", V("b:K", "v:Map"), ("=", app(F, "b", ("empty",), "v"), ("num", 0))),
         "by simp [LinS]"),
        (f"{n}_insert", ("forall", V("b:K", "P:Set", "k:K", "v:Map"),
                         ("=", app(F, "b", ("insert", "P", "k"), "v"),
                          ("+", app(F, "b", "P", "v"),
                           ("ite", ("mem", "k", "P"), ("num", 0),
                            # case split on the weight (0 / 1 / other) so that linear reasoning suffices for
                            # indicator weights; logically just v[k] * w(b, k)
                            ("ite", ("=", app(w, "b", "k"), ("num", 0)), ("num", 0),
                             ("ite", ("=", app(w, "b", "k"), ("num", 1)), ("get", "v", "k"),
                              ("*", ("get", "v", "k"), app(w, "b", "k")))))))),
         "by\n  intro b P k v\n  by_cases h : k ∈ P\n  · simp [LinS, Finset.insert_eq_of_mem h, h]\n"
         "  · simp only [LinS, Finset.sum_insert h, h, if_false]\n    split_ifs with h0 h1\n"
         "    · simp [h0]\n    · simp [h1]; ring\n    · ring"),
        (f"{n}_update_outside", ("forall", V("b:K", "P:Set", "k:K", "v:Map", "x:R"),
                                 ("=>", ("not", ("mem", "k", "P")),
                                  ("=", app(F, "b", "P", ("upd", "v", "k", "x")), app(F, "b", "P", "v")))),
         "by\n  intro b P k v x h\n  unfold LinS\n  apply Finset.sum_congr rfl\n  intro j hj\n"
         "  have : j ≠ k := fun e => h (e ▸ hj)\n  simp [Function.update_of_ne this]"),
    ]


AXIOMS = []
AXIOMS += [("lin",) + a for a in lin_axioms("DimS", "d1")]
AXIOMS += [("root",) + a for a in lin_axioms("RootS", "r1")]
AXIOMS += [
    ("fac", "facs_empty", ("forall", V("v:Map", "e:R"), ("=", app("FacS", ("empty",), "v", "e"), ("num", 1))),
     "by simp [FacS]"),
    ("fac", "facs_insert", ("forall", V("P:Set", "k:K", "v:Map", "e:R"),
                            ("=", app("FacS", ("insert", "P", "k"), "v", "e"),
                             ("*", app("FacS", "P", "v", "e"),
                              ("ite", ("mem", "k", "P"), ("num", 1),
                               app("pw", app("f1", "k"), ("*", "e", ("get", "v", "k"))))))),
     "by\n  intro P k v e\n  by_cases h : k ∈ P\n  · simp [FacS, Finset.insert_eq_of_mem h, h]\n"
     "  · simp [FacS, Finset.prod_insert h, h]; ring"),
    ("pw", "pw_zero", ("forall", V("a:R"), ("=", app("pw", "a", ("num", 0)), ("num", 1))),
     "by intro a; exact Real.rpow_zero a"),
    ("pw", "pw_one", ("forall", V("a:R"), ("=", app("pw", "a", ("num", 1)), "a")),
     "by intro a; exact Real.rpow_one a"),
    ("pw", "pw_base_one", ("forall", V("x:R"), ("=", app("pw", ("num", 1), "x"), ("num", 1))),
     "by intro x; exact Real.one_rpow x"),
    ("pw", "pw_add", ("forall", V("a:R", "x:R", "y:R"),
                      ("=>", ("<", ("num", 0), "a"),
                       ("=", app("pw", "a", ("+", "x", "y")), ("*", app("pw", "a", "x"), app("pw", "a", "y"))))),
     "by intro a x y h; exact Real.rpow_add h x y"),
    ("pw", "pw_mul", ("forall", V("a:R", "x:R", "y:R"),
                      ("=>", ("<", ("num", 0), "a"),
                       ("=", app("pw", app("pw", "a", "x"), "y"), app("pw", "a", ("*", "x", "y"))))),
     "by intro a x y h; exact (Real.rpow_mul (le_of_lt h) x y).symm"),
    ("pw", "pw_prod", ("forall", V("a:R", "b:R", "x:R"),
                       ("=>", ("and", ("<", ("num", 0), "a"), ("<", ("num", 0), "b")),
                        ("=", app("pw", ("*", "a", "b"), "x"), ("*", app("pw", "a", "x"), app("pw", "b", "x"))))),
     "by intro a b x h; exact Real.mul_rpow (le_of_lt h.1) (le_of_lt h.2)"),
    ("pw", "pw_pos", ("forall", V("a:R", "x:R"), ("=>", ("<", ("num", 0), "a"), ("<", ("num", 0), app("pw", "a", "x")))),
     "by intro a x h; exact Real.rpow_pos_of_pos h x"),
]

AXIOMS += [
    ("explog", "exp_log", ("forall", V("x:R"), ("=>", ("<", ("num", 0), "x"), ("=", app("Exp", app("Log", "x")), "x"))),
     "by intro x h; exact Real.exp_log h"),
    ("explog", "log_exp", ("forall", V("x:R"), ("=", app("Log", app("Exp", "x")), "x")),
     "by intro x; exact Real.log_exp x"),
    ("explog", "exp_pos", ("forall", V("x:R"), ("<", ("num", 0), app("Exp", "x"))),
     "by intro x; exact Real.exp_pos x"),
]


def forall_k(body):
    return ("forall", V("k:K"), body)


AXIOMS += [
    # The conversion factor between two unit containers IS the ratio of their factors (FacDiff is defined as
    # that ratio in Lean); the code computes it as the factor of the quotient container.
    ("facdiff", "facdiff_def",
     ("forall", V("P:Set", "u:Map", "Q:Set", "v:Map", "R:Set", "w:Map"),
      ("=>", ("and",
              forall_k(("=", ("get", "w", "k"), ("-", ("get", "u", "k"), ("get", "v", "k")))),
              forall_k(("=>", ("not", ("mem", "k", "R")), ("=", ("get", "w", "k"), ("num", 0)))),
              forall_k(("=>", ("not", ("mem", "k", "P")), ("=", ("get", "u", "k"), ("num", 0)))),
              forall_k(("=>", ("not", ("mem", "k", "Q")), ("=", ("get", "v", "k"), ("num", 0)))),
              forall_k(("<", ("num", 0), app("f1", "k")))),
       ("=", app("FacS", "R", "w", ("num", 1)), app("FacDiff", "P", "u", "Q", "v")))),
     "by\n  intro P u Q v R w h\n  obtain ⟨hw, hR, hP, hQ, hpos⟩ := h\n"
     "  have e1 := facs_ext f1 R (P ∪ Q ∪ R) w 1 (by intro x hx; simp only [Finset.mem_union]; tauto) hR\n"
     "  have e2 := facs_ext f1 P (P ∪ Q ∪ R) u 1 (by intro x hx; simp only [Finset.mem_union]; tauto) hP\n"
     "  have e3 := facs_ext f1 Q (P ∪ Q ∪ R) v 1 (by intro x hx; simp only [Finset.mem_union]; tauto) hQ\n"
     "  unfold FacDiff\n  rw [e1, e2, e3]\n  unfold FacS\n  rw [← Finset.prod_div_distrib]\n"
     "  apply Finset.prod_congr rfl\n  intro k _\n  simp only [one_mul, hw k, Real.rpow_eq_pow]\n"
     "  exact Real.rpow_sub (hpos k) (u k) (v k)"),
    # ... and, being that ratio, it gives the first factor back when multiplied by the second
    ("facdiff", "facdiff_ratio",
     ("forall", V("P:Set", "u:Map", "Q:Set", "v:Map"),
      ("=>", ("<", ("num", 0), app("FacS", "Q", "v", ("num", 1))),
       ("=", ("*", app("FacDiff", "P", "u", "Q", "v"), app("FacS", "Q", "v", ("num", 1))), app("FacS", "P", "u", ("num", 1))))),
     "by\n  intro P u Q v h\n  unfold FacDiff\n  exact div_mul_cancel₀ _ (ne_of_gt h)"),
]

def _support(P, u):
    return forall_k(("=>", ("not", ("mem", "k", P)), ("=", ("get", u, "k"), ("num", 0))))


_EXT = "(by intro x hx; simp only [Finset.mem_union]; tauto)"
AXIOMS += [
    # multiplying / dividing two containers adds / subtracts exponents: dimensions add / subtract, factors multiply
    ("linadd", "dims_add",
     ("forall", V("b:K", "P:Set", "u:Map", "Q:Set", "v:Map", "R:Set", "w:Map"),
      ("=>", ("and", forall_k(("=", ("get", "w", "k"), ("+", ("get", "u", "k"), ("get", "v", "k")))),
              _support("R", "w"), _support("P", "u"), _support("Q", "v")),
       ("=", app("DimS", "b", "R", "w"), ("+", app("DimS", "b", "P", "u"), app("DimS", "b", "Q", "v"))))),
     "by\n  intro b P u Q v R w h\n  obtain ⟨hw, hR, hP, hQ⟩ := h\n"
     f"  have e1 := lins_ext d1 b R (P ∪ Q ∪ R) w {_EXT} hR\n"
     f"  have e2 := lins_ext d1 b P (P ∪ Q ∪ R) u {_EXT} hP\n"
     f"  have e3 := lins_ext d1 b Q (P ∪ Q ∪ R) v {_EXT} hQ\n"
     "  rw [e1, e2, e3]\n  unfold LinS\n  rw [← Finset.sum_add_distrib]\n"
     "  apply Finset.sum_congr rfl\n  intro k _\n  rw [hw k]\n  ring"),
    ("linadd", "dims_sub",
     ("forall", V("b:K", "P:Set", "u:Map", "Q:Set", "v:Map", "R:Set", "w:Map"),
      ("=>", ("and", forall_k(("=", ("get", "w", "k"), ("-", ("get", "u", "k"), ("get", "v", "k")))),
              _support("R", "w"), _support("P", "u"), _support("Q", "v")),
       ("=", app("DimS", "b", "R", "w"), ("-", app("DimS", "b", "P", "u"), app("DimS", "b", "Q", "v"))))),
     "by\n  intro b P u Q v R w h\n  obtain ⟨hw, hR, hP, hQ⟩ := h\n"
     f"  have e1 := lins_ext d1 b R (P ∪ Q ∪ R) w {_EXT} hR\n"
     f"  have e2 := lins_ext d1 b P (P ∪ Q ∪ R) u {_EXT} hP\n"
     f"  have e3 := lins_ext d1 b Q (P ∪ Q ∪ R) v {_EXT} hQ\n"
     "  rw [e1, e2, e3]\n  unfold LinS\n  rw [← Finset.sum_sub_distrib]\n"
     "  apply Finset.sum_congr rfl\n  intro k _\n  rw [hw k]\n  ring"),
    ("facprod", "facprod_def",
     ("forall", V("P:Set", "u:Map", "Q:Set", "v:Map", "R:Set", "w:Map"),
      ("=>", ("and", forall_k(("=", ("get", "w", "k"), ("+", ("get", "u", "k"), ("get", "v", "k")))),
              _support("R", "w"), _support("P", "u"), _support("Q", "v"),
              forall_k(("<", ("num", 0), app("f1", "k")))),
       ("=", app("FacS", "R", "w", ("num", 1)),
        ("*", app("FacS", "P", "u", ("num", 1)), app("FacS", "Q", "v", ("num", 1)))))),
     "by\n  intro P u Q v R w h\n  obtain ⟨hw, hR, hP, hQ, hpos⟩ := h\n"
     f"  have e1 := facs_ext f1 R (P ∪ Q ∪ R) w 1 {_EXT} hR\n"
     f"  have e2 := facs_ext f1 P (P ∪ Q ∪ R) u 1 {_EXT} hP\n"
     f"  have e3 := facs_ext f1 Q (P ∪ Q ∪ R) v 1 {_EXT} hQ\n"
     "  rw [e1, e2, e3]\n  unfold FacS\n  rw [← Finset.prod_mul_distrib]\n"
     "  apply Finset.prod_congr rfl\n  intro k _\n  simp only [one_mul, hw k, Real.rpow_eq_pow]\n"
     "  exact Real.rpow_add (hpos k) (u k) (v k)"),
]

LEAN_PRELUDE = """import Mathlib
open Finset
noncomputable section
variable {K : Type} [DecidableEq K]

/-- weighted finite sum: DimS / RootS of the SMT side -/
def LinS (w : K → K → ℝ) (b : K) (P : Finset K) (v : K → ℝ) : ℝ := ∑ k ∈ P, v k * w b k

/-- finite product of powers: FacS of the SMT side -/
def FacS (f1 : K → ℝ) (P : Finset K) (v : K → ℝ) (e : ℝ) : ℝ := ∏ k ∈ P, Real.rpow (f1 k) (e * v k)

/-- conversion factor between two containers: the ratio of their factors -/
def FacDiff (f1 : K → ℝ) (P : Finset K) (u : K → ℝ) (Q : Finset K) (v : K → ℝ) : ℝ :=
  FacS f1 P u 1 / FacS f1 Q v 1

theorem facs_ext (f1 : K → ℝ) (S U : Finset K) (x : K → ℝ) (e : ℝ) (hS : S ⊆ U)
    (hx : ∀ k, k ∉ S → x k = 0) : FacS f1 S x e = FacS f1 U x e := by
  unfold FacS
  apply Finset.prod_subset hS
  intro k _ hk
  simp [hx k hk, Real.rpow_eq_pow]

theorem lins_ext (w : K → K → ℝ) (b : K) (S U : Finset K) (x : K → ℝ) (hS : S ⊆ U)
    (hx : ∀ k, k ∉ S → x k = 0) : LinS w b S x = LinS w b U x := by
  unfold LinS
  apply Finset.sum_subset hS
  intro k _ hk
  simp [hx k hk]

variable (d1 r1 : K → K → ℝ) (f1 : K → ℝ)
"""
